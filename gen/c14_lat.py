"""C14, lattice half — run_timeout of lattice programs compiled with #![generate_run_timeout] under the virtual clock
(feature verif_hooks: run_timeout(k s) fires exactly at its k-th deadline check), three ways:

  implementation  the real macro + rustc; per program
                    sweep   for k = 1, 2, ...: fresh program value, run_timeout(k), run()   until run_timeout returns true
                            (ALL firing points of an uninterrupted run, and the first k for which none fires)
                    chains  run_timeout(k1); run_timeout(k2) [; run_timeout(k3)]; run()
                    rerun   run() to completion (or run_timeout(huge) = true); push rows with new keys into some relations;
                            run_timeout(k); run()
  specification   the conclusions of Props/C14.v c14_lattice_* checked on the implementation's rows with the python Kleene
                  oracle and the python order of every lattice type (gen/c03_vocab.py leq): after EVERY call one row per key,
                  the rows present before the call still in place with values that only went up, plain relations only
                  appended to (no duplicates), every lattice value below the final one / every plain tuple in the final
                  relation, `true` => exactly the least fixed point; after the final run() exactly the least fixed point
  model           coq/LatEngine/LatRScript.v lat_timeout_sweep / lat_timeout_script (LatTimeout.run_timeout with the clock
                  lfire_at k = "the k-th reading fires") on the plan dumped by the real front end, vm_compute: returned flags
                  and rows (key -> value maps / sets) after every call, and after the final run()

Intermediate states of a RECURSIVE lattice stratum depend on the order in which the hash indices are iterated (a rule body
reads the current value of a row, raised earlier in the same iteration or not): the theorems quantify over every order, the
evaluated model fixes one.  Rule (decided from the dumped plan): if some lattice relation is dynamic in a looping SCC the
program is `order_sensitive`; for such programs a difference between the model and the implementation in the rows / flag of
an INTERRUPTED call is counted (extra.order_dependent_intermediate_differences) and not reported, provided both meet the
specification above; everything else (any program: final states; order-insensitive programs: every flag and every
intermediate state) must agree exactly."""
import json

from . import c03_gen as g
from . import c03_vocab as voc
from . import c13_lat, dl, lib, prog

FUEL = 300
PRELUDE = c13_lat.PRELUDE
SWEEP_MAX = 24


def gen_cases(tier, seed):
    rng = lib.rng_for(seed, "C14", "lat")
    n = 40 if tier == "quick" else 200
    cases = []
    for i in range(n):
        p = g.gen_program(rng, ["max", "dual"] if i % 4 == 0 else None)
        i0 = g.gen_input(rng, p, style=rng.choice(["improving", "chain", "mixed", "small"]))[0]
        orc = g.Oracle(p)
        s0 = orc.run(i0)
        if s0 is None:
            continue
        chains = [[rng.randint(1, 4), rng.randint(1, 4)] for _ in range(2 if tier == "quick" else 5)] + [[1, 1, 1]]
        reruns = []
        f = c13_lat.new_rows(rng, p, s0, rng.choice([1, 2]), rng.choice([0, 1, 2]), into=set(rng.sample([r[0] for r in p["rels"]], rng.choice([1, 2]) if len(p["rels"]) > 1 else 1)))
        acc = {}
        c13_lat.acc_add(acc, i0)
        c13_lat.acc_add(acc, f)
        if f and orc.run(acc) is not None:
            for k in (1, 2, 3):
                reruns.append(dict(first_by_run_timeout=bool(rng.getrandbits(1)), push=f, k=k))
        cases.append(dict(id="c14lat_%d" % i, prog=p, input=i0, chains=chains, reruns=reruns))
    # fixed probe: improvements must propagate through several iterations (see c13_lat.probe_program)
    pp, pin = c13_lat.probe_program()
    cases.insert(0, dict(id="c14lat_probe_cycle", prog=pp, input=pin, chains=[[1, 2], [2, 2], [3, 1], [1, 1, 1], [4, 4]],
                         reruns=[dict(first_by_run_timeout=bool(k % 2), push={"edge": [(2, 0, 1)], "sp": [(7, 7, 0)]}, k=k) for k in (1, 2, 3, 4)]))
    return cases


# ------------------------------------------------------------------ scripts for the real code

RET = "snaps.push(format!(\"{{\\\"__ret\\\":[[\\\"{}\\\"]]}}\", __r));"


def _set_code(p, inp, var):
    out = []
    for rel, rows in g.rust_input(p, inp).items():
        out.append("%s.%s = vec![%s].into_iter().collect();" % (var, rel, ", ".join(prog.rust_tuple(t) for t in rows)))
    return " ".join(out)


def scripts_for(c):
    p = c["prog"]
    # sweep: snapshots = [base] + for every k: [ret, rows after the call, rows after run()]
    sweep = [("raw", "ascent::verif_hooks::arm_clock(true);"),
             ("raw", "{ let mut q = Prog::default(); %s snaps.push(snap(&q)); }" % _set_code(p, c["input"], "q")),
             ("raw", "let mut __k = 1u64; loop { let mut q = Prog::default(); %s let __r = q.run_timeout(std::time::Duration::from_secs(__k)); %s snaps.push(snap(&q)); "
                     "q.run(); snaps.push(snap(&q)); if __r || __k >= %d { break; } __k += 1; }" % (_set_code(p, c["input"], "q"), RET, SWEEP_MAX)),
             ("raw", "ascent::verif_hooks::arm_clock(false);")]
    scripts = [sweep]
    for ks in c["chains"]:
        st = [("raw", "ascent::verif_hooks::arm_clock(true);"), ("set", g.rust_input(p, c["input"])), ("snap",)]
        for k in ks:
            st += [("raw", "let __r = p.run_timeout(std::time::Duration::from_secs(%d)); %s" % (k, RET)), ("snap",)]
        st += [("raw", "ascent::verif_hooks::arm_clock(false);"), ("run",), ("snap",)]
        scripts.append(st)
    for rr in c["reruns"]:
        st = [("set", g.rust_input(p, c["input"]))]
        if rr["first_by_run_timeout"]:
            st += [("raw", "ascent::verif_hooks::arm_clock(true); let __r = p.run_timeout(std::time::Duration::from_secs(1000000)); ascent::verif_hooks::arm_clock(false); %s" % RET)]
        else:
            st += [("run",), ("raw", "let __r = true; %s" % RET)]
        st += [("push", {r: ts for r, ts in g.rust_input(p, rr["push"]).items() if ts}), ("snap",),
               ("raw", "ascent::verif_hooks::arm_clock(true); let __r = p.run_timeout(std::time::Duration::from_secs(%d)); ascent::verif_hooks::arm_clock(false); %s" % (rr["k"], RET)), ("snap",),
               ("run",), ("snap",)]
        scripts.append(st)
    return scripts


# ------------------------------------------------------------------ model

def model_exprs(c, dump):
    p = c["prog"]
    R = dl.Names()
    for name, _, _ in p["rels"]:
        R(name)
    plan = g.coq_plan(p, dump, R)
    rules = dl.coq_list(g.coq_rule(r, R) for r in p["rules"])
    arities = dl.coq_list("(%s, %s)" % (dl.cnat(R(n)), dl.cnat(a)) for n, a, _ in p["rels"])
    lats = dl.coq_list("(%s, %s)" % (dl.cnat(R(n)), dl.cnat(voc.LTYPES[k[1]][0])) for n, a, k in p["rels"] if k != "rel")
    relnums = dl.cnats(R(n) for n, _, _ in p["rels"])
    eng = "lv_interp (lv_islat %s) (lv_jm %s) lv_shuffle lv_swap" % (lats, lats)
    r0 = c13_lat.coq_rows(p, c["input"], R)
    exprs = ["(validate %s %s %s && lat_plan_ok (lv_islat %s) %s %s)" % (arities, rules, plan, lats, arities, plan),
             "lat_timeout_sweep %s %d%%nat %s %s %d%%nat 1%%nat %s" % (eng, FUEL, plan, relnums, SWEEP_MAX, r0)]
    for ks in c["chains"]:
        exprs.append("lat_timeout_script %s %d%%nat %s %s %s %s" % (eng, FUEL, plan, relnums, dl.cnats(ks), r0))
    for rr in c["reruns"]:
        exprs.append("match run_plan %s %d%%nat %s %s with Some st => lat_timeout_script %s %d%%nat %s %s %s (appr (freeze %s (l_rows st)) %s) | None => None end"
                     % (eng, FUEL, plan, r0, eng, FUEL, plan, relnums, dl.cnats([rr["k"]]), relnums, c13_lat.coq_rows(p, rr["push"], R)))
    return exprs, {v: k for k, v in R.d.items()}


def _show(sh, inv):
    return {inv[r]: [tuple(t) for t in rows] for (r, rows) in sh}


# ------------------------------------------------------------------ specification checks on implementation rows

def check_call(p, base, rows, final, ret, what, positional=True):
    """rows after a call of run_timeout that returned `ret`, the rows `base` present before the call, the least fixed point `final`;
    positional=False (rows of the MODEL against a base taken from the implementation, whose derived rows are in another order):
    the rows present before are looked up by key / as a set instead of by row number"""
    lats = g.lat_of(p)
    fmap = {n: {t[:-1]: t[-1] for t in final[n]} for n in lats}
    for name, _, _ in p["rels"]:
        got, b = rows[name], base[name]
        if name in lats:
            ty = lats[name]
            keys = [t[:-1] for t in got]
            if len(keys) != len(set(keys)):
                return "%s: lattice %s holds %d rows for %d keys" % (what, name, len(got), len(set(keys)))
            gm = {t[:-1]: t[-1] for t in got}
            if not positional:
                if any(t[:-1] not in gm or not voc.leq(ty, t[-1], gm[t[:-1]]) for t in b):
                    return "%s: a row of %s present before the call is gone or went down" % (what, name)
            elif len(got) < len(b) or any(got[i][:-1] != b[i][:-1] or not voc.leq(ty, b[i][-1], got[i][-1]) for i in range(len(b))):
                return "%s: the rows of %s present before the call are not in place with values that only went up: before %s, after %s" % (what, name, b[:6], got[:6])
            for t in got:
                if t[:-1] not in fmap[name] or not voc.leq(ty, t[-1], fmap[name][t[:-1]]):
                    return "%s: row %s of lattice %s (%s) is not below the final value %s" % (what, t, name, ty, fmap[name].get(t[:-1]))
        else:
            if (got[:len(b)] != b) if positional else (not set(b) <= set(got)):
                return "%s: the rows of %s present before the call are not an unmodified prefix" % (what, name)
            if len(set(got)) != len(got) and len(set(b)) == len(b):
                return "%s: relation %s holds duplicate rows" % (what, name)
            extra = [t for t in got if t not in final[name]]
            if extra:
                return "%s: relation %s holds tuples that are not in the least fixed point: %s" % (what, name, extra[:4])
        if ret and sorted(set(got)) != final[name]:
            return "%s returned true but %s is not the least fixed point (missing %s, extra %s)" % (what, name, [t for t in final[name] if t not in got][:4], [t for t in got if t not in final[name]][:4])
    return None


def check_final(p, rows, final, what):
    for rel, msg in c13_lat.check_snapshot(p, rows, final):
        return "%s: %s" % (what, msg)
    return None


def same_rows(p, a, b):
    return all(sorted(a[n]) == sorted(b[n]) for n, _, _ in p["rels"])


# ------------------------------------------------------------------ run + compare

def order_sensitive(p, dump):
    lats = g.lat_of(p)
    return any(sc["looping"] and any(r in lats for r in sc["dynamic"]) for sc in dump.get("sccs", []))


def tie_part(tier, seed):
    cases = gen_cases(tier, seed)
    texts = {c["id"]: g.rust_program_text(c["prog"]) for c in cases}
    dumps = prog.front_run([(c["id"], "ascent", texts[c["id"]]) for c in cases])
    jobs = [dict(id=c["id"], text=texts[c["id"]], attrs=["#![generate_run_timeout]"], macro="ascent", rels=c["prog"]["rels"], scripts=scripts_for(c)) for c in cases]
    impl = prog.build_and_run("c14lat", jobs, features=("verif_hooks",))
    groups, gids, invs = [], [], {}
    for c in cases:
        d = dumps.get(c["id"])
        if d is None or d.get("status") != "ok" or "sccs" not in d:
            continue
        try:
            ex, inv = model_exprs(c, d)
        except g.PlanMismatch as e:
            raise lib.Infra("cannot pair the dumped plan of %s with the source rules: %s" % (c["id"], e))
        groups.append(ex)
        gids.append(c["id"])
        invs[c["id"]] = inv
    vals = dict(zip(gids, lib.coq_eval_groups("c14lat", PRELUDE, groups, timeout=120)))
    mism, distinct = [], set()
    stats = dict(interrupted_calls=0, calls_returning_true=0, sweep_points=0, programs_swept_to_true=0, order_sensitive_programs=0,
                 order_dependent_intermediate_differences=0, intermediate_states_equal_to_model=0, histories=0)
    nskip = 0
    for c in cases:
        p = c["prog"]
        d = dumps.get(c["id"], {})
        base_case = dict(program=texts[c["id"]], input=c["input"], prog=p, id=c["id"])
        if d.get("status") != "ok":
            mism.append(dict(case=base_case, impl=d.get("status"), model=None, spec=None, kind="impl_violates_spec", known=None,
                             what="front end rejects a well-formed lattice program with #![generate_run_timeout]: %s" % d.get("errors")))
            continue
        sens = order_sensitive(p, d)
        stats["order_sensitive_programs"] += sens
        orc = g.Oracle(p)
        final0 = g.canon_state(p, orc.run(c["input"]))
        v = vals.get(c["id"])
        if v is None:
            nskip += 1
        elif v[0] is not True:
            mism.append(dict(case=base_case, impl="plan computed by the macro", model="validate && lat_plan_ok = %s" % v[0], spec=None, kind="model_differs", known=None,
                             what="the plan dumped from the macro is rejected by validate / lat_plan_ok: the c14_lattice theorems do not apply to this program"))
        inv = invs.get(c["id"])
        res = impl.get(c["id"]) or []
        hists = [("sweep", None)] + [("chain", ks) for ks in c["chains"]] + [("rerun", rr) for rr in c["reruns"]]
        for h, (kind, arg) in enumerate(hists):
            cs = dict(base_case, history=kind, detail=arg)
            iv = res[h] if h < len(res) else None
            stats["histories"] += 1
            if iv is None or "snaps" not in iv:
                mism.append(dict(case=cs, impl=iv, model=None, spec=None, kind="impl_violates_spec", known=None, what="history did not complete (compile error / panic / timeout): %s" % json.dumps(iv)[:300]))
                continue
            sn = iv["snaps"]
            mv = v[h + 1] if v else None
            model = None if (mv is None or mv == "None") else mv[1]
            why = diff = None
            soft = 0
            # ---- decode the implementation's observations into a list of calls [(what, ret, rows)] + final rows
            if kind == "sweep":
                base = g.decode_snapshot(p, sn[0])
                triples = [(sn[i]["__ret"][0][0] == "true", g.decode_snapshot(p, sn[i + 1]), g.decode_snapshot(p, sn[i + 2])) for i in range(1, len(sn), 3)]
                stats["sweep_points"] += len(triples)
                stats["programs_swept_to_true"] += bool(triples and triples[-1][0])
                if model is not None and len(model) != len(triples) and not sens:
                    diff = "sweep: the implementation needs k = %d for run_timeout to return true, the model %d" % (len(triples), len(model))
                for k, (ret, rows, fin) in enumerate(triples, 1):
                    distinct.add((c["id"], "sweep", k))
                    stats["interrupted_calls"] += (not ret)
                    stats["calls_returning_true"] += ret
                    why = check_call(p, base, rows, final0, ret, "run_timeout(%d) on the input" % k) or check_final(p, fin, final0, "run() after run_timeout(%d)" % k)
                    if why:
                        break
                    if model is None or diff:
                        continue
                    if k > len(model):
                        soft += 1
                        continue
                    mb, mrows, mfin = model[k - 1]
                    mrows, mfin = _show(mrows, inv), _show(mfin, inv)
                    if not same_rows(p, mfin, fin):
                        diff = "rows after run() following run_timeout(%d)" % k
                    elif mb != ret or not same_rows(p, mrows, rows):
                        if sens and check_call(p, base, mrows, final0, mb, "model", positional=False) is None:
                            soft += 1
                        else:
                            diff = "run_timeout(%d) on the input: flag (model %s, implementation %s) or rows after the call" % (k, mb, ret)
                    else:
                        stats["intermediate_states_equal_to_model"] += 1
            else:
                if kind == "chain":
                    ks = arg
                    base = g.decode_snapshot(p, sn[0])
                    body = sn[1:]
                    final = final0
                else:
                    ks = [arg["k"]]
                    first_ret = sn[0]["__ret"][0][0] == "true"
                    base = g.decode_snapshot(p, sn[1])
                    body = sn[2:]
                    acc = {}
                    c13_lat.acc_add(acc, c["input"])
                    c13_lat.acc_add(acc, arg["push"])
                    final = g.canon_state(p, orc.run(acc))
                    if not first_ret:
                        why = "run_timeout with a deadline that never strikes returned false"
                distinct.add((c["id"], kind, json.dumps(arg, sort_keys=True, default=str)))
                calls = [(body[2 * j]["__ret"][0][0] == "true", g.decode_snapshot(p, body[2 * j + 1])) for j in range(len(ks))]
                fin = g.decode_snapshot(p, body[-1])
                prev = base
                for j, (ret, rows) in enumerate(calls):
                    if why:
                        break
                    stats["interrupted_calls"] += (not ret)
                    stats["calls_returning_true"] += ret
                    why = check_call(p, prev, rows, final, ret, "call #%d run_timeout(%d)" % (j + 1, ks[j]))
                    prev = rows
                why = why or check_final(p, fin, final, "the final run()")
                if not why and model is not None:
                    mcalls, mfin = model[0], _show(model[1], inv)
                    if not same_rows(p, mfin, fin):
                        diff = "rows after the final run()"
                    else:
                        mprev = base
                        for j, (ret, rows) in enumerate(calls):
                            mb, mrows = mcalls[j][0], _show(mcalls[j][1], inv)
                            if mb != ret or not same_rows(p, mrows, rows):
                                if sens and check_call(p, mprev if j else base, mrows, final, mb, "model", positional=False) is None:
                                    soft += 1
                                    break          # later calls start from different rows
                                diff = "call #%d run_timeout(%d): flag (model %s, implementation %s) or rows after the call" % (j + 1, ks[j], mb, ret)
                                break
                            stats["intermediate_states_equal_to_model"] += 1
                            mprev = mrows
            stats["order_dependent_intermediate_differences"] += soft
            if why:
                mism.append(dict(case=cs, impl=[s if "__ret" in s else g.decode_snapshot(p, s) for s in sn], model=None, spec=final0, kind="impl_violates_spec", known=None, what=why))
            elif diff or (v is not None and model is None):
                mism.append(dict(case=cs, impl=[s if "__ret" in s else g.decode_snapshot(p, s) for s in sn], model=str(model)[:3000], spec="implementation meets C14 on this history", kind="model_differs", known=None,
                                 what="correspondence LatEngine/LatTimeout.v run_timeout vs generated code: " + (diff or "model out of fuel")))
    return dict(mismatches=mism, evaluations=stats["histories"], distinct=len(distinct),
                rule="LATTICE HALF: lattice programs of the C03 generators compiled with #![generate_run_timeout] x one input x (a) sweep: for k = 1, 2, ... a fresh program value, run_timeout(k), run(), until run_timeout returns true "
                     "(every firing point of an uninterrupted run), (b) chains run_timeout(k1);run_timeout(k2)[;run_timeout(k3)];run(), (c) run() to completion [or run_timeout(huge)=true]; push rows with new keys into 1-2 relations; "
                     "run_timeout(k), k = 1..3; run().  After EVERY call: one row per key, the rows present before still in place and only raised, plain relations appended to without duplicates, every value below the final one "
                     "(python order of the lattice type), true => the least fixed point; after the final run(): the Kleene least fixed point (of the joined input).  Implementation vs LatTimeout.run_timeout (clock lfire_at k): flags and "
                     "rows after every call and after the final run() - exact, except that for order-sensitive programs (a lattice relation dynamic in a looping SCC) differing interrupted states are counted, not reported, when both meet the specification; distinct = (program, history point)",
                distribution=dict(lattice_programs=len(cases), **stats),
                trusted_base=["LatEngine/LatRScript.v lat_timeout_sweep / lat_timeout_script drive LatTimeout.run_timeout; the clock lfire_at k (k-th reading fires) mirrors the hook's virtual clock"],
                assumptions=["hash-map iteration order: the evaluated model fixes one order; interrupted states of recursive lattice strata legitimately depend on it (the theorems quantify over all orders)"],
                extra=dict(lattice_cases_skipped_model_too_slow=nskip, lattice_order_dependent_intermediate_differences=stats["order_dependent_intermediate_differences"],
                           lattice_intermediate_states_equal_to_model=stats["intermediate_states_equal_to_model"]))
