"""C03 vocabulary: shipped lattice types as Z codes, monotone operations on lattice values, upward-closed tests.

Every lattice value is represented by an integer code on the model / oracle side (coq/LatEngine/LatVocab.v uses
the same coding); the Rust side uses the real types and its `{:?}` output is decoded back to codes.

  type        Rust type                     code
  max         u32                           n
  dual        Dual<u32>                     n                 (order reversed)
  opt         Option<u32>                   None -> 0, Some(n) -> n + 1
  bool        bool                          false -> 0, true -> 1
  pair        (u32, u32)                    a * 64 + b        (lexicographic = numeric on codes, components < 64)
  prod        Product<(u32, Dual<u32>)>     a * 64 + b        (component-wise: a upwards, b downwards)
  set         Set<u32>                      bit mask          (elements < 16)
  bset        BoundedSet<2, u32>            TOP -> -1, else bit mask with at most 2 bits
  cp          ConstPropagation<u32>         Bottom -> -1, Top -> -2, Constant(n) -> n
  composite types (several components, each < 64; join_mut has to move several components in one call), and the
  wrappers that delegate to them - table COMPOSITE below, Coq side coq/LatEngine/LatVocabArr.v:
  arr2        Product<[u32; 2]>             a * 64 + b        (both upwards)
  arr3        Product<[u32; 3]>             a * 4096 + b * 64 + c
  darr2       Dual<Product<[u32; 2]>>       a * 64 + b        (order reversed: join_mut = the array's meet_mut)
  oarr2       Option<Product<[u32; 2]>>     None -> 0, Some(v) -> code(v) + 1
  arrd2       Product<[Dual<u32>; 2]>       a * 64 + b        (both downwards)
  prod3       Product<(u32, Dual<u32>, u32)>  a * 4096 + b * 64 + c   (up, down, up)
  rcarr2      Rc<Product<[u32; 2]>>         a * 64 + b
  boxarr2     Box<Product<[u32; 2]>>        a * 64 + b
  revarr2     Reverse<Product<[u32; 2]>>    a * 64 + b        (order reversed)

  lexicographic tuple lattices (std tuples with Dual / Reverse / Option components at every position, nested, and under
  Dual / Option / OrdLattice): table LEX of gen/c03_lex.py (type ids 20.., radix 1024), Coq side coq/LatEngine/LatVocabLex.v.

Symbols: name -> (coq id, arity, rust template with $0 $1 .. = argument VALUE expressions (already dereferenced
and parenthesised), python function on codes).  Ids < 200 are the plain vocabulary of gen/dl.py / Engine/Vocab.v.
"""
import re

from . import c03_lex
from . import dl

LEX = c03_lex.LEX

PAIRK = 64
SETN = 16

LTYPES = {
    # name: (coq id, rust type)
    "max": (0, "u32"),
    "dual": (1, "ascent::Dual<u32>"),
    "opt": (2, "Option<u32>"),
    "bool": (3, "bool"),
    "pair": (4, "(u32, u32)"),
    "prod": (5, "ascent::lattice::Product<(u32, ascent::Dual<u32>)>"),
    "set": (6, "ascent::lattice::set::Set<u32>"),
    "bset": (7, "ascent::lattice::bounded_set::BoundedSet<2, u32>"),
    "cp": (8, "ascent::lattice::constant_propagation::ConstPropagation<u32>"),
}

# ------------------------------------------------------------------ composite types
CAP = 9          # components never exceed CAP (every composite operation saturates there)
_P = "ascent::lattice::Product"
# name: (type id, rust type, directions of the components (+1 upwards / -1 downwards), optional?,
#        constructor of the NON-optional part from component expressions {0} {1} .., component accessors on a value {v})
# the ORDER of this table is the composite number k of LatVocabArr.v cty (function ids 500 + 10 k + op, predicate ids 600 + 10 k + op)
COMPOSITE = {
    "arr2": (9, _P + "<[u32; 2]>", (1, 1), False, _P + "([{0}, {1}])", ["{v}.0[0]", "{v}.0[1]"]),
    "arr3": (10, _P + "<[u32; 3]>", (1, 1, 1), False, _P + "([{0}, {1}, {2}])", ["{v}.0[0]", "{v}.0[1]", "{v}.0[2]"]),
    "darr2": (11, "ascent::Dual<" + _P + "<[u32; 2]>>", (-1, -1), False, "ascent::Dual(" + _P + "([{0}, {1}]))", ["{v}.0.0[0]", "{v}.0.0[1]"]),
    "oarr2": (12, "Option<" + _P + "<[u32; 2]>>", (1, 1), True, _P + "([{0}, {1}])", ["{v}.0[0]", "{v}.0[1]"]),
    "arrd2": (13, _P + "<[ascent::Dual<u32>; 2]>", (-1, -1), False, _P + "([ascent::Dual({0}), ascent::Dual({1})])", ["{v}.0[0].0", "{v}.0[1].0"]),
    "prod3": (14, _P + "<(u32, ascent::Dual<u32>, u32)>", (1, -1, 1), False, _P + "(({0}, ascent::Dual({1}), {2}))", ["{v}.0.0", "{v}.0.1.0", "{v}.0.2"]),
    "rcarr2": (15, "std::rc::Rc<" + _P + "<[u32; 2]>>", (1, 1), False, "std::rc::Rc::new(" + _P + "([{0}, {1}]))", ["{v}.0[0]", "{v}.0[1]"]),
    "boxarr2": (16, "Box<" + _P + "<[u32; 2]>>", (1, 1), False, "Box::new(" + _P + "([{0}, {1}]))", ["{v}.0[0]", "{v}.0[1]"]),
    "revarr2": (17, "std::cmp::Reverse<" + _P + "<[u32; 2]>>", (-1, -1), False, "std::cmp::Reverse(" + _P + "([{0}, {1}]))", ["{v}.0.0[0]", "{v}.0.0[1]"]),
    # part 1's tuple product (same Rust type and code as 'prod') with the component-wise vocabulary; a separate name, so
    # that the programs the other ties (C02 / C05 / C13 / C14) generate over 'prod' do not change
    "prod2": (5, LTYPES["prod"][1], (1, -1), False, _P + "(({0}, ascent::Dual({1})))", ["{v}.0.0", "{v}.0.1.0"]),
}
for _n, _t in COMPOSITE.items():
    LTYPES.setdefault(_n, (_t[0], _t[1]))


def comps(ty, c):
    """components of the composite value with code c (None for Option's None)"""
    _, _, dirs, opt, _, _ = COMPOSITE[ty]
    if opt:
        if c == 0:
            return None
        c -= 1
    out = []
    for _ in dirs:
        out.append(c % PAIRK)
        c //= PAIRK
    return out[::-1]


def mk(ty, cs):
    if cs is None:
        return 0
    c = 0
    for x in cs:
        assert 0 <= x < PAIRK, (ty, cs)
        c = c * PAIRK + x
    return c + 1 if COMPOSITE[ty][3] else c


def moved(ty, a, b):
    """number of components in which the codes a, b of a composite type differ (None -> Some counts every component)"""
    if ty == "prod":
        ty = "prod2"
    if ty not in COMPOSITE:
        return int(a != b)
    x, y = comps(ty, a), comps(ty, b)
    if x is None or y is None:
        return 0 if x == y else len(COMPOSITE[ty][2])
    return sum(1 for u, v in zip(x, y) if u != v)


LTY_BY_RUST = {v[1]: k for k, v in LTYPES.items()}


def popc(m):
    return bin(m).count("1")


def join(ty, a, b):
    if ty in LEX:
        return c03_lex.join(ty, a, b)
    if ty in ("max", "opt", "bool", "pair"):
        return max(a, b)
    if ty == "dual":
        return min(a, b)
    if ty == "prod":
        return max(a // PAIRK, b // PAIRK) * PAIRK + min(a % PAIRK, b % PAIRK)
    if ty == "set":
        return a | b
    if ty == "bset":
        if a == -1 or b == -1:
            return -1
        u = a | b
        return u if popc(u) <= 2 else -1
    if ty == "cp":
        if a == -1:
            return b
        if b == -1:
            return a
        if a == -2 or b == -2:
            return -2
        return a if a == b else -2
    if ty in COMPOSITE:       # the mathematical least upper bound: component-wise max / min; None is the bottom of Option
        x, y = comps(ty, a), comps(ty, b)
        if x is None or y is None:
            return b if x is None else a
        return mk(ty, [max(u, v) if d > 0 else min(u, v) for d, u, v in zip(COMPOSITE[ty][2], x, y)])
    raise KeyError(ty)


def leq(ty, a, b):
    return join(ty, a, b) == b


def rust_value(ty, c):
    """Rust expression of the lattice value with code c"""
    if ty in LEX:
        return c03_lex.rust_value(ty, c)
    if ty == "max":
        return "%du32" % c
    if ty == "dual":
        return "ascent::Dual(%du32)" % c
    if ty == "opt":
        return "None" if c == 0 else "Some(%du32)" % (c - 1)
    if ty == "bool":
        return "true" if c else "false"
    if ty == "pair":
        return "(%du32, %du32)" % (c // PAIRK, c % PAIRK)
    if ty == "prod":
        return "ascent::lattice::Product((%du32, ascent::Dual(%du32)))" % (c // PAIRK, c % PAIRK)
    if ty == "set":
        return "ascent::lattice::set::Set([%s].into_iter().collect())" % ", ".join("%du32" % i for i in range(SETN) if c >> i & 1)
    if ty == "bset":
        if c == -1:
            return "ascent::lattice::bounded_set::BoundedSet::<2, u32>::TOP"
        return "ascent::lattice::bounded_set::BoundedSet::<2, u32>::from_set(%s)" % rust_value("set", c)
    if ty == "cp":
        B = "ascent::lattice::constant_propagation::ConstPropagation"
        return B + "::Bottom" if c == -1 else B + "::Top" if c == -2 else B + "::Constant(%du32)" % c
    if ty in COMPOSITE:
        cs = comps(ty, c)
        if cs is None:
            return "None"
        v = COMPOSITE[ty][4].format(*["%du32" % x for x in cs])
        return "Some(%s)" % v if COMPOSITE[ty][3] else v
    raise KeyError(ty)


def _mask(s):
    s = s.strip()
    assert s.startswith("{") and s.endswith("}"), s
    inner = s[1:-1].strip()
    m = 0
    if inner:
        for x in inner.split(","):
            m |= 1 << int(x)
    return m


def decode(ty, s):
    """`{:?}` output of a lattice value -> code"""
    s = s.strip()
    if ty in LEX:
        return c03_lex.decode(ty, s)
    if ty in ("max", "dual"):
        return int(s)
    if ty == "opt":
        return 0 if s == "None" else int(re.fullmatch(r"Some\((\d+)\)", s).group(1)) + 1
    if ty == "bool":
        return {"true": 1, "false": 0}[s]
    if ty == "pair":
        m = re.fullmatch(r"\((\d+), (\d+)\)", s)
        return int(m.group(1)) * PAIRK + int(m.group(2))
    if ty == "prod":
        m = re.fullmatch(r"Product\(\((\d+), (\d+)\)\)", s)
        return int(m.group(1)) * PAIRK + int(m.group(2))
    if ty == "set":
        return _mask(s)
    if ty == "bset":
        if s == "BoundedSet(None)":
            return -1
        return _mask(re.fullmatch(r"BoundedSet\(Some\((.*)\)\)", s).group(1))
    if ty == "cp":
        if s == "Bottom":
            return -1
        if s == "Top":
            return -2
        return int(re.fullmatch(r"Constant\((\d+)\)", s).group(1))
    if ty in COMPOSITE:
        if COMPOSITE[ty][3] and s == "None":
            return 0
        shape = re.sub(r"\d+", "#", s)
        n = len(COMPOSITE[ty][2])
        inner = "Product(%s)" % ("[" + ", ".join(["#"] * n) + "]" if "[" in COMPOSITE[ty][1] else "(" + ", ".join(["#"] * n) + ")")
        want = "Some(%s)" % inner if COMPOSITE[ty][3] else "Reverse(%s)" % inner if "Reverse" in COMPOSITE[ty][1] else inner
        assert shape == want, (ty, s)
        return mk(ty, [int(x) for x in re.findall(r"\d+", s)])
    raise KeyError(ty)


def _cp_add(a, b):
    if a == -1 or b == -1:
        return -1
    if a == -2 or b == -2:
        return -2
    return min(a + b, 9)


def _opt_inc(l):
    return 0 if l == 0 else min(l - 1 + 1, 9) + 1


CP = "ascent::lattice::constant_propagation::ConstPropagation"
FUNS = {
    # plain (ids of dl.FUNS)
    **{n: (t[0], t[1], t[2], (lambda n: (lambda *a: dl.py_fun(n, list(a))))(n)) for n, t in dl.FUNS.items() if n != "asi32"},
    # Dual<u32>
    "dual_of": (200, 1, "ascent::Dual($0 as u32)", lambda x: x),
    "dual_add": (201, 2, "ascent::Dual($0.0 + ($1 as u32))", lambda l, w: l + w),
    "dual_addl": (202, 2, "ascent::Dual($0.0 + $1.0)", lambda a, b: a + b),
    "dual_min3": (203, 1, "ascent::Dual($0.0.min(3))", lambda l: min(l, 3)),
    "dual_addv": (204, 2, "ascent::Dual($0 + $1)", lambda a, b: a + b),          # on the u32 bound by ?Dual(l)
    "dual_addvw": (205, 2, "ascent::Dual($0 + ($1 as u32))", lambda a, w: a + w),
    # u32 (max)
    "max_of": (210, 1, "($0 as u32)", lambda x: x),
    "max_addcap": (211, 2, "($0 + ($1 as u32)).min(12)", lambda l, w: min(l + w, 12)),
    "max_max2": (212, 1, "$0.max(2)", lambda l: max(l, 2)),
    "max_id": (213, 1, "($0 + 0)", lambda l: l),
    "max_minw": (214, 2, "$0.min($1 as u32)", lambda l, w: min(l, w)),           # widest path
    "max_minl": (215, 2, "$0.min($1)", lambda a, b: min(a, b)),
    # Option<u32>
    "opt_some": (220, 1, "Some($0 as u32)", lambda x: x + 1),
    "opt_inc": (221, 1, "$0.map(|v| (v + 1).min(9))", _opt_inc),
    "opt_id": (222, 1, "$0.clone()", lambda l: l),
    # Set<u32>
    "set_single": (230, 1, "ascent::lattice::set::Set::singleton($0 as u32)", lambda x: 1 << x),
    "set_add": (231, 2, "{ let mut __s = $0.clone(); __s.0.insert($1 as u32); __s }", lambda l, x: l | (1 << x)),
    "set_union": (232, 2, "{ let mut __s = $0.clone(); for __v in $1.0.iter() { __s.0.insert(*__v); } __s }", lambda a, b: a | b),
    "set_id": (233, 1, "$0.clone()", lambda l: l),
    # BoundedSet<2, u32>
    "bset_single": (240, 1, "ascent::lattice::bounded_set::BoundedSet::<2, u32>::singleton($0 as u32)", lambda x: 1 << x),
    "bset_id": (241, 1, "$0.clone()", lambda l: l),
    # ConstPropagation<u32>
    "cp_const": (250, 1, CP + "::Constant($0 as u32)", lambda x: x),
    "cp_add": (251, 2, "match ($0, $1) { (%s::Bottom, _) | (_, %s::Bottom) => %s::Bottom, (%s::Constant(__a), %s::Constant(__b)) => %s::Constant((__a + __b).min(9)), _ => %s::Top }" % ((CP,) * 7), _cp_add),
    "cp_id": (252, 1, "$0.clone()", lambda l: l),
    # bool
    "b_or": (261, 2, "($0 || $1)", lambda a, b: max(a, b)),
    "b_and": (262, 2, "($0 && $1)", lambda a, b: min(a, b)),
    "b_id": (263, 1, "($0 | false)", lambda a: a),
    # (u32, u32)
    "pair_of": (270, 2, "(($0 as u32), ($1 as u32))", lambda x, y: x * PAIRK + y),
    "pair_id": (271, 1, "$0.clone()", lambda l: l),
    # Product<(u32, Dual<u32>)>
    "prod_of": (280, 2, "ascent::lattice::Product((($0 as u32), ascent::Dual($1 as u32)))", lambda x, y: x * PAIRK + y),
    "prod_id": (281, 1, "$0.clone()", lambda l: l),
}
PREDS = {
    **{n: (t[0], t[1], t[2], None) for n, t in dl.PREDS.items()},
    "dual_le4": (300, 1, "$0.0 <= 4", lambda l: l <= 4),
    "dual_le2": (301, 1, "$0.0 <= 2", lambda l: l <= 2),
    "dual_lex": (302, 2, "$0.0 <= ($1 as u32)", lambda l, x: l <= x),
    "dualv_le3": (303, 1, "$0 <= 3", lambda v: v <= 3),                     # on the u32 bound by ?Dual(l)
    "max_ge3": (310, 1, "$0 >= 3", lambda l: l >= 3),
    "max_gex": (311, 2, "$0 >= ($1 as u32)", lambda l, x: l >= x),
    "opt_some": (320, 1, "$0.is_some()", lambda l: l != 0),
    "opt_ge": (321, 1, "$0 >= Some(3)", lambda l: l >= 4),
    "set_has": (330, 2, "$0.contains(&($1 as u32))", lambda l, x: (l >> x) & 1 == 1),
    "set_big": (331, 1, "$0.len() >= 2", lambda l: popc(l) >= 2),
    "bset_has": (340, 2, "$0.contains(&($1 as u32))", lambda l, x: l == -1 or (l >> x) & 1 == 1),
    "bset_top": (341, 1, "$0.is_top()", lambda l: l == -1),
    "cp_top": (350, 1, "$0 == %s::Top" % CP, lambda l: l == -2),
    "cp_nonbot": (351, 1, "$0 != %s::Bottom" % CP, lambda l: l != -1),
    "b_is": (360, 1, "$0", lambda l: l == 1),
    "pair_ge": (370, 1, "$0 >= (2u32, 0u32)", lambda l: l >= 2 * PAIRK),
    "prod_a_ge1": (380, 1, "$0.0.0 >= 1", lambda l: l // PAIRK >= 1),
    "prod_b_le1": (381, 1, "$0.0.1.0 <= 1", lambda l: l % PAIRK <= 1),
}
PLAIN_PRED_PY = {"lt": lambda a, b: a < b, "ne": lambda a, b: a != b, "even": lambda a: a % 2 == 0, "le": lambda a, b: a <= b}
for _n, _f in PLAIN_PRED_PY.items():
    PREDS[_n] = PREDS[_n][:3] + (_f,)

# if-let patterns: name -> (id, arity, pattern with $x, scrutinee template, bound variable is a reference?, python);
# the scrutinee is a value expression ((*p) of a Copy type), so the pattern variable is bound by value
PARTIALS = {
    "predpos": (100, 1, "Some($x)", dl.PARTIALS["predpos"][2], False, lambda a: a - 1 if a > 0 else None),
    "half": (101, 1, "Some($x)", dl.PARTIALS["half"][2], False, lambda a: a // 2 if a % 2 == 0 else None),
    "undual": (400, 1, "ascent::Dual($x)", "$0", False, lambda p: p),           # the desugaring of ?Dual(l); l : u32 by match on a value copy
    "unsome": (401, 1, "Some($x)", "$0", False, lambda p: p - 1 if p > 0 else None),
}
GENS = {
    "upto": (0, 1, dl.GENS["upto"][2], lambda a: list(range(0, max(0, min(a, 4))))),
    "pair": (1, 2, dl.GENS["pair"][2], lambda a, b: [a, b]),
    "set_elems": (2, 1, "$0.0.iter().map(|__v| *__v as i32).collect::<Vec<i32>>()", lambda l: [i for i in range(SETN) if l >> i & 1]),
}

# which order each symbol respects, for the generator:  result type, argument types ('p' = plain, else a lattice type,
# 'dv' = the u32 inside a Dual bound by ?Dual(l): ordered downwards, 'mv' = a u32 ordered upwards)
FUN_SIG = {
    "dual_of": ("dual", ["p"]), "dual_add": ("dual", ["dual", "p"]), "dual_addl": ("dual", ["dual", "dual"]), "dual_min3": ("dual", ["dual"]),
    "dual_addv": ("dual", ["dv", "dv"]), "dual_addvw": ("dual", ["dv", "p"]),
    "max_of": ("max", ["p"]), "max_addcap": ("max", ["max", "p"]), "max_max2": ("max", ["max"]), "max_id": ("max", ["max"]),
    "max_minw": ("max", ["max", "p"]), "max_minl": ("max", ["max", "max"]),
    "opt_some": ("opt", ["p"]), "opt_inc": ("opt", ["opt"]), "opt_id": ("opt", ["opt"]),
    "set_single": ("set", ["p"]), "set_add": ("set", ["set", "p"]), "set_union": ("set", ["set", "set"]), "set_id": ("set", ["set"]),
    "bset_single": ("bset", ["p"]), "bset_id": ("bset", ["bset"]),
    "cp_const": ("cp", ["p"]), "cp_add": ("cp", ["cp", "cp"]), "cp_id": ("cp", ["cp"]),
    "b_or": ("bool", ["bool", "bool"]), "b_and": ("bool", ["bool", "bool"]), "b_id": ("bool", ["bool"]),
    "pair_of": ("pair", ["p", "p"]), "pair_id": ("pair", ["pair"]),
    "prod_of": ("prod", ["p", "p"]), "prod_id": ("prod", ["prod"]),
}
PRED_SIG = {
    "dual_le4": ["dual"], "dual_le2": ["dual"], "dual_lex": ["dual", "p"], "dualv_le3": ["dv"],
    "max_ge3": ["max"], "max_gex": ["max", "p"], "opt_some": ["opt"], "opt_ge": ["opt"],
    "set_has": ["set", "p"], "set_big": ["set"], "bset_has": ["bset", "p"], "bset_top": ["bset"],
    "cp_top": ["cp"], "cp_nonbot": ["cp"], "b_is": ["bool"], "pair_ge": ["pair"],
    "prod_a_ge1": ["prod"], "prod_b_le1": ["prod"],
}


# ------------------------------------------------------------------ component-wise vocabulary of the composite types
# functions (op):  0 T_of(p..) -> T   1 T_id(T) -> T   2 T_step(T, p): every component c -> min(c + w, CAP)
#                    (a component ordered downwards -> max(c - w, 0): every component moves UP in its own order)
#                  3 T_merge(T, T): component-wise min(c + d, CAP) (None if either is None)   4 T_rot(T): components rotated left
#                    (only where all components have the same direction)
# predicates (op): 0 T_all_ge(T, p): every component is at least as HIGH as x in its own direction
#                  1 T_last_hi(T): the last component is as high as 3    2 T_first_hi(T): the first one is
def _hi(d, c, x):
    return c >= x if d > 0 else c <= x


def _composite_tables():
    for k, (ty, (tid, rty, dirs, opt, ctor, acc)) in enumerate(COMPOSITE.items()):
        n = len(dirs)
        fb, pb = 500 + 10 * k, 600 + 10 * k
        wrap = (lambda e: "Some(%s)" % e) if opt else (lambda e: e)
        a_v = [t.format(v="__v") for t in acc]
        a_u = [t.format(v="__u") for t in acc]
        of = wrap(ctor.format(*["($%d as u32)" % i for i in range(n)]))
        step_in = ctor.format(*[("(%s + __w).min(%d)" % (a, CAP)) if d > 0 else ("%s.saturating_sub(__w)" % a) for d, a in zip(dirs, a_v)])
        merge_in = ctor.format(*["(%s + %s).min(%d)" % (a, b, CAP) for a, b in zip(a_v, a_u)])
        rot_in = ctor.format(*[a_v[(i + 1) % n] for i in range(n)])
        if opt:
            step = "({ let __w = $1 as u32; $0.clone().map(|__v| %s) })" % step_in
            merge = "(match ($0.clone(), $1.clone()) { (Some(__v), Some(__u)) => Some(%s), _ => None })" % merge_in
            rot = "$0.clone().map(|__v| %s)" % rot_in
            pred = lambda cond: "$0.clone().map_or(false, |__v| %s)" % cond
        else:
            step = "({ let __v = $0.clone(); let __w = $1 as u32; %s })" % step_in
            merge = "({ let __v = $0.clone(); let __u = $1.clone(); %s })" % merge_in
            rot = "({ let __v = $0.clone(); %s })" % rot_in
            pred = lambda cond: "({ let __v = $0.clone(); %s })" % cond
        cmp_ = lambda d, a, x: "%s %s %s" % (a, ">=" if d > 0 else "<=", x)

        def f_of(*xs, ty=ty):
            return mk(ty, list(xs))

        def f_step(l, w, ty=ty, dirs=dirs):
            cs = comps(ty, l)
            return mk(ty, None if cs is None else [min(c + w, CAP) if d > 0 else max(c - w, 0) for d, c in zip(dirs, cs)])

        def f_merge(a, b, ty=ty):
            x, y = comps(ty, a), comps(ty, b)
            return mk(ty, None if x is None or y is None else [min(u + v, CAP) for u, v in zip(x, y)])

        def f_rot(l, ty=ty):
            cs = comps(ty, l)
            return mk(ty, None if cs is None else cs[1:] + cs[:1])

        def p_all(l, x, ty=ty, dirs=dirs):
            cs = comps(ty, l)
            return cs is not None and all(_hi(d, c, x) for d, c in zip(dirs, cs))

        def p_last(l, ty=ty, dirs=dirs):
            cs = comps(ty, l)
            return cs is not None and _hi(dirs[-1], cs[-1], 3)

        def p_first(l, ty=ty, dirs=dirs):
            cs = comps(ty, l)
            return cs is not None and _hi(dirs[0], cs[0], 3)
        FUNS[ty + "_of"] = (fb, n, of, f_of)
        FUN_SIG[ty + "_of"] = (ty, ["p"] * n)
        FUNS[ty + "_id"] = (fb + 1, 1, "$0.clone()", lambda l: l)
        FUN_SIG[ty + "_id"] = (ty, [ty])
        FUNS[ty + "_step"] = (fb + 2, 2, step, f_step)
        FUN_SIG[ty + "_step"] = (ty, [ty, "p"])
        FUNS[ty + "_merge"] = (fb + 3, 2, merge, f_merge)
        FUN_SIG[ty + "_merge"] = (ty, [ty, ty])
        if len(set(dirs)) == 1:
            FUNS[ty + "_rot"] = (fb + 4, 1, rot, f_rot)
            FUN_SIG[ty + "_rot"] = (ty, [ty])
        PREDS[ty + "_all_ge"] = (pb, 2, pred(" && ".join(cmp_(d, a, "($1 as u32)") for d, a in zip(dirs, a_v))), p_all)
        PRED_SIG[ty + "_all_ge"] = [ty, "p"]
        PREDS[ty + "_last_hi"] = (pb + 1, 1, pred(cmp_(dirs[-1], a_v[-1], "3")), p_last)
        PRED_SIG[ty + "_last_hi"] = [ty]
        PREDS[ty + "_first_hi"] = (pb + 2, 1, pred(cmp_(dirs[0], a_v[0], "3")), p_first)
        PRED_SIG[ty + "_first_hi"] = [ty]


_composite_tables()


# ------------------------------------------------------------------ self checks (run by the tie on every check)

DOMAINS = {
    "p": list(range(0, 8)),
    "max": [0, 1, 2, 3, 5, 8, 12],
    "dual": [0, 1, 2, 3, 5, 8, 13],
    "dv": [0, 1, 2, 3, 5, 8],
    "opt": [0, 1, 2, 4, 9, 10],
    "bool": [0, 1],
    "pair": [0, 1, 3, PAIRK, PAIRK + 1, 2 * PAIRK, 2 * PAIRK + 3],
    "prod": [0, 1, 3, PAIRK, PAIRK + 1, 2 * PAIRK, 2 * PAIRK + 3],
    "set": [0, 1, 2, 3, 5, 6, 12, 255],
    "bset": [0, 1, 2, 3, 6, 12, -1],
    "cp": [-1, 0, 1, 2, 3, 9, -2],
}
for _ty, _t in COMPOSITE.items():
    _vals = [0, 2, CAP] if len(_t[2]) == 2 else [0, CAP]
    _dom = [[]]
    for _ in _t[2]:
        _dom = [d + [v] for d in _dom for v in _vals]
    DOMAINS[_ty] = ([0] if _t[3] else []) + [mk(_ty, d) for d in _dom]
SMALLP = [0, 2, 3, 9]       # plain arguments of the LEX vocabulary in the tables below (their signatures are wider)
import sys as _sys
c03_lex.install(_sys.modules[__name__])


def order(ty, a, b):
    """a below b in the order the vocabulary respects for a variable of this kind"""
    if ty == "p":
        return a == b
    if ty == "dv":
        return b <= a
    return leq(ty, a, b)


def _tuples(tys, pdom=None):
    if not tys:
        yield ()
        return
    for a in (pdom if pdom is not None and tys[0] == "p" else DOMAINS[tys[0]]):
        for rest in _tuples(tys[1:], pdom):
            yield (a,) + rest


def _pdom(sig, res=None):
    """the plain-argument domain used in the tables for a symbol of this signature"""
    return SMALLP if any(t in LEX for t in list(sig) + [res]) else None


def _mono_pairs(sig, pdom):
    """(xs, ys): argument tuples with xs <= ys position by position (plain arguments are ordered by equality)"""
    pos = [i for i, t in enumerate(sig) if t != "p"]
    for xs in _tuples(sig, pdom):
        for sub in _tuples([sig[i] for i in pos]):
            if all(order(sig[i], xs[i], v) for i, v in zip(pos, sub)):
                ys = list(xs)
                for i, v in zip(pos, sub):
                    ys[i] = v
                yield xs, tuple(ys)


def selfcheck():
    """lattice laws of the codes on the sample domains; every function is monotone, every predicate upward closed"""
    bad = []
    for ty in LTYPES:
        dom = DOMAINS[ty]
        for a in dom:
            for b in dom:
                j = join(ty, a, b)
                if not (leq(ty, a, j) and leq(ty, b, j) and join(ty, b, a) == j and join(ty, a, a) == a):
                    bad.append("join %s %s %s" % (ty, a, b))
                for c in dom:
                    if leq(ty, a, c) and leq(ty, b, c) and not leq(ty, j, c):
                        bad.append("lub %s %s %s %s" % (ty, a, b, c))
    for fn, (res, sig) in FUN_SIG.items():
        f = FUNS[fn][3]
        for xs, ys in _mono_pairs(sig, _pdom(sig, res)):
            if not order(res, f(*xs), f(*ys)):
                bad.append("function %s not monotone at %s <= %s" % (fn, xs, ys))
    for pn, sig in PRED_SIG.items():
        f = PREDS[pn][3]
        for xs, ys in _mono_pairs(sig, _pdom(sig)):
            if f(*xs) and not f(*ys):
                bad.append("predicate %s not upward closed at %s <= %s" % (pn, xs, ys))
    for x in DOMAINS["dual"]:
        for y in DOMAINS["dual"]:
            if order("dual", x, y) and not order("dv", PARTIALS["undual"][5](x), PARTIALS["undual"][5](y)):
                bad.append("undual")
    return bad


def coq_table():
    """(expressions, expected python values): the Coq vocabulary (LatVocab.v + LatVocabArr.v + LatVocabLex.v) must compute the same codes"""
    exprs, want = [], []
    for ty, (tid, _) in LTYPES.items():
        for a in DOMAINS[ty]:
            for b in DOMAINS[ty]:
                exprs.append("lat3_jm %d%%nat (%d) (%d)" % (tid, a, b))
                j = join(ty, a, b)
                want.append((j, j != a))
    for fn, (res, sig) in FUN_SIG.items():
        for xs in _tuples(sig, _pdom(sig, res)):
            exprs.append("lv3_fun %d%%nat [%s]" % (FUNS[fn][0], "; ".join("(%d)" % x for x in xs)))
            want.append(FUNS[fn][3](*xs))
    for pn, sig in PRED_SIG.items():
        for xs in _tuples(sig, _pdom(sig)):
            exprs.append("lv3_pred %d%%nat [%s]" % (PREDS[pn][0], "; ".join("(%d)" % x for x in xs)))
            want.append(bool(PREDS[pn][3](*xs)))
    for x in DOMAINS["set"]:
        exprs.append("lv_gen 2%%nat [(%d)]" % x)
        want.append(GENS["set_elems"][3](x))
    return exprs, want
