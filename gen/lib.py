"""Shared machinery for the /verif checks (python stdlib only).

build of the Coq development, assumption / forbidden-vernacular audit, evaluation
of generated cases inside Coq (vm_compute), build + run of the Rust harnesses
against /repo's working tree, evidence + replay writers, known findings."""
import concurrent.futures as cf
import fcntl
import hashlib
import json
import os
import random
import re
import shutil
import subprocess
import sys
import time

VERIF = os.path.dirname(os.path.dirname(os.path.abspath(__file__)))
COQ = os.path.join(VERIF, "coq")
BUILD = os.path.join(VERIF, "build")
CASES = os.path.join(BUILD, "cases")
REPO = os.environ.get("VERIF_REPO", "/repo")   # VERIF_REPO: scratch worktree for mutation experiments only
_REPO_KEY = "" if REPO == "/repo" else "_w" + format(abs(hash(REPO)) % (16 ** 6), "06x") if False else ("" if REPO == "/repo" else "_w" + __import__("hashlib").sha1(REPO.encode()).hexdigest()[:6])
ENV = dict(os.environ, CARGO_NET_OFFLINE="true")
NCPU = min(16, os.cpu_count() or 4)

AXIOM_ALLOW = {
    # standard-library axioms a proof may depend on (each is named in DESIGN.md section 7)
    "functional_extensionality_dep",
    "FunctionalExtensionality.functional_extensionality_dep",
    "Eqdep.Eq_rect_eq.eq_rect_eq",
    "Coq.Logic.Eqdep.Eq_rect_eq.eq_rect_eq",
    "eq_rect_eq",
}

# coqchk -o lists the axioms of every LOADED library, used by a theorem or not.  The standard library's primitive 63-bit integers
# (Primitive declarations and their specification axioms in Coq.Numbers.Cyclic.Int63) are loaded by the fingerprint functions
# that compress model outputs for the ties (UF/UfBase.v, Byods/TrRelFp.v ...); no theorem depends on them (Print Assumptions of
# every property theorem is checked separately and must be closed / within AXIOM_ALLOW).  They are named in the trusted base.
AXIOM_ALLOW_LOADED_PREFIXES = ("Coq.Numbers.Cyclic.Int63.",)


def axiom_allowed(a, loaded_only=False):
    if a in AXIOM_ALLOW or a.split(".")[-1] in AXIOM_ALLOW:
        return True
    return loaded_only and a.startswith(AXIOM_ALLOW_LOADED_PREFIXES)


FORBIDDEN = re.compile(
    r"\b(Admitted|admit|Axiom|Axioms|Parameter|Parameters|Conjecture|Conjectures|Abort All|give_up)\b"
    r"|Unset\s+Guard|Unset\s+Positivity|Unset\s+Universe|bypass_check|type-in-type|impredicative-set"
    r"|Admit\s+Obligations|native_compute")


class Infra(Exception):
    """infrastructure failure (not a property verdict)"""


def sh(cmd, cwd=None, timeout=1800, env=None, inp=None):
    p = subprocess.run(cmd, cwd=cwd, env=env or ENV, input=inp, stdout=subprocess.PIPE,
                       stderr=subprocess.STDOUT, timeout=timeout, text=True,
                       shell=isinstance(cmd, str))
    return p.returncode, p.stdout


class Lock:
    def __init__(self, name):
        os.makedirs(BUILD, exist_ok=True)
        self.path = os.path.join(BUILD, name + ".lock")

    def __enter__(self):
        self.f = open(self.path, "w")
        fcntl.flock(self.f, fcntl.LOCK_EX)
        return self

    def __exit__(self, *a):
        fcntl.flock(self.f, fcntl.LOCK_UN)
        self.f.close()


# ---------------------------------------------------------------- Coq build + audit

def strip_comments(src):
    out, depth, i = [], 0, 0
    while i < len(src):
        if src.startswith("(*", i):
            depth += 1
            i += 2
        elif src.startswith("*)", i) and depth:
            depth -= 1
            i += 2
        else:
            if not depth:
                out.append(src[i])
            i += 1
    return "".join(out)


def strip_strings(src):
    return re.sub(r'"[^"]*"', '""', src)


def coq_sources():
    res = []
    for root, _, files in os.walk(COQ):
        if "/Cases" in root:
            continue
        for f in files:
            if f.endswith(".v"):
                res.append(os.path.join(root, f))
    return sorted(res)


def coq_makefile():
    """(re)generate _CoqProject + Makefile from the .v files present"""
    srcs = [os.path.relpath(p, COQ) for p in coq_sources()]
    proj = "-Q . AV\n" + "\n".join(srcs) + "\n"
    pj = os.path.join(COQ, "_CoqProject")
    old = open(pj).read() if os.path.exists(pj) else ""
    if old != proj or not os.path.exists(os.path.join(COQ, "Makefile")):
        open(pj, "w").write(proj)
        rc, out = sh(["coq_makefile", "-f", "_CoqProject", "-o", "Makefile"], cwd=COQ)
        if rc:
            raise Infra("coq_makefile failed:\n" + out)


def coq_closure(vfile):
    """the .v files of the development that vfile (relative to COQ) depends on, incl. itself"""
    seen, todo = set(), [vfile]
    while todo:
        f = todo.pop()
        if f in seen:
            continue
        seen.add(f)
        src = strip_comments(open(os.path.join(COQ, f)).read())
        for m in re.finditer(r"^\s*From\s+AV\s+Require\s+(?:Import\s+|Export\s+)?([^\n]*?)\.\s*$", src, re.M):
            for mod in m.group(1).split():
                p = mod.replace(".", "/") + ".v"
                if os.path.exists(os.path.join(COQ, p)):
                    todo.append(p)
                else:
                    raise Infra("cannot resolve AV module %s required by %s" % (mod, f))
        for m in re.finditer(r"Require\s+(?:Import|Export)?\s+((?:AV\.[A-Za-z_.0-9]+\s*)+)\.", src):
            for mod in m.group(1).split():
                p = mod[3:].replace(".", "/") + ".v"
                if os.path.exists(os.path.join(COQ, p)):
                    todo.append(p)
    return sorted(seen)


STMT = re.compile(r"^\s*(?:Local\s+|Global\s+|#\[[^\]]*\]\s*)*(Theorem|Lemma|Corollary|Example|Proposition|Fact|Remark)\s+([A-Za-z_][A-Za-z_0-9']*)", re.M)
DONE = re.compile(r"\b(Qed|Defined)\s*\.")


def coq_audit(files):
    """count obligations / discharged and look for forbidden vernacular in the given files"""
    obligations, discharged, bad = 0, 0, []
    for f in files:
        src = strip_strings(strip_comments(open(os.path.join(COQ, f)).read()))
        obligations += len(STMT.findall(src))
        discharged += len(DONE.findall(src))
        for m in FORBIDDEN.finditer(src):
            bad.append("%s: %s" % (f, m.group(0)))
        # Variable / Hypothesis outside a section
        depth = 0
        for line in src.splitlines():
            if re.match(r"\s*Section\s", line):
                depth += 1
            elif re.match(r"\s*End\s", line) and depth:
                depth -= 1
            elif depth == 0 and re.match(r"\s*(Variable|Variables|Hypothesis|Hypotheses|Context)\b", line):
                bad.append("%s: top-level %s" % (f, line.strip()[:40]))
    return obligations, discharged, bad


def coq_build(prop_file, timeout=1500):
    """make the property file's .vo (and everything it needs); the property file is always
    recompiled so that Check / Print Assumptions output is fresh.  Returns dict."""
    with Lock("coq"):
        coq_makefile()
        vo = prop_file[:-2] + ".vo"
        for ext in (".vo", ".vok", ".vos", ".glob"):
            try:
                os.remove(os.path.join(COQ, prop_file[:-2] + ext))
            except FileNotFoundError:
                pass
        t0 = time.time()
        rc, out = sh(["timeout", str(timeout), "make", "-j%d" % NCPU, vo], cwd=COQ, timeout=timeout + 60)
        wall = time.time() - t0
    files = coq_closure(prop_file)
    ob, di, bad = coq_audit(files)
    # all dev files are audited for forbidden vernacular, not only the closure
    _, _, bad_all = coq_audit([os.path.relpath(p, COQ) for p in coq_sources()])
    res = dict(ok=(rc == 0), log=out, files=files, obligations=ob, discharged=di if rc == 0 else 0,
               forbidden=sorted(set(bad + bad_all)), wall=wall, axioms=[], theorems=[], failed_at=None)
    if rc != 0:
        m = re.search(r'File "\./([^"]+)", line (\d+)', out)
        res["failed_at"] = "%s:%s" % (m.group(1), m.group(2)) if m else "unknown"
        return res
    # Print Assumptions blocks
    axioms = set()
    closed = 0
    for blk in re.finditer(r"Axioms:\n((?:.+\n)+?)(?=\S|\Z)", out):
        for line in blk.group(1).splitlines():
            m = re.match(r"^([A-Za-z_][\w.']*)\s*:", line)
            if m:
                axioms.add(m.group(1))
    closed = len(re.findall(r"Closed under the global context", out))
    res["axioms"] = sorted(axioms)
    res["closed_theorems"] = closed
    src = strip_comments(open(os.path.join(COQ, prop_file)).read())
    res["theorems"] = [m.group(2) for m in STMT.finditer(src)]
    res["n_print_assumptions"] = len(re.findall(r"Print\s+Assumptions", src))
    return res


def coqchk(prop_file, timeout=1800):
    """independent re-check of the compiled property file and everything it depends on (thorough tier);
    returns (ok, list of axioms it reports, summary text)"""
    mod = "AV." + prop_file[:-2].replace("/", ".")
    with Lock("coq"):
        rc, out = sh(["timeout", str(timeout), "coqchk", "-o", "-silent", "-Q", ".", "AV", mod], cwd=COQ, timeout=timeout + 60)
    m = re.search(r"\* Axioms:(.*?)\n\s*\n\* Constants/Inductives relying on type-in-type:(.*?)\n\s*\n\* Constants/Inductives relying on unsafe \(co\)fixpoints:(.*?)\n\s*\n\* Inductives whose positivity is assumed:(.*?)\n", out, re.S)
    if rc != 0 or not m:
        return False, [], out[-800:]
    axioms = [l.strip() for l in m.group(1).strip().splitlines() if l.strip() and "<none>" not in l]
    unsafe = [g.strip() for g in (m.group(2), m.group(3), m.group(4)) if "<none>" not in g]
    return (not unsafe), axioms, "coqchk: axioms=%s unsafe=%s" % (axioms or "none", unsafe or "none")


def coq_proof_verdict(b):
    """list of reasons why the proof side does not check (empty = fine)"""
    why = []
    if not b["ok"]:
        why.append("coq build failed at %s" % b["failed_at"])
        return why
    if b["forbidden"]:
        why.append("forbidden vernacular: " + "; ".join(b["forbidden"][:5]))
    extra = [a for a in b["axioms"] if a not in AXIOM_ALLOW and a.split(".")[-1] not in AXIOM_ALLOW]
    if extra:
        why.append("axioms outside the allow-list: " + ", ".join(extra))
    if b["obligations"] != b["discharged"]:
        why.append("obligations %d != discharged %d" % (b["obligations"], b["discharged"]))
    if b["n_print_assumptions"] < len(b["theorems"]):
        why.append("property theorem without Print Assumptions")
    return why


# ---------------------------------------------------------------- evaluating cases in Coq

class CoqParse:
    """parser for terms as printed by Coq: lists, tuples, integers, constructors"""

    def __init__(self, s):
        self.s, self.i = s, 0

    def ws(self):
        while self.i < len(self.s) and self.s[self.i].isspace():
            self.i += 1

    def peek(self):
        self.ws()
        return self.s[self.i] if self.i < len(self.s) else ""

    def scope(self):
        if self.s.startswith("%", self.i):
            self.i += 1
            while self.i < len(self.s) and (self.s[self.i].isalnum() or self.s[self.i] == "_"):
                self.i += 1

    def term(self):
        """application: atom atom*"""
        head = self.atom()
        args = []
        while True:
            c = self.peek()
            if c and (c.isalnum() or c in '([_-"'):
                if c == "-" and not (self.i + 1 < len(self.s) and self.s[self.i + 1].isdigit()):
                    break
                args.append(self.atom())
            else:
                break
        if args:
            return [head] + args if isinstance(head, str) else [head] + args
        return head

    def atom(self):
        c = self.peek()
        if c == "[":
            self.i += 1
            items = []
            if self.peek() == "]":
                self.i += 1
                self.scope()
                return items
            while True:
                items.append(self.term())
                c = self.peek()
                if c == ";":
                    self.i += 1
                elif c == "]":
                    self.i += 1
                    self.scope()
                    return items
                else:
                    raise ValueError("list at %d: %r" % (self.i, self.s[self.i:self.i + 30]))
        if c == "(":
            self.i += 1
            items = [self.term()]
            while self.peek() == ",":
                self.i += 1
                items.append(self.term())
            if self.peek() != ")":
                raise ValueError("paren at %d: %r" % (self.i, self.s[self.i:self.i + 30]))
            self.i += 1
            self.scope()
            return items[0] if len(items) == 1 else tuple(items)
        if c == '"':
            j = self.s.index('"', self.i + 1)
            v = self.s[self.i + 1:j]
            self.i = j + 1
            self.scope()
            return ("str", v)
        m = re.compile(r"-?\d+").match(self.s, self.i)
        if m:
            self.i = m.end()
            self.scope()
            return int(m.group(0))
        m = re.compile(r"[A-Za-z_][\w.']*").match(self.s, self.i)
        if m:
            self.i = m.end()
            v = m.group(0)
            return {"true": True, "false": False}.get(v, v)
        raise ValueError("atom at %d: %r" % (self.i, self.s[self.i:self.i + 30]))


def coq_parse(s):
    p = CoqParse(s)
    v = p.term()
    p.ws()
    if p.i != len(p.s):
        raise ValueError("trailing: %r" % p.s[p.i:p.i + 40])
    return v


def _run_coq_shard(args):
    tag, k, prelude, exprs, timeout = args
    os.makedirs(CASES, exist_ok=True)
    # keyed by the tree under test too: a check of /repo and one of a scratch worktree (VERIF_REPO) may run at the same time
    name = "cases_%s%s_%d" % (tag, _REPO_KEY, k)
    path = os.path.join(CASES, name + ".v")
    with open(path, "w") as f:
        f.write(prelude + "\nSet Printing Width 100000000.\nSet Printing Depth 100000000.\n")
        for e in exprs:
            f.write("Eval vm_compute in (%s).\n" % e)
    rc, out = sh(["timeout", str(timeout), "coqc", "-noglob", "-Q", COQ, "AV", path], cwd=CASES, timeout=timeout + 30)
    for ext in (".vo", ".vok", ".vos", ".glob"):
        try:
            os.remove(os.path.join(CASES, name + ext))
        except FileNotFoundError:
            pass
    if rc == 124:
        return ("timeout", "")
    if rc != 0:
        return ("error", out[-3000:])
    vals = []
    cur = None
    for line in out.splitlines():
        if line.startswith("     = "):
            cur = [line[7:]]
        elif line.startswith("     : "):
            if cur is not None:
                vals.append(" ".join(cur))
            cur = None
        elif cur is not None:
            cur.append(line.strip())
    if len(vals) != len(exprs):
        return ("error", "expected %d values, got %d\n%s" % (len(exprs), len(vals), out[-2000:]))
    try:
        os.remove(path)
    except FileNotFoundError:
        pass
    return ("ok", [coq_parse(v) for v in vals])


def coq_eval(tag, prelude, exprs, per_shard=400, timeout=900):
    """evaluate Gallina expressions with vm_compute, sharded over the cores; returns parsed values"""
    if not exprs:
        return []
    nsh = max(1, min(NCPU, (len(exprs) + per_shard - 1) // per_shard))
    per = (len(exprs) + nsh - 1) // nsh
    shards = [exprs[i:i + per] for i in range(0, len(exprs), per)]
    jobs = [(tag, k, prelude, sh_, timeout) for k, sh_ in enumerate(shards)]
    with cf.ThreadPoolExecutor(NCPU) as ex:
        results = list(ex.map(_run_coq_shard, jobs))
    vals = []
    for st, r in results:
        if st != "ok":
            raise Infra("coq case evaluation failed:\n" + r)
        vals.extend(r)
    return vals


def coq_eval_groups(tag, prelude, groups, timeout=40):
    """groups: list of lists of expressions, each group evaluated by its own coqc under a timeout;
    returns per group the list of parsed values, or None when the group exceeded the time budget"""
    jobs = [(tag, k, prelude, g, timeout) for k, g in enumerate(groups)]

    def one(j):
        if not j[3]:
            return []
        try:
            st, r = _run_coq_shard(j)
        except subprocess.TimeoutExpired:
            return None
        if st == "timeout":
            return None
        if st != "ok":
            raise Infra("coq case evaluation failed:\n" + r)
        return r
    with cf.ThreadPoolExecutor(NCPU) as ex:
        return list(ex.map(one, jobs))


def zlist(xs):
    return "[" + "; ".join(str(int(x)) for x in xs) + "]%Z"


def zz(x):
    return "(%d)%%Z" % int(x)


# ---------------------------------------------------------------- Rust harnesses

def cargo_build(crate_dir, features=(), release=False, timeout=3000, extra_env=None):
    lockfile = os.path.join(crate_dir, "Cargo.lock")
    if not os.path.exists(lockfile):
        shutil.copy(os.path.join(REPO, "Cargo.lock"), lockfile)
    cmd = ["cargo", "build", "--offline"]
    if release:
        cmd.append("--release")
    if features:
        cmd += ["--features", ",".join(features)]
    env = dict(ENV)
    env.update(extra_env or {})
    with Lock("cargo_" + os.path.basename(crate_dir)):
        rc, out = sh(cmd, cwd=crate_dir, timeout=timeout, env=env)
    return rc, out


def harness_build(name="ds_driver", features=()):
    """build /verif/harness/<name> against /repo's working tree; returns (binary or None, log).
    With VERIF_REPO set (mutation experiments on a scratch worktree) a copy of the crate with its path
    dependencies redirected is built into a separate target directory."""
    d = os.path.join(VERIF, "harness", name)
    tdir = os.path.join(BUILD, "target")
    extra = dict(CARGO_TARGET_DIR=tdir)      # not the path written in the crate's .cargo/config.toml: BUILD follows VERIF
    if REPO != "/repo":
        h = hashlib.sha1(REPO.encode()).hexdigest()[:8]
        alt = os.path.join(BUILD, "harness_alt_" + h, name)
        if os.path.exists(alt):
            shutil.rmtree(alt)
        shutil.copytree(d, alt, ignore=shutil.ignore_patterns("target", "Cargo.lock"))
        ct = os.path.join(alt, "Cargo.toml")
        txt = open(ct).read().replace('"/repo/', '"%s/' % REPO)
        open(ct, "w").write(txt)
        d = alt
        tdir = os.path.join(BUILD, "target_alt_" + h)
        extra = dict(CARGO_TARGET_DIR=tdir)
    rc, out = cargo_build(d, features=features, extra_env=extra)
    if rc:
        return None, out
    return os.path.join(tdir, "debug", name), out


def ds_driver_build():
    return harness_build("ds_driver")


def ds_run(binary, suite, lines, timeout=900, chunk=None):
    """run the driver on the case lines (sharded); returns the result lines"""
    if not lines:
        return []
    nsh = max(1, min(NCPU, len(lines) // 200 + 1))
    per = (len(lines) + nsh - 1) // nsh
    chunks = [lines[i:i + per] for i in range(0, len(lines), per)]

    def run(ch):
        p = subprocess.run([binary, suite], input="\n".join(ch) + "\n", stdout=subprocess.PIPE,
                           stderr=subprocess.PIPE, text=True, timeout=timeout)
        outl = p.stdout.splitlines()
        if len(outl) != len(ch):
            # the driver died (abort / stack overflow): find which case
            raise Infra("ds_driver %s: %d cases, %d results (rc=%s) stderr=%s" % (suite, len(ch), len(outl), p.returncode, p.stderr[-500:]))
        return outl
    with cf.ThreadPoolExecutor(NCPU) as ex:
        res = list(ex.map(run, chunks))
    return [l for r in res for l in r]


# ---------------------------------------------------------------- known findings / evidence / verdict

def known_findings(prop):
    p = os.path.join(VERIF, "known_findings.json")
    if not os.path.exists(p):
        return []
    return [e for e in json.load(open(p)) if e["property"] == prop]


def write_replay(prop, obj):
    d = os.path.join(VERIF, "replays", prop)
    os.makedirs(d, exist_ok=True)
    blob = json.dumps(obj, indent=1, sort_keys=True, default=str)
    h = hashlib.sha1(blob.encode()).hexdigest()[:12]
    path = os.path.join(d, h + ".json")
    open(path, "w").write(blob)
    return os.path.relpath(path, VERIF)


def write_evidence(prop, tier, seed, coverage, assumptions, wall, violations):
    if REPO != "/repo":
        # a mutation experiment on a scratch worktree: never overwrite the committed evidence
        d = os.path.join(BUILD, "evidence_alt")
        os.makedirs(d, exist_ok=True)
        ev = dict(property_id=prop, tier=tier, seed=seed, level="proof", coverage=coverage, assumptions=assumptions, wall_s=round(wall, 2), violations=violations, repo=REPO)
        open(os.path.join(d, prop + ".json"), "w").write(json.dumps(ev, indent=1, default=str) + "\n")
        return
    os.makedirs(os.path.join(VERIF, "evidence"), exist_ok=True)
    ev = dict(property_id=prop, tier=tier, seed=seed, level="proof", coverage=coverage,
              assumptions=assumptions, wall_s=round(wall, 2), violations=violations)
    open(os.path.join(VERIF, "evidence", prop + ".json"), "w").write(json.dumps(ev, indent=1, default=str) + "\n")


def rng_for(seed, prop, salt=""):
    h = hashlib.sha256(("%s/%s/%s" % (seed, prop, salt)).encode()).digest()
    return random.Random(int.from_bytes(h[:8], "big"))


def repo_state():
    rc, out = sh("git -C %s rev-parse HEAD; git -C %s status --porcelain -- ascent ascent_base ascent_macro byods | head -20" % (REPO, REPO), timeout=60)
    return out.strip()


KERNEL_TB = [
    "Coq 8.16.1 kernel + its VM (vm_compute); no native_compute; no extraction",
    "coqc full .vo build via coq_makefile/make; Print Assumptions of every property theorem compared with the allow-list",
    "the standard library's primitive 63-bit integers (Coq.Numbers.Cyclic.Int63: Primitive declarations + their specification axioms) are LOADED by fingerprint functions that compress model outputs for some ties (UF/UfBase.v, Byods/*Fp.v, evaluated by the VM); no theorem depends on them, coqchk -o lists them as axioms of loaded libraries",
]
