"""C13, lattice half — histories run; [push rows / raise a row in place]; run ... of lattice programs, three ways:

  implementation  the real macro + rustc (gen.prog scripts set / push / raw / run / snap), serial `ascent!` and `ascent_par!`
  model           coq/LatEngine/LatRScript.v lat_script (LatEval.run_plan; LatRerun.appr / raise_at between the runs) on the
                  plan dumped by the real front end, vm_compute
  specification   python Kleene oracle (gen/c03_gen.py Oracle) on the JOIN of everything the caller ever put in

The theorems tied: Props/C13.v c13_lattice_idempotent (run; run leaves the identical rows), c13_lattice_history / _push /
_raise (a further run = one fresh run on the join of all inputs: same key -> value map, one row per key, plain relations
as sets).  Their guard - the modified rows hold at most one row per key - is respected by every GENERATED history (pushed
rows get keys that no row holds at push time).  The corpus (corpus/C13.jsonl, run first) holds histories that violate the
guard: they reproduce the finding `lattice_pushed_duplicate_key_not_merged` (known_findings.json); the class is decided
from the history alone (is_dupkey_history) and only a mismatch ABOUT THE RELATION PUSHED INTO is attributed to it."""
import json
import os

from . import c03_gen as g
from . import c03_vocab as voc
from . import dl, lib, prog

FUEL = 300
KNOWN = "lattice_pushed_duplicate_key_not_merged"
PRELUDE = ("From Coq Require Import List ZArith Bool.\n"
           "From AV Require Import Engine.Core Engine.Eval Engine.Validate.\n"
           "From AV Require Import LatEngine.LatSyntax LatEngine.LatEval LatEngine.LatPlan LatEngine.LatVocab.\n"
           "From AV Require Import LatEngine.LatRerun LatEngine.LatTimeout LatEngine.LatRScript.\n"
           "Import ListNotations.\nOpen Scope Z_scope.\n")
KEY_DOM = list(range(0, 9))


# ------------------------------------------------------------------ histories (abstract steps over value codes)
# ("set", {rel: rows}) | ("run",) | ("push", {rel: rows}) | ("raise", rel, key tuple, value code)

def acc_add(acc, rows_by_rel):
    for r, rows in rows_by_rel.items():
        acc.setdefault(r, []).extend(tuple(t) for t in rows)


def joined_inputs(hist):
    """the accumulated (joined) input in force at every run of the history: list of {rel: rows} (the oracle joins rows of one key)"""
    acc, out = {}, []
    for st in hist:
        if st[0] in ("set", "push"):
            acc_add(acc, st[1])
        elif st[0] == "raise":
            acc_add(acc, {st[1]: [tuple(st[2]) + (st[3],)]})
        elif st[0] == "run":
            out.append({r: list(rows) for r, rows in acc.items()})
    return out


def dupkey_relations(p, hist, orc=None):
    """the lattice relations into which the history pushes (or sets) a row whose key is already held by a row of that relation
    at that time.  Rows present = the rows of the least fixed point at the last run (one per key of the oracle state) plus
    the rows set / pushed since."""
    lats = g.lat_of(p)
    orc = orc or g.Oracle(p)
    held = {r: [] for r in lats}          # keys of the rows present (a list: multiplicity matters inside one push)
    acc, dup = {}, set()
    for st in hist:
        if st[0] in ("set", "push"):
            if st[0] == "set":
                for r in st[1]:
                    if r in held:
                        held[r] = []
            for r, rows in st[1].items():
                if r in lats:
                    for t in rows:
                        k = tuple(t[:-1])
                        if k in held[r]:
                            dup.add(r)
                        held[r].append(k)
            acc_add(acc, st[1])
        elif st[0] == "raise":
            acc_add(acc, {st[1]: [tuple(st[2]) + (st[3],)]})
        elif st[0] == "run":
            s = orc.run(acc)
            if s is None:
                return None
            for r in lats:
                # rows are never removed: every key held before stays (with its multiplicity); the run adds the new keys once
                ks = held[r]
                held[r] = ks + [k for k in s[r] if k not in ks]
    return dup


def new_rows(rng, p, state, n_lat, n_plain, into=None):
    """rows to push: lattice rows with keys that no row holds in `state`, plain tuples that are not in `state`"""
    lats = g.lat_of(p)
    out = {}
    for name, arity, kind in p["rels"]:
        if into is not None and name not in into:
            continue
        rows = []
        if name in lats:
            for _ in range(n_lat * 4):
                if len(rows) >= n_lat:
                    break
                k = tuple(rng.choice(KEY_DOM) for _ in range(arity - 1))
                if k in state[name] or any(k == t[:-1] for t in rows):
                    continue
                rows.append(k + (g.const_code(rng, lats[name]),))
        else:
            for _ in range(n_plain * 4):
                if len(rows) >= n_plain:
                    break
                t = tuple(rng.choice(g.PLAIN_DOM + [6, 7]) if not (name == "edge" and arity == 3 and i == 2) else rng.choice([0, 1, 2, 3, 5]) for i in range(arity))
                if t in state[name] or t in rows:
                    continue
                rows.append(t)
        if rows:
            out[name] = rows
    return out


def gen_histories(rng, p, orc, i0):
    """histories over one program and base input; None when the oracle does not converge"""
    lats = g.lat_of(p)
    s0 = orc.run(i0)
    if s0 is None:
        return None
    hists = [("rerun", [("set", i0), ("run",), ("run",)])]
    # run; push (new keys, input and derived relations alike); run; push; run
    f1 = new_rows(rng, p, s0, rng.choice([1, 2]), rng.choice([0, 1, 2]))
    a1 = {}
    acc_add(a1, i0)
    acc_add(a1, f1)
    s1 = orc.run(a1)
    if s1 is not None and f1:
        f2 = new_rows(rng, p, s1, rng.choice([1, 2]), rng.choice([0, 1]))
        h = [("set", i0), ("run",), ("push", f1), ("run",)]
        if f2:
            h += [("push", f2), ("run",)]
        hists.append(("push", h))
    # run on an empty program value; push everything; run; run
    hists.append(("late_input", [("set", {}), ("run",), ("push", {r: rows for r, rows in i0.items() if rows}), ("run",), ("run",)]))
    # run; raise the row of a key in place (input row or derived row) by join_mut; run
    cand = [(r, k) for r in lats for k in s0[r]]
    if cand:
        r, k = rng.choice(sorted(cand))
        v = g.const_code(rng, lats[r])
        h = [("set", i0), ("run",), ("raise", r, k, v)]
        a2 = {}
        acc_add(a2, i0)
        acc_add(a2, {r: [k + (v,)]})
        s2 = orc.run(a2)
        if s2 is not None and rng.random() < 0.5:
            f3 = new_rows(rng, p, s2, 1, 1)
            if f3:
                h.append(("push", f3))
        h.append(("run",))
        if len(cand) > 1:
            r2, k2 = rng.choice(sorted(cand))
            h += [("raise", r2, k2, g.const_code(rng, lats[r2])), ("run",)]
        hists.append(("raise", h))
    return hists


def probe_program():
    """all-pairs shortest path on a 5-cycle with shortcuts (LatExample.v sp_*): the distances from 0 are IMPROVED over several
    iterations and the improvements must propagate (a raised row has to reach the next iteration's delta)"""
    V, F = g.V, g.F
    p = dict(rels=[("edge", 3, "rel"), ("sp", 3, ("lat", "dual")), ("near", 2, "rel")],
             rules=[dict(heads=[("sp", [V("x"), V("y"), F("dual_of", "w")])], body=[("clause", "edge", [V("x"), V("y"), V("w")], [])]),
                    dict(heads=[("sp", [V("x"), V("z"), F("dual_add", "l", "w")])], body=[("clause", "edge", [V("x"), V("y"), V("w")], []), ("clause", "sp", [V("y"), V("z"), V("l")], [])]),
                    dict(heads=[("near", [V("x"), V("y")])], body=[("clause", "sp", [V("x"), V("y"), V("l")], [("if", "dual_le4", ["l"])])])],
             shape="probe_cycle_shortest")
    inp = {"edge": [(0, 1, 1), (1, 2, 1), (2, 3, 1), (3, 4, 1), (0, 2, 4), (0, 3, 6), (0, 4, 8), (4, 0, 1)], "sp": [(0, 4, 7)]}
    return p, inp


def probes():
    p, inp = probe_program()
    hists = [[("set", inp), ("run",), ("run",)],
             [("set", inp), ("run",), ("push", {"edge": [(2, 0, 1)], "sp": [(7, 7, 0)]}), ("run",), ("push", {"edge": [(7, 0, 2)]}), ("run",)],
             [("set", inp), ("run",), ("raise", "sp", (0, 2), 1), ("run",), ("raise", "sp", (3, 0), 9), ("run",)]]
    return [dict(id="c13lat_probe_cycle", prog=p, hists=hists, kinds=["rerun", "push", "raise"])]


def gen_cases(tier, seed):
    rng = lib.rng_for(seed, "C13", "lat")
    n = 30 if tier == "quick" else 160
    cases = []
    for i in range(n):
        p = g.gen_program(rng, ["max", "dual"] if i % 4 == 0 else None)
        i0 = g.gen_input(rng, p)[0]
        orc = g.Oracle(p)
        hs = gen_histories(rng, p, orc, i0)
        if hs is None:
            continue
        cases.append(dict(id="c13lat_%d" % i, prog=p, hists=[h for _, h in hs], kinds=[k for k, _ in hs]))
    return cases


# ------------------------------------------------------------------ corpus (run first): the duplicate-key finding and siblings

def _step_from_json(st):
    if st[0] in ("set", "push"):
        return (st[0], {r: [tuple(t) for t in rows] for r, rows in st[1].items()})
    if st[0] == "raise":
        return ("raise", st[1], tuple(st[2]), st[3])
    return tuple(st)


def load_corpus():
    from .props import c03
    path = os.path.join(lib.VERIF, "corpus", "C13.jsonl")
    out = []
    if os.path.exists(path):
        for k, l in enumerate(open(path)):
            if not l.strip():
                continue
            c = json.loads(l)
            if c.get("family"):
                continue        # entries of another half of the tie (family "latagg": gen/c13_latagg.py)
            base = c03.case_from_json(dict(prog=c["prog"], inputs=[]), "c13lat_corpus_%d" % k)
            hists = [[_step_from_json(st) for st in h] for h in c["hists"]]
            out.append(dict(id=base["id"], prog=base["prog"], hists=hists, kinds=["corpus:" + c.get("name", "")] * len(hists), note=c.get("note")))
    return out


# ------------------------------------------------------------------ scripts for the real code

def _key_test(key, row):
    return " && ".join("%s.%d == %d" % (row, i, v) for i, v in enumerate(key)) or "true"


def impl_script(p, hist, par):
    lats = g.lat_of(p)
    arity = {n: a for n, a, _ in p["rels"]}
    steps = []
    for st in hist:
        if st[0] in ("set", "push"):
            rows = g.rust_input(p, st[1])
            rows = {r: ts for r, ts in rows.items() if ts or st[0] == "set"}
            if not par:
                steps.append((st[0], rows))
                continue
            steps.append((st[0], {r: ts for r, ts in rows.items() if r not in lats}))
            for r, ts in rows.items():
                if r in lats:
                    vec = "vec![%s]" % ", ".join(prog.rust_tuple(t) for t in ts)
                    if st[0] == "set":
                        steps.append(("raw", "p.%s = %s.into_iter().map(::std::sync::RwLock::new).collect();" % (r, vec)))
                    elif ts:
                        steps.append(("raw", "for t in %s { p.%s.push(::std::sync::RwLock::new(t)); }" % (vec, r)))
        elif st[0] == "raise":
            _, r, key, v = st
            val = voc.rust_value(lats[r], v)
            last = arity[r] - 1
            if par:
                steps.append(("raw", "{ let __i = p.%s.iter().position(|t| { let t = t.read().unwrap(); %s }).unwrap(); let mut __w = p.%s[__i].write().unwrap(); ascent::Lattice::join_mut(&mut __w.%d, %s); }"
                              % (r, _key_test(key, "t"), r, last, val)))
            else:
                steps.append(("raw", "{ let __i = p.%s.iter().position(|t| %s).unwrap(); ascent::Lattice::join_mut(&mut p.%s[__i].%d, %s); }"
                              % (r, _key_test(key, "t"), r, last, val)))
        elif st[0] == "run":
            steps += [("run",), ("snap",)]
    return steps


# ------------------------------------------------------------------ model expressions

def coq_rows(p, rows_by_rel, R):
    return g.coq_db(p, {r: rows for r, rows in rows_by_rel.items() if rows}, R)


def model_exprs(p, dump, hists):
    R = dl.Names()
    for name, _, _ in p["rels"]:
        R(name)
    plan = g.coq_plan(p, dump, R)
    rules = dl.coq_list(g.coq_rule(r, R) for r in p["rules"])
    arities = dl.coq_list("(%s, %s)" % (dl.cnat(R(n)), dl.cnat(a)) for n, a, _ in p["rels"])
    lats = dl.coq_list("(%s, %s)" % (dl.cnat(R(n)), dl.cnat(voc.LTYPES[k[1]][0])) for n, a, k in p["rels"] if k != "rel")
    relnums = dl.cnats(R(n) for n, _, _ in p["rels"])
    exprs = ["(validate %s %s %s && lat_plan_ok (lv_islat %s) %s %s)" % (arities, rules, plan, lats, arities, plan)]
    for h in hists:
        steps, first = [], "(fun _ : nat => [])"
        body = list(h)
        if body and body[0][0] == "set":
            first = coq_rows(p, body[0][1], R)
            body = body[1:]
        for st in body:
            if st[0] == "run":
                steps.append("LRun")
            elif st[0] in ("push", "set"):
                steps.append("LPush %s" % coq_rows(p, st[1], R))
            elif st[0] == "raise":
                steps.append("LRaise %s %s (%d)" % (dl.cnat(R(st[1])), dl.coq_list("(%d)" % v for v in st[2]), st[3]))
        exprs.append("lat_script lv_interp (lv_islat %s) (lv_jm %s) lv_shuffle lv_swap %d%%nat %s %s %s %s"
                     % (lats, lats, FUEL, plan, relnums, dl.coq_list(steps), first))
    inv = {v: k for k, v in R.d.items()}
    return exprs, inv


def decode_model_script(v, inv):
    """Some [show; show; ...] -> list of {rel: [tuple]} ; None when out of fuel"""
    if v == "None":
        return None
    assert v[0] == "Some", v
    return [{inv[r]: [tuple(t) for t in rows] for (r, rows) in sh} for sh in v[1]]


# ------------------------------------------------------------------ run + compare

def check_snapshot(p, rows, spec, supplied=None):
    """the rows of one snapshot against the least fixed point of the joined input: list of (relation, what)"""
    lats = g.lat_of(p)
    bad = []
    for name, _, _ in p["rels"]:
        got = rows[name]
        if name in lats:
            keys = [t[:-1] for t in got]
            if len(keys) != len(set(keys)):
                bad.append((name, "lattice %s holds %d rows for %d keys (several rows per key): %s" % (name, len(got), len(set(keys)), sorted(got)[:8])))
                continue
        if sorted(set(got)) != spec[name]:
            miss = [t for t in spec[name] if t not in got]
            extra = [t for t in got if t not in spec[name]]
            bad.append((name, "relation %s: a fresh run on the join of all inputs has %s which the result lacks; the result has %s which a fresh run has not" % (name, miss[:5], extra[:5])))
            continue
        if name not in lats and len(got) != len(set(got)):
            # a run() never appends a tuple that is present; copies of a tuple can only come from the caller (rows assigned / pushed):
            # c copies supplied by the caller give c rows, or c + 1 when a run derived the tuple before the caller supplied it
            import collections
            cnt = collections.Counter(got)
            sup = (supplied or {}).get(name, {})
            over = [(t, n, sup.get(t, 0)) for t, n in cnt.items() if n > max(1, sup.get(t, 0) + (1 if sup.get(t, 0) else 0))]
            if over:
                bad.append((name, "relation %s holds duplicate rows the caller did not supply (%d rows, %d distinct): (tuple, rows, copies supplied) %s" % (name, len(got), len(set(got)), over[:4])))
    return bad


def run_cases(cases, tag="c13lat", par_every=3, coq_timeout=90):
    texts = {c["id"]: g.rust_program_text(c["prog"]) for c in cases}
    dumps = prog.front_run([(c["id"], "ascent", texts[c["id"]]) for c in cases])
    jobs, pjobs = [], []
    for n, c in enumerate(cases):
        jobs.append(dict(id=c["id"], text=texts[c["id"]], macro="ascent", rels=c["prog"]["rels"], scripts=[impl_script(c["prog"], h, False) for h in c["hists"]]))
        if par_every and (n % par_every == 0 or c["id"].startswith("c13lat_corpus") or c["id"].startswith("c13lat_probe")):
            pjobs.append(dict(id=c["id"] + "_par", text=texts[c["id"]], macro="ascent_par", rels=c["prog"]["rels"], threads=3,
                              scripts=[impl_script(c["prog"], h, True) for h in c["hists"]]))
    impl = prog.build_and_run(tag, jobs)
    pimpl = prog.build_and_run(tag + "p", pjobs, run_timeout=300) if pjobs else {}
    groups, gids, invs = [], [], {}
    for c in cases:
        d = dumps.get(c["id"])
        if d is None or d.get("status") != "ok" or "sccs" not in d:
            continue
        try:
            ex, inv = model_exprs(c["prog"], d, c["hists"])
        except g.PlanMismatch as e:
            raise lib.Infra("cannot pair the dumped plan of %s with the source rules: %s" % (c["id"], e))
        invs[c["id"]] = inv
        groups.append(ex)
        gids.append(c["id"])
    byid = dict(zip(gids, lib.coq_eval_groups(tag, PRELUDE, groups, timeout=coq_timeout)))
    out = []
    for c in cases:
        orc = g.Oracle(c["prog"])
        specs, dups = [], []
        for h in c["hists"]:
            sp = []
            for acc in joined_inputs(h):
                s = orc.run(acc)
                if s is None:
                    raise lib.Infra("specification oracle did not converge on %s" % c["id"])
                sp.append(g.canon_state(c["prog"], s))
            specs.append(sp)
            dups.append(dupkey_relations(c["prog"], h, orc))
        v = byid.get(c["id"])
        out.append(dict(case=c, text=texts[c["id"]], front=dumps.get(c["id"], {}), impl=impl.get(c["id"]), pimpl=pimpl.get(c["id"] + "_par"),
                        valid=(v[0] if v else None), model=([decode_model_script(x, invs[c["id"]]) for x in v[1:]] if v else None),
                        skipped=(c["id"] in byid and v is None), spec=specs, dups=dups))
    return out


def compare(r):
    """-> (mismatches, number of histories evaluated)"""
    mism, nh = [], 0
    c = r["case"]
    p = c["prog"]
    lats = g.lat_of(p)
    d = r["front"]
    base = dict(program=r["text"], id=c["id"], prog=p)
    if d.get("status") != "ok":
        mism.append(dict(case=base, impl=dict(front=d.get("status"), errors=d.get("errors")), model=None, spec="well-formed monotone lattice program: must compile",
                         kind="impl_violates_spec", known=None, what="front end rejects / panics on a generated lattice program: %s %s" % (d.get("status"), d.get("errors"))))
        return mism, nh
    for k, h in enumerate(c["hists"]):
        dup = r["dups"][k] or set()
        for mode, res in (("ascent", r["impl"]), ("ascent_par (pool of 3)", r["pimpl"])):
            if res is None:
                continue
            cs = dict(base, history=h, macro=mode, kind_of_history=c["kinds"][k])
            iv = res[k]
            nh += 1
            if iv is None or "snaps" not in iv:
                mism.append(dict(case=cs, impl=iv, model=None, spec=None, kind="impl_violates_spec", known=None,
                                 what="%s: history did not complete (compile error / panic / timeout): %s" % (mode, json.dumps(iv)[:400])))
                continue
            snaps = [g.decode_snapshot(p, s) for s in iv["snaps"]]
            failed = False
            prev_run = None
            j = -1
            supplied = {}
            for si, st in enumerate(h):
                if st[0] != "run":
                    prev_run = None
                    if st[0] in ("set", "push") and len(st) > 1 and isinstance(st[1], dict):
                        for rel_, ts in st[1].items():
                            d_ = supplied.setdefault(rel_, {})
                            if st[0] == "set":
                                d_.clear()
                            for t_ in ts:
                                d_[tuple(t_)] = d_.get(tuple(t_), 0) + 1
                    continue
                j += 1
                rows = snaps[j]
                for rel, what in check_snapshot(p, rows, r["spec"][k][j], supplied):
                    known = KNOWN if rel in dup else None
                    mism.append(dict(case=dict(cs, run=j + 1), impl={n: v for n, v in rows.items()}, model=None, spec=r["spec"][k][j], kind="impl_violates_spec", known=known,
                                     what="%s, after run #%d of the history: %s" % (mode, j + 1, what)))
                    failed = True
                if prev_run is not None and mode == "ascent" and rows != snaps[prev_run]:
                    rel = [n for n, _, _ in p["rels"] if rows[n] != snaps[prev_run][n]][0]
                    mism.append(dict(case=dict(cs, run=j + 1), impl=dict(before=snaps[prev_run][rel], after=rows[rel]), model=None, spec="run(); run() leaves every relation the identical list of rows",
                                     kind="impl_violates_spec", known=KNOWN if rel in dup else None,
                                     what="a second run() on unmodified rows changed relation %s (row order, number of rows or a value)" % rel))
                    failed = True
                if prev_run is not None and mode != "ascent":
                    for n, _, _ in p["rels"]:
                        if sorted(rows[n]) != sorted(snaps[prev_run][n]):
                            mism.append(dict(case=dict(cs, run=j + 1), impl=dict(before=snaps[prev_run][n], after=rows[n]), model=None, spec="run(); run() leaves every relation unchanged",
                                             kind="impl_violates_spec", known=KNOWN if n in dup else None, what="%s: a second run() on unmodified rows changed relation %s" % (mode, n)))
                            failed = True
                            break
                prev_run = j
                if failed:
                    break
            if failed or mode != "ascent" or dup or r["skipped"]:
                # histories of the duplicate-key class are outside the validity domain of the model (input_ok): not compared with it
                continue
            model = r["model"][k] if r["model"] else None
            if model is None:
                mism.append(dict(case=cs, impl="meets the specification", model="out of fuel / not evaluated", spec=None, kind="model_differs", known=None,
                                 what="correspondence LatEngine/LatRScript.v lat_script vs generated code: the model did not terminate"))
                continue
            for j2, rows in enumerate(snaps):
                for n, _, _ in p["rels"]:
                    if sorted(model[j2][n]) != sorted(rows[n]):
                        mism.append(dict(case=dict(cs, run=j2 + 1), impl={n: sorted(rows[n])}, model={n: sorted(model[j2][n])}, spec="implementation meets the specification",
                                         kind="model_differs", known=None,
                                         what="correspondence LatEngine/LatRScript.v lat_script vs generated code after run #%d (relation %s: key -> value map / rows as a multiset)" % (j2 + 1, n)))
                        break
                else:
                    continue
                break
    if r["valid"] is not True and not r["skipped"]:
        mism.append(dict(case=base, impl="plan computed by the macro", model="validate && lat_plan_ok = %s" % r["valid"], spec=None, kind="model_differs", known=None,
                         what="the plan dumped from the macro is rejected by validate / lat_plan_ok: the c13_lattice theorems do not apply to this program"))
    return mism, nh


def tie_part(tier, seed):
    """the lattice half of the C13 tie: dict(mismatches, evaluations, distinct, distribution, rule, trusted_base, assumptions, extra)"""
    cases = load_corpus() + probes() + gen_cases(tier, seed)
    results = []
    for i in range(0, len(cases), 96):
        results += run_cases(cases[i:i + 96])
    mism, distinct, kinds, shapes, types = [], set(), {}, {}, {}
    nh = nskip = ndup = 0
    for r in results:
        m, n = compare(r)
        mism += m
        nh += n
        nskip += bool(r["skipped"])
        c = r["case"]
        shapes[c["prog"].get("shape", "corpus")] = shapes.get(c["prog"].get("shape", "corpus"), 0) + 1
        for ty in g.lat_of(c["prog"]).values():
            types[ty] = types.get(ty, 0) + 1
        for k, h in enumerate(c["hists"]):
            kinds[c["kinds"][k].split(":")[0]] = kinds.get(c["kinds"][k].split(":")[0], 0) + 1
            ndup += bool(r["dups"][k])
            if sum(1 for st in h if st[0] == "run") >= 2:
                distinct.add((r["text"], json.dumps(h, sort_keys=True, default=str)))
    return dict(mismatches=mism, evaluations=nh, distinct=len(distinct),
                rule="LATTICE HALF: lattice programs of the C03 generators (shortest / widest path, reachability sets, constant propagation, random monotone programs over the 9 shipped lattice types) x histories "
                     "run;run | run;push;run;push;run (pushed rows: keys that no row holds at push time, into input AND derived lattice and plain relations) | run(empty);push;run;run | "
                     "run;raise the row of a key in place by join_mut (input or derived row) [;push];run[;raise;run]; after every run: one row per key, key -> value map and plain relations (as sets, duplicate free) "
                     "equal to the python Kleene oracle on the JOIN of everything put in, equal to the Coq model lat_script run through the same history; run;run: identical rows in identical order; "
                     "serial ascent! and (every third program) ascent_par! with a pool of 3; corpus first: histories pushing a row whose key is already held (finding " + KNOWN + ")",
                distribution=dict(lattice_programs=len(results), lattice_history_kinds=kinds, lattice_shapes=shapes, lattice_types=types, histories_in_the_duplicate_key_class=ndup),
                trusted_base=["gen/c03_gen.py Oracle / renderers and gen/c03_vocab.py (shared with C03); LatEngine/LatRScript.v lat_script drives LatEval.run_plan through the history (push = LatRerun.appr, raise = LatRerun.raise_at on the row of the key)"],
                assumptions=["generated histories push lattice rows only with keys that no row holds at push time (the guard of c13_lattice_history); histories outside the guard are in the corpus and classified"],
                extra=dict(lattice_cases_skipped_model_too_slow=nskip, lattice_histories_evaluated=nh))
