"""C04 / C02 — aggregates and negation over LATTICE relations ("one row per key for a lattice"), serial and parallel.

A lattice relation d(x, y, L) is raised over many iterations of a recursive stratum (capped longest walks for the max
lattice i32, shortest paths for Dual<i32>); a higher stratum aggregates over it through every index shape the planner can
produce for it: bound first column, bound second column, nothing bound (no-index), all key columns bound, and through a
second, unary-key lattice.  count / sum are sensitive to a row that an index lists more than once; min / max / negation are
the controls.  Every consumer is compared with a python oracle (Kleene iteration of the lattice rules, then the aggregates
over the final key -> value map).

    cases(tier, seed) -> [case]                 case = dict(id, text, rels, lat, cap, inputs, expected)
    run(tier, seed, modes, tag) -> dict(mismatches, evaluations, distinct, distribution)
        modes: 'serial' (ascent!), 'par' (ascent_par! with / without #![inter_rule_parallelism], pools, perturbation seeds)
Mismatches are in the format of gen/runner.py (kind='impl_violates_spec': the oracle is the specification; the Coq engine
models do not combine lattices with aggregates, so there is no model column here)."""
import json
import re

from . import lib, prog

POOLS = (1, 3, 8)

CONSUMERS = [
    # (relation, arity, rule text, oracle key)
    ("c0", 2, "c0(x, n as i32) <-- node(x), agg n = ascent::aggregators::count() in d(x, _, _);", "count_by_0"),
    ("c1", 2, "c1(y, n as i32) <-- node(y), agg n = ascent::aggregators::count() in d(_, y, _);", "count_by_1"),
    ("tot", 1, "tot(n as i32) <-- agg n = ascent::aggregators::count() in d(_, _, _);", "count_all"),
    ("s0", 2, "s0(x, s) <-- node(x), agg s = ascent::aggregators::sum(y) in d(x, y, _);", "sum_by_0"),
    ("s1", 2, "s1(y, s) <-- node(y), agg s = ascent::aggregators::sum(x) in d(x, y, _);", "sum_by_1"),
    ("ck", 3, "ck(x, y, n as i32) <-- node(x), node(y), agg n = ascent::aggregators::count() in d(x, y, _);", "count_key"),
    ("mn", 2, "mn(x, m) <-- node(x), agg m = ascent::aggregators::min(y) in d(x, y, _);", "min_by_0"),
    ("mx", 2, "mx(y, m) <-- node(y), agg m = ascent::aggregators::max(x) in d(x, y, _);", "max_by_1"),
    ("iso", 1, "iso(x) <-- node(x), !d(x, _, _);", "neg_0"),
    ("sink", 1, "sink(y) <-- node(y), !d(_, y, _);", "neg_1"),
    ("bt", 1, "bt(n as i32) <-- agg n = ascent::aggregators::count() in b(_, _);", "count_b"),
]


def lat_exprs(lat, cap):
    if lat == "max":
        return "i32", "*w", "(*v + *w).min(%d)" % cap, "*v"
    return "ascent::Dual<i32>", "ascent::Dual(*w)", "ascent::Dual(v.0 + *w)", "ascent::Dual(v.0)"


def program(rng):
    lat = rng.choice(["max", "max", "dual"])
    cap = rng.choice([6, 9, 14])
    ty, base, step, ident = lat_exprs(lat, cap)
    k = rng.choice([3, 4, 5, 6])
    cons = rng.sample(CONSUMERS, k)
    if not any(c[3] in ("count_by_0", "count_by_1", "count_all", "sum_by_0", "sum_by_1", "count_b") for c in cons):
        cons.append(CONSUMERS[rng.choice([0, 1, 2, 3])])
    rels = [("edge", 3, "rel"), ("node", 1, "rel"), ("d", 3, ("lat", lat)), ("b", 2, ("lat", lat))]
    decl = ["relation edge(i32, i32, i32);", "relation node(i32);", "lattice d(i32, i32, %s);" % ty, "lattice b(i32, %s);" % ty]
    rules = ["node(x) <-- edge(x, _, _);", "node(y) <-- edge(_, y, _);",
             "d(x, y, %s) <-- edge(x, y, w);" % base,
             "d(x, z, %s) <-- d(x, y, v), edge(y, z, w);" % step,
             "b(x, %s) <-- d(x, _, v);" % ident]
    for name, ar, rule, _ in cons:
        rels.append((name, ar, "rel"))
        decl.append("relation %s(%s);" % (name, ", ".join(["i32"] * ar)))
        rules.append(rule)
    rng.shuffle(rules)
    return dict(text="\n".join(decl + rules), rels=rels, lat=lat, cap=cap, consumers=[c[0] for c in cons])


def gen_input(rng, lat):
    n = rng.choice([3, 4, 5, 6])
    style = rng.choice(["late_improvement", "cycle", "random", "dense"])
    edges = set()
    if style == "late_improvement":
        # a chain of cheap (dual) / rich (max) steps next to direct edges: the value of (0, j) is raised again and again
        for i in range(n - 1):
            edges.add((i, i + 1, 1 if lat == "dual" else 3))
        for j in range(2, n):
            edges.add((0, j, 9 * j if lat == "dual" else 1))
    elif style == "cycle":
        for i in range(n):
            edges.add((i, (i + 1) % n, rng.choice([1, 2])))
        edges.add((0, rng.randrange(n), rng.choice([1, 5])))
    elif style == "random":
        for _ in range(rng.choice([3, 5, 8])):
            edges.add((rng.randrange(n), rng.randrange(n), rng.choice([1, 2, 3, 7])))
    else:
        for i in range(n):
            for j in range(n):
                if rng.random() < 0.6:
                    edges.add((i, j, rng.choice([1, 2, 4])))
    # one weight per (x, y): the order of the input must not matter for the oracle (it does not, but keep inputs sets)
    rows = sorted(edges)
    rng.shuffle(rows)
    extra_nodes = [(n + 1,)] if rng.random() < 0.4 else []
    return {"edge": rows, "node": extra_nodes}


def oracle(p, inp):
    lat, cap = p["lat"], p["cap"]
    better = (lambda a, b: a > b) if lat == "max" else (lambda a, b: a < b)
    d = {}

    def put(m, k, v):
        if k not in m or better(v, m[k]):
            m[k] = v
            return True
        return False
    edges = inp["edge"]
    for x, y, w in edges:
        put(d, (x, y), w)
    for _ in range(10000):
        ch = False
        for (x, y), v in list(d.items()):
            for y2, z, w in edges:
                if y2 == y:
                    nv = min(v + w, cap) if lat == "max" else v + w
                    ch |= put(d, (x, z), nv)
        if not ch:
            break
    else:
        return None
    b = {}
    for (x, y), v in d.items():
        put(b, (x,), v)
    nodes = sorted({x for x, _, _ in edges} | {y for _, y, _ in edges} | {t[0] for t in inp["node"]})
    keys = list(d)
    out = {"edge": sorted(edges), "node": [(x,) for x in nodes],
           "d": sorted((x, y, v) for (x, y), v in d.items()), "b": sorted((x, v) for (x,), v in b.items())}
    by0 = {x: [k for k in keys if k[0] == x] for x in nodes}
    by1 = {y: [k for k in keys if k[1] == y] for y in nodes}
    out["c0"] = [(x, len(by0[x])) for x in nodes]
    out["c1"] = [(y, len(by1[y])) for y in nodes]
    out["tot"] = [(len(keys),)]
    out["s0"] = [(x, sum(k[1] for k in by0[x])) for x in nodes]
    out["s1"] = [(y, sum(k[0] for k in by1[y])) for y in nodes]
    out["ck"] = [(x, y, 1 if (x, y) in d else 0) for x in nodes for y in nodes]
    out["mn"] = [(x, min(k[1] for k in by0[x])) for x in nodes if by0[x]]
    out["mx"] = [(y, max(k[0] for k in by1[y])) for y in nodes if by1[y]]
    out["iso"] = [(x,) for x in nodes if not by0[x]]
    out["sink"] = [(y,) for y in nodes if not by1[y]]
    out["bt"] = [(len(b),)]
    return {k: sorted(v) for k, v in out.items()}


def cases(tier, seed):
    rng = lib.rng_for(seed, "C04", "lat_agg")
    n = 8 if tier == "quick" else 60
    ninp = 3 if tier == "quick" else 5
    out = []
    for i in range(n):
        p = program(rng)
        inputs, expected = [], []
        for _ in range(ninp):
            inp = gen_input(rng, p["lat"])
            e = oracle(p, inp)
            if e is None:
                continue
            inputs.append(inp)
            expected.append(e)
        if inputs:
            out.append(dict(p, id="c04lat_%d" % i, inputs=inputs, expected=expected))
    return out


_DUAL = re.compile(r"^Dual\((-?\d+)\)$")


def decode(snap):
    """{rel: rows in order, every value an int}"""
    out = {}
    for rel, rows in prog.rows_snap(snap).items():
        rr = []
        for t in rows:
            rr.append(tuple(int(_DUAL.match(v).group(1)) if isinstance(v, str) and _DUAL.match(v) else v for v in t))
        out[rel] = rr
    return out


def compare(case, k, snap):
    rows = decode(snap)
    exp = case["expected"][k]
    lats = {name for name, _, kind in case["rels"] if isinstance(kind, tuple)}
    for name, _, _ in case["rels"]:
        got = rows[name]
        if name in lats:
            keys = [t[:-1] for t in got]
            if len(keys) != len(set(keys)):
                return "lattice %s holds %d rows for %d keys" % (name, len(keys), len(set(keys)))
        elif len(got) != len(set(got)):
            return "relation %s holds %d rows, %d distinct" % (name, len(got), len(set(got)))
        if sorted(got) != exp[name]:
            return "relation %s: got %s; the specification (aggregate over one row per key of the least fixed point) gives %s" % (
                name, [t for t in sorted(got) if t not in exp[name]][:5], [t for t in exp[name] if t not in got][:5])
    return None


def run(tier, seed, modes=("serial", "par"), tag="c04lat"):
    rng = lib.rng_for(seed, "C04", "lat_agg_sched")
    cs = cases(tier, seed)
    nsched = 2 if tier == "quick" else 4
    jobs, meta = [], {}
    for c in cs:
        if "serial" in modes:
            jid = c["id"] + "_ser"
            jobs.append(dict(id=jid, text=c["text"], macro="ascent", rels=c["rels"],
                             scripts=[[("set", inp), ("run",), ("snap",)] for inp in c["inputs"]]))
            meta[jid] = (c, "ascent!", None, [None])
        if "par" in modes:
            for irp in (False, True):
                for pool in POOLS:
                    jid = "%s_%s_t%d" % (c["id"], "irp" if irp else "seq", pool)
                    seeds = [0] + [rng.randrange(1, 2 ** 31) for _ in range(nsched - 1)]
                    scripts = []
                    for sd in seeds:
                        for inp in c["inputs"]:
                            scripts.append([("raw", "ascent::verif_hooks::arm_perturb(%d);" % sd), ("set", inp), ("run",), ("snap",),
                                            ("raw", "ascent::verif_hooks::arm_perturb(0);")])
                    jobs.append(dict(id=jid, text=c["text"], attrs=["#![inter_rule_parallelism]"] if irp else [], macro="ascent_par",
                                     rels=c["rels"], scripts=scripts, threads=pool))
                    meta[jid] = (c, "ascent_par!%s" % (" + inter_rule_parallelism" if irp else ""), pool, seeds)
    impl = prog.build_and_run(tag, jobs, features=("verif_hooks",), run_timeout=300) if jobs else {}
    mism, distinct, by_mode, shapes = [], set(), {}, {}
    for c in cs:
        for nm in c["consumers"]:
            shapes[nm] = shapes.get(nm, 0) + 1
        shapes["lattice_" + c["lat"]] = shapes.get("lattice_" + c["lat"], 0) + 1
    for jid, (c, mode, pool, seeds) in meta.items():
        res = impl.get(jid)
        k = 0
        for sd in seeds:
            for ii in range(len(c["inputs"])):
                iv = res[k] if res else None
                k += 1
                cs_ = dict(program=c["text"], input=c["inputs"][ii], macro=mode, pool_threads=pool, perturbation_seed=sd, id=c["id"])
                if iv is None or "snaps" not in iv:
                    mism.append(dict(case=cs_, impl=iv, model=None, spec=c["expected"][ii], kind="impl_violates_spec", known=None,
                                     what="%s: run over a lattice + aggregates did not complete: %s" % (mode, json.dumps(iv)[:300])))
                    continue
                distinct.add((jid, sd, ii))
                by_mode[mode] = by_mode.get(mode, 0) + 1
                bad = compare(c, ii, iv["snaps"][-1])
                if bad:
                    mism.append(dict(case=cs_, impl={n: sorted(v) for n, v in decode(iv["snaps"][-1]).items()}, model=None, spec=c["expected"][ii],
                                     kind="impl_violates_spec", known=None,
                                     what="%s%s: aggregate / negation over a lattice relation: %s" % (mode, " (pool of %d, perturbation seed %d)" % (pool, sd) if pool else "", bad)))
    return dict(mismatches=mism, evaluations=len(distinct), distinct=len(distinct),
                distribution=dict(programs=len(cs), consumers=shapes, runs_by_mode=by_mode, pools=list(POOLS), schedules_per_configuration=nsched))
