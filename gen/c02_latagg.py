"""C02 — the lattice + aggregate family under ascent_par!, compared with the SERIAL MODEL column and with the python oracle.

Theorem behind the comparison (coq/LatEngine/LatParAggMain.v par_lat_agg_equals_serial, proposed for Props/C02.v as
c02_par_lat_agg_equals_serial): for a plan accepted by validate / alat_plan_ok / plan_below, EVERY run of the relational model
of the parallel lattice engine with aggregates (LatParAggModel.par_lat_agg_run_plan: any workers, any schedule, any moment at
which a row is read, any traversal order of an aggregated index) ends, in every relation, with a permutation of the rows of the
serial executable model LatAggEval.arun_plan.  The relational parallel model is not executable per schedule, so the tie is:

    real ascent_par! binary (pools 1 / 3 / 8, with / without #![inter_rule_parallelism], seeded schedule perturbation)
        vs  the SERIAL MODEL column gen/c04_latmodel.model_column_full (arun_plan by vm_compute on the plan dumped by the macro)
            -> kind='model_differs'      (rows compared as multisets per relation; also: plan rejected by the boolean hypotheses)
        vs  the python oracle of gen/c04_lat.py (Kleene iteration, aggregates over the final key -> value map)
            -> kind='impl_violates_spec' (also: two rows for a lattice key, a duplicated plain row, a run that did not complete)

The jobs are those of gen/c04_lat.run(..., modes=('par',)) (same case generator `c04_lat.cases`, same pools, same perturbation
seed stream, same script per run) - rebuilt here because c04_lat.run does not hand back the rows - plus the fixed probes of
gen/c04_latmodel.probes() (duplicate input rows of an aggregated plain relation, an aggregate BINDING THE LATTICE COLUMN - the
rows[i].read().clone() path of the generated parallel code -, two negations / two aggregates in one rule, a constant key),
which have a model column but no oracle.

    check(tier, seed, tag) -> dict(mismatches, evaluations, distinct, distribution, model_comparisons, oracle_comparisons, seconds, ...)
        (mismatches / evaluations / distinct / distribution: the keys gen/props/c02.py reads from c04_lat.run)
    python3 -m gen.c02_latagg quick|thorough [seed]"""
import json
import sys
import time

from . import c04_lat, c04_latmodel, lib, prog


def _jobs(cs, tier, seed):
    """the 'par' jobs of gen/c04_lat.run (same ids, attributes, pools, scripts, seed stream)"""
    rng = lib.rng_for(seed, "C04", "lat_agg_sched")
    nsched = 2 if tier == "quick" else 4
    jobs, meta = [], {}
    for c in cs:
        for irp in (False, True):
            for pool in c04_lat.POOLS:
                jid = "%s_%s_t%d" % (c["id"], "irp" if irp else "seq", pool)
                seeds = [0] + [rng.randrange(1, 2 ** 31) for _ in range(nsched - 1)]
                scripts = []
                for sd in seeds:
                    for inp in c["inputs"]:
                        scripts.append([("raw", "ascent::verif_hooks::arm_perturb(%d);" % sd), ("set", inp), ("run",), ("snap",),
                                        ("raw", "ascent::verif_hooks::arm_perturb(0);")])
                jobs.append(dict(id=jid, text=c["text"], attrs=["#![inter_rule_parallelism]"] if irp else [], macro="ascent_par",
                                 rels=c["rels"], scripts=scripts, threads=pool))
                meta[jid] = (c, "ascent_par!%s" % (" + inter_rule_parallelism" if irp else ""), pool, seeds)
    return jobs, meta, nsched


def _shape(case, rows):
    """one row per key of a lattice relation, no duplicate row of a plain relation (checked for the probes too)"""
    lats = {name for name, _, kind in case["rels"] if isinstance(kind, tuple)}
    for name, _, _ in case["rels"]:
        got = rows.get(name, [])
        if name in lats:
            keys = [t[:-1] for t in got]
            if len(keys) != len(set(keys)):
                return "lattice %s holds %d rows for %d keys" % (name, len(keys), len(set(keys)))
    return None


def check(tier, seed, tag="c02lataggm", cases=None, with_probes=True):
    gen = c04_lat.cases(tier, seed) if cases is None else cases
    probes = c04_latmodel.probes() if (with_probes and cases is None) else []
    cs = probes + gen
    t0 = time.time()
    col = c04_latmodel.model_column_full(cs, tag=tag + "_model")
    t_model = time.time() - t0
    jobs, meta, nsched = _jobs(cs, tier, seed)
    t0 = time.time()
    impl = prog.build_and_run(tag, jobs, features=("verif_hooks",), run_timeout=300) if jobs else {}
    t_impl = time.time() - t0
    mism, distinct, by_mode, shapes = [], set(), {}, {}
    n_model, n_oracle, invalid, untranslated = 0, 0, 0, 0
    for c in cs:
        for nm in c.get("consumers", []):
            shapes[nm] = shapes.get(nm, 0) + 1
        shapes["lattice_" + c["lat"]] = shapes.get("lattice_" + c["lat"], 0) + 1
        m = col[c["id"]]
        if m["error"]:
            untranslated += 1
            mism.append(dict(case=dict(program=c["text"], id=c["id"]), impl=None, model=m["error"], spec=None, kind="model_differs", known=None,
                             what="the lattice + aggregate program has no model column: %s" % m["error"]))
        elif m["valid"] is not True:
            invalid += 1
            mism.append(dict(case=dict(program=c["text"], id=c["id"]), impl="plan computed by the macro",
                             model="validate && alat_plan_ok && plan_below = %s" % m["valid"], spec=None, kind="model_differs", known=None,
                             what="the plan dumped from the macro is rejected by validate / alat_plan_ok / plan_below: "
                                  "LatParAggMain.par_lat_agg_equals_serial does not apply"))
    for jid, (c, mode, pool, seeds) in meta.items():
        res = impl.get(jid)
        m = col[c["id"]]
        k = 0
        for sd in seeds:
            for ii in range(len(c["inputs"])):
                iv = res[k] if res else None
                k += 1
                cs_ = dict(program=c["text"], input=c["inputs"][ii], macro=mode, pool_threads=pool, perturbation_seed=sd, id=c["id"])
                exp = c["expected"][ii] if "expected" in c else None
                if iv is None or "snaps" not in iv:
                    mism.append(dict(case=cs_, impl=iv, model=None, spec=exp, kind="impl_violates_spec", known=None,
                                     what="%s: run over a lattice + aggregates did not complete: %s" % (mode, json.dumps(iv)[:300])))
                    continue
                distinct.add((jid, sd, ii))
                by_mode[mode] = by_mode.get(mode, 0) + 1
                rows = c04_lat.decode(iv["snaps"][-1])
                where = " (pool of %d, perturbation seed %d)" % (pool, sd)
                # implementation vs specification oracle
                bad = c04_lat.compare(c, ii, iv["snaps"][-1]) if exp is not None else _shape(c, rows)
                if exp is not None:
                    n_oracle += 1
                if bad:
                    mism.append(dict(case=cs_, impl={n: sorted(v) for n, v in rows.items()}, model=None, spec=exp, kind="impl_violates_spec", known=None,
                                     what="%s%s: aggregate / negation over a lattice relation: %s" % (mode, where, bad)))
                # implementation vs serial model column (parallel = serial model: par_lat_agg_equals_serial)
                if m["error"] is None and ii in m["rows"]:
                    n_model += 1
                    for d in c04_latmodel.compare(c, ii, rows, m["rows"].get(ii)):
                        d["case"] = cs_
                        d["what"] = ("%s%s vs the SERIAL model LatEngine/LatAggEval.v arun_plan (equal rows per relation by "
                                     "LatParAggMain.par_lat_agg_equals_serial): %s" % (mode, where, d["what"]))
                        mism.append(d)
    return dict(mismatches=mism, evaluations=len(distinct), distinct=len(distinct),
                model_comparisons=n_model, oracle_comparisons=n_oracle, plans_rejected=invalid, untranslated=untranslated,
                distribution=dict(programs=len(cs), generated=len(gen), probes=len(probes), consumers=shapes, runs_by_mode=by_mode,
                                  pools=list(c04_lat.POOLS), schedules_per_configuration=nsched,
                                  distinct_rule="one (program, inter_rule_parallelism, pool, perturbation seed, input) run that completed",
                                  compared_with=["serial model column LatAggEval.arun_plan (model_differs)", "python Kleene oracle (impl_violates_spec)"]),
                seconds=dict(model=round(t_model, 1), implementation=round(t_impl, 1)))


if __name__ == "__main__":
    tier = sys.argv[1] if len(sys.argv) > 1 else "quick"
    seed = int(sys.argv[2]) if len(sys.argv) > 2 else 1
    r = check(tier, seed)
    print(json.dumps({k: v for k, v in r.items() if k != "mismatches"}, indent=1))
    print("mismatches: %d" % len(r["mismatches"]))
    for m in r["mismatches"][:5]:
        print(json.dumps(m)[:1500])
    sys.exit(1 if r["mismatches"] else 0)
