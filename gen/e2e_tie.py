"""END-TO-END (B10) — correspondence run for Syntax/EndToEnd*.v.

    python3 -m gen.e2e_tie [quick|thorough] [seed]

For the surface programs of gen/c07_gen.py (the distribution of the C07 tie, same seeds) it evaluates in Coq
  - the boolean hypotheses of the end-to-end theorems: wf_surface P, wf_binding arities P (arities = the declared ones),
  - the conclusion of desugar_output_wf_core under two counter states: wf_core arities (to_core cs P),
  - sccs_ok for the SCC partition gen/engine_tie.stratify computes (mapped to the desugared rule numbers), and the whole
    pipeline desugar -> to_core -> compile_model -> run_plan against the stratified fix-point of the SURFACE program
    (Surface.sstrat_fix, direct denotation) on a generated input,
and compares `desugar_prog cs P` (cs = the counter state the dump started in) with the FRONT-dumped desugared rules of the
real macro (structural comparison of gen/c07_hir.py, as in the C07 tie).
Checked:  wf_surface /\ wf_binding  ->  wf_core (both counter states)                    [theorem instance]
          every generated program WITHOUT adversarial names that the real front end accepts meets wf_surface and wf_binding
          sccs_ok  ->  rows of the run == surface stratified fix-point (as sets, per relation)   [theorem instance]
          structure: macro's desugared rules == Desugar.v
Exit 0 = all held; 1 = a mismatch (printed); 2 = infrastructure.
"""
import json
import sys
import time
from collections import Counter

from . import lib, dl, gen_dl, prog, engine_tie
from . import c07_gen as G
from . import c07_hir as H

FUEL = 200
PRELUDE = ("From Coq Require Import List ZArith Bool String Ascii.\n"
           "From AV Require Import Engine.Core.\n"
           "From AV Require Import Engine.Sem.\n"
           "From AV Require Import Engine.Eval.\n"
           "From AV Require Import Engine.Vocab.\n"
           "From AV Require Import Plan.PlanModel.\n"
           "From AV Require Import Plan.PlanWf.\n"
           "From AV Require Import Syntax.Surface.\n"
           "From AV Require Import Syntax.Desugar.\n"
           "From AV Require Import Syntax.ToCore.\n"
           "From AV Require Import Syntax.Show.\n"
           "From AV Require Import Syntax.C07Vocab.\n"
           "From AV Require Import Syntax.EndToEndDefs.\n"
           "From AV Require Import Syntax.EndToEnd.\n"
           "Import ListNotations.\nOpen Scope Z_scope.\nOpen Scope string_scope.\n")
ALT_COUNTERS = '[(i "x1", 3%nat); (i "expr_replaced", 2%nat); (i "x2", 1%nat); (i "x3", 7%nat)]'


def gen_cases(tier, seed):
    """the programs of the C07 tie (same rng stream), without the join-repeat surgery"""
    rng = lib.rng_for(seed, "C07")
    n = 66 if tier == "quick" else 600
    cases = []
    for k in range(n):
        p = G.gen_program(rng)
        names = []
        if rng.random() < 0.16:
            names = G.adversarialize(rng, p, k)
        ninp = rng.choice([2, 2, 3])
        inputs = [gen_dl.gen_input(rng, p["rels"], style=rng.choice(["small", "small", "mixed", "mixed", "sparse_chain", "dense"]))[0] for _ in range(ninp)]
        cases.append(dict(id="e2e_%d" % k, prog=p, inputs=inputs[:1], adversarial=names))
    return cases


def coq_group(c, cs):
    p = c["prog"]
    R = dl.Names()
    for name, _, _ in p["rels"]:
        R(name)
    P = G.c_prog(p["rules"], R)
    ar = dl.coq_list("(%s, %s)" % (dl.cnat(R(name)), dl.cnat(a)) for name, a, _ in p["rels"])
    strata = engine_tie.stratify(p["rules"])
    offs, o = [], 0
    for r in p["rules"]:
        n = G.count_expansions(r["body"])
        offs.append(list(range(o, o + n)))
        o += n
    s_strata = dl.coq_list(G.c_prog([p["rules"][j] for j in comp], R) for comp in strata)
    sccs = dl.coq_list(dl.cnats([k for j in comp for k in offs[j]]) for comp in strata)
    f0 = dl.coq_facts(engine_tie.facts_of_input(c["inputs"][0], p["rels"]), R)
    exprs = ["(wf_surface %s, wf_binding %s %s)" % (P, ar, P),
             "(match core_of_prog (desugar_prog [] %s) with Some C => Some (wf_core %s C) | None => None end,"
             " match core_of_prog (desugar_prog %s %s) with Some C => Some (wf_core %s C) | None => None end)" % (P, ar, ALT_COUNTERS, P, ar),
             "show_prog (desugar_prog %s %s)" % (H.coq_counters(cs), P),
             "sccs_ok (to_core [] %s) %s" % (P, sccs),
             "(sstrat_fix c07_interp %d%%nat %s %s,"
             " option_map rows (run_plan c07_interp std_swap %d%%nat (compile_model %s (to_core [] %s) %s) (init_state %s)))"
             % (FUEL, s_strata, f0, FUEL, ar, P, sccs, f0)]
    inv = {v: k for k, v in R.d.items()}
    return exprs, inv, R


def sets_of(facts, rels):
    g = engine_tie.group_facts(facts, rels)
    return {name: g[name][1] for name, _, _ in rels}


def ensure_coq():
    with lib.Lock("coq"):
        lib.coq_makefile()
        rc, out = lib.sh(["timeout", "1500", "make", "-j%d" % lib.NCPU, "Syntax/Show.vo", "Syntax/C07Vocab.vo", "Syntax/EndToEnd.vo",
                          "Plan/PlanModel.vo", "Plan/PlanWf.vo", "Engine/Vocab.vo"], cwd=lib.COQ, timeout=1600)
    if rc:
        raise lib.Infra("cannot build the Coq modules of the end-to-end tie:\n" + out[-3000:])


def run(tier="quick", seed=0):
    t0 = time.time()
    ensure_coq()
    cases = gen_cases(tier, seed)
    for c in cases:
        c["text"] = G.program_text(c["prog"])
    dumps = prog.front_run([(c["id"], "ascent", c["text"]) for c in cases])
    groups = []
    for c in cases:
        c["front"] = dumps.get(c["id"], {})
        ex, inv, R = coq_group(c, H.infer_counters(c["front"]))
        c["inv"], c["R"] = inv, R
        groups.append(ex)
    vals = lib.coq_eval_groups("e2e", PRELUDE, groups, timeout=60)
    stats, mism = Counter(), []
    for c, v in zip(cases, vals):
        rels = c["prog"]["rels"]
        if v is None:
            stats["skipped_coq_timeout"] += 1
            continue
        (wfs, wfb), (wc0, wc1), shown, sok, (sfix, rrows) = v
        status = c["front"].get("status")
        stats["programs"] += 1
        stats["front_" + str(status)] += 1
        stats["wf_surface_%s" % wfs] += 1
        stats["wf_binding_%s" % wfb] += 1
        hyp = wfs is True and wfb is True
        # theorem instance: desugar_output_wf_core, two counter states
        if hyp:
            stats["hypotheses_hold"] += 1
            for tag, w in (("[]", wc0), ("ALT", wc1)):
                if w != ("Some", True) and w != ["Some", True]:
                    mism.append(dict(id=c["id"], program=c["text"], what="desugar_output_wf_core contradicted (counters %s): %r" % (tag, w)))
        # the hypotheses hold on every generated program the real front end accepts (no adversarial names)
        if not c["adversarial"] and status == "ok" and not hyp:
            stats["accepted_but_hypotheses_false"] += 1
            mism.append(dict(id=c["id"], program=c["text"], what="front end accepts, but wf_surface=%s wf_binding=%s" % (wfs, wfb)))
        # theorem instance: the pipeline computes the surface (stratified) fix-point
        if hyp and sok is True:
            stats["sccs_ok"] += 1
            if sfix == "None" or rrows == "None":
                stats["skipped_out_of_fuel"] += 1
            else:
                a = sets_of(engine_tie.decode_facts(sfix, c["inv"]), rels)
                b = sets_of(engine_tie.decode_facts(rrows, c["inv"]), rels)
                if a != b:
                    mism.append(dict(id=c["id"], program=c["text"], input=c["inputs"][0], what="pipeline rows differ from the surface fix-point", surface=a, rows=b))
                else:
                    stats["pipeline_runs_compared"] += 1
                    if any(len(b[name]) for name, _, _ in rels):
                        stats["pipeline_runs_nonempty"] += 1
        elif hyp:
            stats["sccs_not_ok"] += 1
        # structure: macro's desugared rules vs Desugar.v (counter state of the dump)
        if "hir_rules" in c["front"]:
            try:
                hrules = H.hir_rules(c["front"], c["R"])
                err = H.exact_diff(hrules, H.coq_rules(shown))
            except H.Shape as e:
                err = "dumped rule outside the model's language: %s" % e
            if err:
                mism.append(dict(id=c["id"], program=c["text"], what="Desugar.v differs from the macro's desugared rules: %s" % err[:400]))
            else:
                stats["structure_compared"] += 1
    return dict(tier=tier, seed=seed, stats=dict(stats), mismatches=mism[:10], n_mismatches=len(mism), wall=round(time.time() - t0, 1))


if __name__ == "__main__":
    tier = sys.argv[1] if len(sys.argv) > 1 else "quick"
    seed = int(sys.argv[2]) if len(sys.argv) > 2 else 0
    try:
        res = run(tier, seed)
    except lib.Infra as e:
        print("INFRA", e)
        sys.exit(2)
    print(json.dumps(res, indent=1, default=str)[:6000])
    sys.exit(1 if res["n_mismatches"] else 0)
