"""C09 family `attrs`: program-level INNER attributes x include_source! placement x struct signature x macro.

The attributes at the top of a program (`#![ds(path)]`, `#![measure_rule_times]`, `#![generate_run_timeout]`,
`#![inter_rule_parallelism]`) are parsed before anything else; when an `include_source!` is met the parsed program is thrown away
and only `before` / `after` tokens reach the re-invocation, so the attributes (like the signature and the items) have to travel
inside `before` (model: Pack/PackAttrModel.v, theorem c09_include_is_splice_with_attributes).  Every attribute is given an
OBSERVABLE here, the expected value of which comes from the logical program and its attribute set alone:

  #![ds(P)]                 every relation without its own #[ds] is a P-relation: with P = eqrel / trrel / trrel_uf the relation is an
                            equivalence / transitive (/ reflexive-transitive) closure.  Expected relations = the specification oracle
                            (Engine/Strat.v strat_fix, evaluated in Coq) on the EXPLICIT program (plain relation + closure rules), as in
                            C10 / C11 / C12; the plain relations carry `#[ds(ascent::rel)]` and are observed as sets + row counts.
  #![generate_run_timeout]  `run_timeout` exists: the script calls run_timeout(Duration::MAX) (must compile and return true).
  #![measure_rule_times]    scc_times_summary() has a "sum of rule times" line per SCC and >= 1 "rule .." line; without it none.

Logical programs: the generators of C10 (eqrel), C11 (trrel), C12 (trrel_uf) with the provider moved from the relation to the program
level, and plain programs of gen/gen_dl.py (measure / timeout / ds(ascent::rel) only).  Packagings per program: the text pasted
(control), an include as the VERY FIRST item (part of the items / the whole program / two adjacent includes), in the middle, at the
end, first + later; each with and without a struct signature; macros ascent! / ascent_par! / ascent_run! / ascent_run_par! (the
parallel ones where the provider has a parallel form); attributes in random order.

The Coq model is evaluated on the token shape of every packaging (attributes, signature, one token per item, sources):
outcome_config (xexpand ..) must be the configuration of the attribute set (else `model_differs`), and is reported next to the
implementation's answer."""
import json
import re
import time

from . import c09_pack, c10_prog, c11_prog, c12_prog, dl, engine_tie, gen_dl, lib, prog

PROVIDERS = {"eqrel": "ascent_byods_rels::eqrel", "trrel": "ascent_byods_rels::trrel", "trrel_uf": "ascent_byods_rels::trrel_uf",
             "rel": "ascent::rel"}
DS_CODE = {None: 0, "rel": 0, "eqrel": 1, "trrel": 2, "trrel_uf": 3}
PLAIN_DS = "#[ds(ascent::rel)] "
PRELUDE = ("From Coq Require Import List Arith Bool.\nFrom AV Require Import Pack.PackModel.\nFrom AV Require Import Pack.PackAttrModel.\n"
           "From AV Require Import Pack.PackAttrProofs.\nImport ListNotations.\n")

SUMM_FN = r'''
fn summ(s: String) -> String {
   let mut scc = 0; let mut sum = 0; let mut rules: Vec<String> = vec![];
   for l in s.lines() {
      if l.starts_with("scc ") { scc += 1; }
      else if l.contains("sum of rule times") { sum += 1; }
      else if l.starts_with("  rule ") { rules.push(format!("{:?}", l.trim())); }
   }
   format!("{{\"__summary\":{{\"scc\":{},\"sum\":{},\"rules\":[{}]}}}}", scc, sum, rules.join(","))
}
'''


# ------------------------------------------------------------------ logical programs

def _closure_name(tagged):
    c = [n for n, _, k in tagged["rels"] if isinstance(k, tuple) and k[0] == "ds"]
    assert len(c) == 1, tagged["rels"]
    return c[0]


def gen_case(rng, cid, prov):
    """dict(id, provider, tagged (program AST; the closure relation has kind ('ds', path)), explicit (plain relation + closure rules),
    plain (the same rules, every relation an ordinary one: what a LOST #![ds] would compute), inputs, par_ok)"""
    if prov == "eqrel":
        ar = rng.choice([2, 2, 3])
        cfg = c10_prog.gen_cfg(rng, ar, rng.choice(c10_prog.FEEDS), par=(ar == 2))
        tagged, explicit = c10_prog.build(cfg)
        inputs = [c10_prog.gen_input(rng, cfg) for _ in range(2)]
        par_ok = ar == 2
    elif prov == "trrel":
        tern = rng.random() < 0.4
        g = c11_prog.gen_program(rng, tern)
        tagged, explicit = g["prog"], c11_prog.explicit_program(g["prog"])
        inputs = [c11_prog.gen_input(rng, tagged["rels"], tern)[0] for _ in range(2)]
        par_ok = False
    elif prov == "trrel_uf":
        tern = rng.random() < 0.4
        p = c12_prog.gen_program(rng, tern)
        tagged, explicit = c12_prog.asts(p)
        inputs = [c12_prog.gen_input(rng, p) for _ in range(2)]
        par_ok = False
    else:
        p = gen_dl.gen_strat_program(rng) if rng.random() < 0.3 else gen_dl.gen_program(rng, dict(nrels=[2, 2, 3], nrules=[1, 2, 3]))
        tagged = explicit = dict(rels=list(p["rels"]), rules=list(p["rules"]))
        inputs = [gen_dl.gen_input(rng, p["rels"], style=rng.choice(["small", "mixed", "sparse_chain"]))[0] for _ in range(2)]
        par_ok = True
    plain = dict(rels=[(n, a, "rel") for n, a, _ in tagged["rels"]], rules=tagged["rules"])
    inputs = [{n: sorted({tuple(t) for t in ts}) for n, ts in inp.items()} for inp in inputs]
    return dict(id=cid, provider=prov, tagged=tagged, explicit=explicit, plain=plain, inputs=inputs, par_ok=par_ok)


def gen_cases(tier, seed):
    rng = lib.rng_for(seed, "C09", "attrs")
    provs = ["eqrel", "trrel", "trrel_uf", "eqrel", None, "trrel_uf", "eqrel", "trrel", None, "eqrel"]
    n = 10 if tier == "quick" else 60
    return [gen_case(rng, "c09_a%d" % i, provs[i % len(provs)]) for i in range(n)]


def choose_attrs(rng, prov, par, struct_macro):
    """the attribute set of one packaging (python view): dict(ds, measure, timeout, inter) + the rendered lines in random order"""
    a = dict(ds=prov, measure=rng.random() < 0.5, timeout=rng.random() < 0.5, inter=(par and rng.random() < 0.3))
    if prov is None:
        a["ds"] = rng.choice([None, None, "rel"])
        if not (a["measure"] or a["timeout"] or a["ds"]):
            a[rng.choice(["measure", "timeout"])] = True          # a program of this family has at least one inner attribute
    lines = []
    if a["ds"]:
        lines.append("#![ds(%s)]" % PROVIDERS[a["ds"]])
    if a["measure"]:
        lines.append("#![measure_rule_times]")
    if a["timeout"]:
        lines.append("#![generate_run_timeout]")
    if a["inter"]:
        lines.append("#![inter_rule_parallelism]")
    rng.shuffle(lines)
    return a, lines


# ------------------------------------------------------------------ rendering

def decl_lines(case, attrs):
    """declarations: the closure relation relies on the program-level #![ds(P)] (no attribute of its own); every other relation is
    explicitly an ordinary one"""
    out = []
    for n, a, k in case["tagged"]["rels"]:
        bare = dl.rust_decl(n, a, "rel")
        if isinstance(k, tuple) and k[0] == "ds":
            out.append(bare)
        elif attrs["ds"] in ("eqrel", "trrel", "trrel_uf"):
            out.append(PLAIN_DS + bare)
        else:
            out.append(bare)
    return out


def observed_rels(case):
    return [(n, a, "rel") for n, a, k in case["tagged"]["rels"] if not (isinstance(k, tuple) and k[0] == "ds")]


def input_rels(case):
    names = set()
    for inp in case["inputs"]:
        names |= set(inp)
    obs = {n for n, _, _ in observed_rels(case)}
    assert names <= obs, (names, obs)
    return [(n, a, k) for n, a, k in observed_rels(case) if n in names]


PLACEMENTS = ["paste", "first", "first_all", "first_chain", "first_later", "middle", "end"]


def place_includes(rng, jid, lines, placement, hoist=None):
    """-> (source blocks, new item lines, [(a, b)] cuts, description).  hoist(line): the line stays in the program text, right after
    the include (items that mention a captured local: finding include_source_hides_captured_locals)"""
    n = len(lines)
    if placement == "paste":
        return [], list(lines), [], "pasted"
    if placement == "first":
        cuts = [(0, rng.randint(1, max(1, n - 1)))]
    elif placement == "first_all":
        cuts = [(0, n)]
    elif placement == "first_chain":
        a = rng.randint(0, n)
        cuts = [(0, a), (a, rng.randint(a, n))]
    elif placement == "first_later":
        a = rng.randint(0, max(0, n - 1))
        b = rng.randint(min(a + 1, n), n)
        cuts = [(0, a), (b, rng.randint(b, n))]
    elif placement == "middle":
        a = rng.randint(1, max(1, n - 1))
        cuts = [(a, rng.randint(a, max(a, n - 1)))]
    elif placement == "end":
        a = rng.randint(1, max(1, n - 1))
        cuts = [(a, n)]
    else:
        raise ValueError(placement)
    srcs, out, pos = [], [], 0
    for ci, (a, b) in enumerate(cuts):
        out += lines[pos:a]
        seg = lines[a:b]
        kept = [l for l in seg if hoist and hoist(l)]
        seg = [l for l in seg if not (hoist and hoist(l))]
        blk, path = c09_pack.source_block("src_%s_%s" % (jid, "ab"[ci]), seg, doc=(rng.random() < 0.3), nested=(rng.random() < 0.4))
        srcs.append((blk, seg))
        out.append("include_source!(%s);" % path)
        out += kept
        pos = b
    out += lines[pos:]
    return srcs, out, cuts, "%s%s" % (placement, cuts)


def model_expr(par, attrs, sig, lines, srcs):
    """the packaging as an input of Pack/PackAttrModel.v: attributes, signature token, one token per item, includes; the configuration
    the model compiles the program with"""
    order = {"ds": "#![ds", "measure": "#![measure", "timeout": "#![generate", "inter": "#![inter"}
    toks = []
    for l in attrs["lines"]:
        for key, pre in order.items():
            if l.startswith(pre):
                toks.append({"ds": "XAttr (ADs %d)" % DS_CODE[attrs["ds"]], "measure": "XAttr AMeasure", "timeout": "XAttr ATimeout", "inter": "XAttr AInterRule"}[key])
    if sig:
        toks.append("XSig 0")
    k, inc = 10, 0
    for l in lines:
        if l.startswith("include_source!"):
            toks.append("xinc %d" % inc)
            inc += 1
        else:
            toks.append("xk %d" % k)
            k += 1
    arms = []
    for i, (_, seg) in enumerate(srcs):
        arms.append("| %d => [%s]" % (i, "; ".join("xk %d" % (100 * (i + 1) + j) for j in range(len(seg)))))
    fn = "(fun p => match p with %s | _ => [] end)" % " ".join(arms) if arms else "(fun _ => [])"
    return ("match outcome_config %s (xexpand %d %s [%s]) with Some c => Some (c_measure c, c_timeout c, c_inter c, c_default_ds c) | None => None end"
            % ("true" if par else "false", len(srcs) + 2, fn, "; ".join(toks)))


def cap_rule(n, a):
    vs = ["c%d" % i for i in range(a)]
    return "%s(%s) <-- for (%s) in in_%s.iter();" % (n, ", ".join("*" + v for v in vs), "".join(v + ", " for v in vs), n)


def captures(line):
    return re.search(r"\bin_\w+\b", line) is not None


def packagings(rng, case, tier):
    """the packaging jobs of one case"""
    quick = tier == "quick"
    macros = ["ascent", "ascent_run"] + (["ascent_par", "ascent_run_par"] if case["par_ok"] else [])
    plan = [("paste", rng.random() < 0.5), ("first", False), ("first", True), ("first_all", False), ("first_chain", rng.random() < 0.5),
            ("first_later", rng.random() < 0.5), ("middle", rng.random() < 0.5), ("end", rng.random() < 0.5)]
    if not quick:
        plan += [("first_all", True), ("first_chain", False), ("first_chain", True), ("first_later", False), ("middle", False), ("end", False)]
    obs, inrels = observed_rels(case), input_rels(case)
    rule_lines = [dl.rust_rule(r) for r in case["tagged"]["rules"]]
    jobs = []
    for pi, (placement, sig) in enumerate(plan):
        macro = rng.choice(macros)
        par, run = macro.endswith("par"), macro.startswith("ascent_run")
        attrs, alines = choose_attrs(rng, case["provider"], par, not run)
        attrs["lines"] = alines
        items = decl_lines(case, attrs) + rule_lines
        if rng.random() < 0.5:
            rng.shuffle(items)
        if run:
            caps = [cap_rule(n, a) for n, a, _ in inrels]
            k = rng.randint(0, len(items))
            items = items[:k] + caps + items[k:]
        jid = "%s_%d%s" % (case["id"], pi, placement)
        srcs, lines, cuts, desc = place_includes(rng, jid, items, placement, hoist=captures if run else None)
        header = alines + (["pub struct Prog;"] if sig else [])
        ctor = "Prog" if sig else "AscentProgram"
        use_timeout = attrs["timeout"] and not run
        scripts, flags = [], []
        if run:
            params = ", ".join("in_%s: Vec<%s>" % (n, c09_pack.tuple_ty(a)) for n, a, _ in inrels)
            fn = "fn go(%s) -> (String, String) {\n   let p = %s;\n   (snap!(p), summ(p.scc_times_summary()))\n}" % (
                params, c09_pack.macro_call(macro, header, lines).replace("\n", "\n   "))
            mod_items = [SUMM_FN] + [b for b, _ in srcs] + [fn]
            for inp in case["inputs"]:
                args = ", ".join(c09_pack.vec_lit(inp.get(n, [])) for n, _, _ in inrels)
                scripts.append("      let (s, t) = go(%s);\n      (vec![s, t], vec![])" % args)
                flags.append([])
        else:
            mod_items = [SUMM_FN] + [b for b, _ in srcs] + [c09_pack.macro_call(macro, header, lines)]
            for si, inp in enumerate(case["inputs"]):
                body = ["let mut flags: Vec<bool> = vec![];", "let mut p = %s::default();" % ctor]
                body += c09_pack.set_fields(inrels, inp, macro=macro)
                # with #![generate_run_timeout]: run_timeout(Duration::MAX) must exist and return true (the last script uses run())
                if use_timeout and not (si == len(case["inputs"]) - 1 and si > 0):
                    body.append("flags.push(p.run_timeout(std::time::Duration::MAX));")
                    flags.append([True])
                else:
                    body.append("p.run();")
                    flags.append([])
                body.append("(vec![snap!(p), summ(p.scc_times_summary())], flags)")
                scripts.append("\n".join("      " + l for l in body))
        src = c09_pack.module_text(jid, obs, mod_items, scripts, par=par)
        jobs.append(dict(id=jid, kind="attr_" + placement, family="attrs", macro=macro, src=src, nscripts=len(scripts), desc=desc, signature=sig,
                         attrs=dict(ds=attrs["ds"], measure=attrs["measure"], timeout=attrs["timeout"], inter=attrs["inter"]), attr_lines=alines,
                         placement=placement, include_is_first_item=bool(cuts) and cuts[0][0] == 0, expect_flags=flags,
                         script_input=list(range(len(scripts))), program_text="\n".join(header + lines),
                         sources=[seg for _, seg in srcs], model_expr=model_expr(par, attrs, sig, lines, srcs), case_id=case["id"]))
    return jobs


# ------------------------------------------------------------------ oracle

def spec_of_cases(cases, tag="c09as"):
    """per case: (closure reading, plain reading) per input, each {rel: sorted tuples} or None — the specification oracle strat_fix on the
    explicit program (what the attributes demand) and on the program with every relation an ordinary one (diagnosis / non-triviality)"""
    groups, invs = [], []
    for c in cases:
        for p in (c["explicit"], c["plain"]):
            ex, inv = c10_prog.spec_exprs(p, c["inputs"])
            groups.append(ex)
            invs.append((inv, p))
    vals = lib.coq_eval_groups(tag, engine_tie.PRELUDE, groups, timeout=90)
    out = {}
    for i, c in enumerate(cases):
        both = []
        for v, (inv, p) in ((vals[2 * i], invs[2 * i]), (vals[2 * i + 1], invs[2 * i + 1])):
            if v is None:
                both.append(None)
                continue
            per = []
            for s in v:
                facts = engine_tie.decode_facts(s, inv)
                per.append(None if facts is None else {n: g[1] for n, g in engine_tie.group_facts(facts, p["rels"]).items()})
            both.append(per)
        out[c["id"]] = both
    return out


def expected_config(job):
    a = job["attrs"]
    return (bool(a["measure"]), bool(a["timeout"]), bool(a["inter"]), DS_CODE[a["ds"]])


def compare_job(case, job, res, spec, model_cfg):
    """mismatches of one packaging job.  spec = (closure reading, plain reading) of the case"""
    mism, ok, nontrivial = [], 0, 0
    closure, plainr = spec
    exp_cfg = expected_config(job)
    a = job["attrs"]
    base = dict(family="attrs", packaging=job["kind"], macro=job["macro"], detail=job["desc"], signature=job["signature"], attributes=job["attr_lines"],
                program=job["program_text"], sources=job["sources"], module_source=job["src"], job_id=job["id"], nscripts=job["nscripts"],
                expect_flags=job["expect_flags"], attrs=job["attrs"], placement=job["placement"], include_is_first_item=job["include_is_first_item"],
                model_expr=job["model_expr"], provider=case["provider"], explicit=case["explicit"], plain=case["plain"],
                observed=[list(x) for x in observed_rels(case)], inputs=case["inputs"])
    mc = None if model_cfg in (None, "None") else tuple(model_cfg[1])
    if mc != exp_cfg:
        mism.append(dict(case=dict(base, input=None), impl=None, model=dict(config=mc), spec=dict(config=exp_cfg), kind="model_differs", known=None,
                         what="Pack/PackAttrModel.v compiles packaging %s under configuration %s (measure, timeout, inter_rule, default ds), the attribute set demands %s" % (job["kind"], mc, exp_cfg)))
    how = "%s! { %s%s%s }" % (job["macro"], " ".join(job["attr_lines"]), " pub struct Prog;" if job["signature"] else "", " .. %s" % job["desc"])
    for s in range(job["nscripts"]):
        want = closure[s] if closure else None
        if want is None:
            continue
        cs = dict(base, input=case["inputs"][s], script=s)
        iv = res[s] if res else None
        what, got = None, None
        if iv is None or "snaps" not in iv:
            what = "%s did not produce a result: %s" % (how, json.dumps(iv)[:400])
            if iv and "compile_error" in iv and "run_timeout" in iv["compile_error"] and a["timeout"]:
                what = "%s: `run_timeout` does not exist although the program carries #![generate_run_timeout]: %s" % (how, iv["compile_error"][:300])
        else:
            if iv.get("flags", []) != job["expect_flags"][s]:
                what = "%s: run_timeout(Duration::MAX) returned %s, expected %s" % (how, iv.get("flags"), job["expect_flags"][s])
            snap = prog.canon_snap(iv["snaps"][0])
            for name, _, _ in observed_rels(case):
                ilen, iset = snap[name]
                if iset != want[name] or ilen != len(want[name]):
                    got = {name: dict(len=ilen, tuples=iset)}
                    what = "%s computes relation %s differently from the logical program under its attributes: %d rows, expected %d; missing %s; extra %s" % (
                        how, name, ilen, len(want[name]), [t for t in want[name] if t not in iset][:5], [t for t in iset if t not in want[name]][:5])
                    if plainr and plainr[s] is not None and a["ds"] in ("eqrel", "trrel", "trrel_uf") and all(snap[n][1] == plainr[s][n] for n, _, _ in observed_rels(case)):
                        what += " [the result is that of the program with every relation an ordinary ::ascent::rel: the program-level #![ds(%s)] was not applied]" % PROVIDERS[a["ds"]]
                    break
            sm = iv["snaps"][1]["__summary"] if len(iv["snaps"]) > 1 else None
            if what is None and sm is not None:
                if a["measure"] and (sm["sum"] != sm["scc"] or (sm["scc"] > 0 and not sm["rules"])):
                    what = "%s: scc_times_summary() has %d 'sum of rule times' lines and %d rule lines for %d SCCs although the program carries #![measure_rule_times]" % (how, sm["sum"], len(sm["rules"]), sm["scc"])
                    got = dict(summary=sm)
                elif not a["measure"] and (sm["sum"] or sm["rules"]):
                    what = "%s: scc_times_summary() reports rule times without #![measure_rule_times]" % how
                    got = dict(summary=sm)
        if what:
            mism.append(dict(case=cs, impl=got if got else iv, model=dict(config=mc), spec={n: want[n] for n, _, _ in observed_rels(case)}, kind="impl_violates_spec", known=None, what=what))
            continue
        ok += 1
        if a["measure"] or (a["timeout"] and job["expect_flags"][s]) or (plainr and plainr[s] is not None and any(plainr[s][n] != want[n] for n, _, _ in observed_rels(case))):
            nontrivial += 1
    return mism, ok, nontrivial


def model_configs(jobs, tag="c09am"):
    vals = lib.coq_eval(tag, PRELUDE, [j["model_expr"] for j in jobs])
    return {j["id"]: v for j, v in zip(jobs, vals)}


def run_family(tier, seed, build):
    """build(jobs) -> {job id: results}.  Returns (mismatches, stats)"""
    t0 = time.time()
    cases = gen_cases(tier, seed)
    rng = lib.rng_for(seed, "C09", "attrs_pack")
    jobs, owner = [], {}
    for c in cases:
        for j in packagings(rng, c, tier):
            jobs.append(j)
            owner[j["id"]] = c
    spec = spec_of_cases(cases)
    mcfg = model_configs(jobs)
    impl = build(jobs)
    mism, stats = [], dict(programs=len(cases), by_provider={}, packaging_jobs={}, macros={}, scripts_agreeing=0, scripts_where_an_attribute_is_observable=0,
                           include_first_without_signature=0, oracle_timeouts=0, model_configurations_checked=len(jobs))
    evals = 0
    for c in cases:
        stats["by_provider"][str(c["provider"])] = stats["by_provider"].get(str(c["provider"]), 0) + 1
        if spec[c["id"]][0] is None:
            stats["oracle_timeouts"] += 1
    for j in jobs:
        c = owner[j["id"]]
        m, ok, nt = compare_job(c, j, impl.get(j["id"]), spec[c["id"]], mcfg.get(j["id"]))
        mism += m
        evals += j["nscripts"]
        stats["packaging_jobs"][j["kind"]] = stats["packaging_jobs"].get(j["kind"], 0) + 1
        stats["macros"][j["macro"]] = stats["macros"].get(j["macro"], 0) + 1
        stats["scripts_agreeing"] += ok
        stats["scripts_where_an_attribute_is_observable"] += nt
        if j["include_is_first_item"] and not j["signature"]:
            stats["include_first_without_signature"] += 1
    stats["wall_s"] = round(time.time() - t0, 1)
    samples = [dict(packaging=j["kind"], macro=j["macro"], program=j["program_text"][:900], sources=j["sources"]) for j in jobs if j["include_is_first_item"]][:2]
    return mism, stats, evals, samples


def replay(cs):
    """re-run one packaging of a stored mismatch"""
    case = dict(id="c09_areplay", provider=cs["provider"], tagged=None, explicit=detuple_prog(cs["explicit"]), plain=detuple_prog(cs["plain"]),
                inputs=[{r: [tuple(t) for t in ts] for r, ts in inp.items()} for inp in cs["inputs"]])
    obs = [tuple(x) for x in cs["observed"]]
    case["tagged"] = dict(rels=obs, rules=case["plain"]["rules"])          # only observed_rels(case) is read from it below
    job = dict(id=cs["job_id"], kind=cs["packaging"], family="attrs", macro=cs["macro"], src=cs["module_source"], nscripts=cs["nscripts"], desc=cs.get("detail", ""),
               signature=cs["signature"], attrs=cs["attrs"], attr_lines=cs["attributes"], placement=cs["placement"], include_is_first_item=cs["include_is_first_item"],
               expect_flags=cs["expect_flags"], program_text=cs["program"], sources=cs["sources"], model_expr=cs["model_expr"])
    spec = spec_of_cases([case], tag="c09asr")[case["id"]]
    mcfg = model_configs([job], tag="c09amr")
    res = c09_pack.build_and_run("c09ar", [job], nbins=1)
    m, ok, nt = compare_job(case, job, res.get(job["id"]), spec, mcfg.get(job["id"]))
    return dict(evaluations=job["nscripts"], distinct_nontrivial=nt, rule="replay of one packaging (family attrs) of one program", samples=[], distribution={}, mismatches=m)


TAGS = {"v", "c", "f", "w", "if", "let", "iflet", "clause", "cond", "gen", "agg", "neg", "b", "k"}


def _detuple(x):
    if isinstance(x, list):
        if x and isinstance(x[0], str) and x[0] in TAGS:
            return tuple(_detuple(y) for y in x)
        return [_detuple(y) for y in x]
    if isinstance(x, dict):
        return {k: _detuple(v) for k, v in x.items()}
    return x


def detuple_prog(p):
    return dict(rels=[(r[0], r[1], r[2] if isinstance(r[2], str) else tuple(r[2])) for r in p["rels"]],
                rules=[dict(heads=[(h[0], _detuple(h[1])) for h in r["heads"]], body=_detuple(r["body"])) for r in p["rules"]])
