"""C15 pattern CONTEXTS: every constructor of the model's pattern syntax as a context of the variable a binder binds.

The model (coq/Check/PatCtxModel.v, `Inductive xpat`) has one constructor per arm of syn_utils.rs pattern_get_vars that
recurses.  FRAMES lists, per such constructor, the ways this generator can put it ABOVE a sub-pattern (a frame maps a
shape of gen/c15_ast.py to a shape); the table is checked against the constructors read from the .v file, so a
constructor added to the model without a frame here (or the reverse) stops the tie.  A context is a stack of frames; the
families built from it (gen/c15_gen.py mut_shadow_ctx, gen/props/c15.py ctx_cases) are
  * exhaustive at depth 1: every frame x every binder position (let / if let / for / agg / ?pattern / condition of a
    clause) x {the variable bound AGAIN sits below the context, the variable's FIRST binder does};
  * every ordered pair of model constructors at depth 2, random stacks at depth 3-4.
Typed frames are the ones whose pattern matches an expression pat_expr can build from an i32 (std types only), so that
well-formed programs using them compile with rustc; the untyped ones (made-up struct names) are for programs the macro
must reject before rustc types anything."""
import os
import re

from . import lib
from . import c15_ast as A

MODEL_FILE = os.path.join(lib.VERIF, "coq", "Check", "PatCtxModel.v")


def model_constructors():
    """{constructor: recursive?} of PatCtxModel.xpat, read from the Coq source"""
    src = open(MODEL_FILE).read()
    m = re.search(r"Inductive xpat \(V : Type\) :=(.*?)\.\nArguments", src, re.S)
    if not m:
        raise lib.Infra("gen/c15_ctx.py: cannot find `Inductive xpat` in %s" % MODEL_FILE)
    body = re.sub(r"\(\*.*?\*\)", "", m.group(1), flags=re.S)
    out = {}
    for line in body.split("|"):
        line = line.strip().rstrip(".")
        if not line:
            continue
        name = line.split()[0]
        out[name] = "xpat V" in line
    return out


class Frame:
    def __init__(self, name, con, build, typed, same_type=False, leaf_only=False):
        self.name, self.con, self.build, self.typed, self.same_type, self.leaf_only = name, con, build, typed, same_type, leaf_only

    def __repr__(self):
        return "Frame(%s)" % self.name


H, W, L, REST = A.HOLE, A.WILD, ("lit",), ("rest",)


def _p(s):
    """a sub-pattern that needs parentheses where a single pattern is expected"""
    return ("paren", s) if s[0] == "or" else s


def _pr(s):
    """below &: `&mut x` would be a pattern for a mutable reference, `&(mut x)` binds a mutable x"""
    if s[0] in ("hole", "var") and str(s[-1]).startswith("mut") and len(s) > (1 if s[0] == "hole" else 2):
        return ("paren", s)
    return _p(s)


def _is_leaf(s):
    return s[0] == "hole" and len(s) == 1


FRAME_LIST = [
    # x @ p: the name on top is NOT the variable of the binder
    Frame("at", "XAt", lambda s, fr: ("atn", fr(), _p(s)), True, same_type=True),
    Frame("at_at", "XAt", lambda s, fr: ("atn", fr(), ("atn", fr(), _p(s))), True, same_type=True),
    Frame("paren", "XParen", lambda s, fr: ("paren", s), True, same_type=True),
    Frame("ref", "XRef", lambda s, fr: ("ref", _pr(s)), True),
    Frame("tuple_first", "XTuple", lambda s, fr: ("tuple", [s, W]), True),
    Frame("tuple_last", "XTuple", lambda s, fr: ("tuple", [W, s]), True),
    Frame("tuple_lit", "XTuple", lambda s, fr: ("tuple", [L, s]), False),                            # refutable
    Frame("tuple1", "XTuple", lambda s, fr: ("tuple", [s]), True),
    Frame("tuple_named", "XTuple", lambda s, fr: ("tuple", [("var", fr()), s, ("var", fr(), "mut")]), True),
    Frame("tuple_rest", "XTuple", lambda s, fr: ("tuple", [s, REST]), True),
    Frame("slice", "XSlice", lambda s, fr: ("slice", [s, W]), True),
    Frame("slice_rest", "XSlice", lambda s, fr: ("slice", [REST, s]), True),
    Frame("slice_named", "XSlice", lambda s, fr: ("slice", [("var", fr()), s]), True),
    Frame("tstruct", "XTupleStruct", lambda s, fr: ("tstruct", "std::num::Wrapping", [s]), True),
    Frame("tstruct_some", "XTupleStruct", lambda s, fr: ("tstruct", "Some", [s]), False),          # refutable: typed in if let only
    Frame("tstruct2", "XTupleStruct", lambda s, fr: ("tstruct", "C15T", [W, s]), False),
    Frame("struct", "XStruct", lambda s, fr: ("struct", "std::ops::RangeTo", [("end", s)], False), True),
    Frame("struct_open", "XStruct", lambda s, fr: ("struct", "C15S", [("f", s)], True), False),
    Frame("struct_fields", "XStruct", lambda s, fr: ("struct", "C15S", [("g", ("var", fr())), ("f", s)], False), False),
    Frame("struct_shorthand", "XStruct", lambda s, fr: ("struct", "C15S", [(None, s)], True), False, leaf_only=True),
    Frame("or", "XOr", lambda s, fr: ("or", [s, s]), True, same_type=True),
    Frame("or3", "XOr", lambda s, fr: ("or", [s, ("paren", s), s]), True, same_type=True),
]
# model constructor -> frames; None: the arm exists in pattern_get_vars but no program text reaches it
FRAMES = {}
for _f in FRAME_LIST:
    FRAMES.setdefault(_f.con, []).append(_f)
FRAMES["XType"] = None      # Pat::Type is produced for `let p: T` statements and closure arguments only, never by Pat::parse_multi
BY_NAME = {f.name: f for f in FRAME_LIST}
# leaves: the variable itself in the ways Pat::Ident can be written
LEAVES = {"ident": H, "ref": ("hole", "ref"), "mut": ("hole", "mut"), "ref_mut": ("hole", "ref mut"), "at_wild": ("at", W), "at_lit": ("at", L)}
TYPED_LEAVES = ["ident", "mut", "at_wild"]


def check_against_model():
    cons = model_constructors()
    rec = sorted(c for c, r in cons.items() if r)
    if rec != sorted(FRAMES):
        raise lib.Infra("gen/c15_ctx.py FRAMES %s does not cover the recursive constructors of PatCtxModel.xpat %s" % (sorted(FRAMES), rec))
    return rec


class Fresh:
    """names for the other variables of a pattern: unique inside a program"""

    def __init__(self, tag=""):
        self.n, self.tag = 0, tag

    def __call__(self):
        self.n += 1
        return "c15w%s%d" % (self.tag, self.n)


def compose(frames, leaf, fresh, typed=False):
    """the shape of the context `frames` (outermost first) around the leaf; typed: a top-level or-pattern is parenthesised
    (Rust's `let` and closure parameters take no top-level alternatives)"""
    s = leaf
    for f in reversed(frames):
        if f.leaf_only and not (s[0] == "hole"):
            f = BY_NAME["struct_open"]
        if f.con == "XOr" and s[0] == "or":
            s = ("paren", s)             # a | b | c | d would be ONE or-pattern
        s = f.build(s, fresh)
    if typed and s[0] == "or":
        s = ("paren", s)
    return s


def frames_for(form, typed):
    """the frames that may stand at the top of a binder of this position"""
    if not typed:
        return list(FRAME_LIST)
    fs = [f for f in FRAME_LIST if f.typed]
    if form in ("agg", "pattern"):
        return [f for f in fs if f.same_type]
    if form in ("iflet", "gen"):
        return [f for f in fs if f.name != "ref"]       # the value is built inside a closure: no reference to it
    return fs


def random_context(rng, form, typed, depth=None):
    """(frames, leaf name): a random stack of frames for a binder position"""
    depth = depth or rng.choice([1, 1, 2, 2, 3, 4])
    fs = frames_for(form, typed)
    frames = [rng.choice(fs) for _ in range(depth)]
    if typed:
        # at most one & (a reference to a temporary inside a tuple does not outlive the statement in every position)
        seen = False
        for i, f in enumerate(frames):
            if f.name == "ref":
                if seen:
                    frames[i] = BY_NAME["paren"]
                seen = True
    leaf = rng.choice(TYPED_LEAVES if typed else sorted(LEAVES))
    return frames, leaf


def context_name(frames, leaf):
    return "ctx:" + "/".join(f.name for f in frames) + ":" + leaf
