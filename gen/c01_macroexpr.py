"""C01 family "expressions written through Rust macro invocations" (a RENDERING variant of core programs).

The vocabulary of gen/dl.py (incs / addm / lt / ne / predpos / upto ...) is rendered by gen/dl.py with plain Rust operators.  Here the
SAME core program is rendered a second and third time with every (or every other) condition, let binding, if-let scrutinee, generator and
head argument written through `matches!`, `vec![..]`, `format!(..)`: the meaning of each expression stays inside the vocabulary, so
the Coq model / the naive_fix specification of the base program apply unchanged, but the macro's own free-variable walker
(ascent_macro/src/syn_utils.rs expr_visit_free_vars: `Expr::Macro` reports NO variables) sees none of the variables these expressions use.
Any analysis of the code generator that asks "is this variable used by ..." gets the wrong answer on such programs.

The base program (plain rendering) goes through the full engine tie (FRONT plan dump -> Engine/Eval.v, Engine/Validate.v, naive_fix);
the macro renderings are PROG-only (real macro + rustc) and EVERY relation after run() is compared with the base program's
specification answer (the least model computed by Engine/Sem.v naive_fix), never with the output of the plain rendering.

Base programs: (a) "semi-join" rules - a key clause, then target clauses whose newly bound variables are used ONLY by conditions
(attached or later), let / if-let / for items and head expressions, never as a join key, over inputs with several rows per join key in
both orders (each input also reversed: whichever row is first in a posting list, some list starts with a row that fails the condition);
recursive variants (reach(y) <-- reach(x), link(x, y), t(y, s), if P(s)); (b) random core programs of gen/gen_dl.py with many conditions.

One shape is NOT rendered through macros (found by this family on the unchanged /repo, outside C01's quantifier because the program does
not compile): `h(..) <-- a(x, w), t(x, y) if matches!(*y < *w, true)` - a condition attached to the second of the first two clauses
that mentions a variable bound only by the FIRST clause, inside a macro invocation.  ascent_hir.rs compile_rule_to_ir_rule decides
"simple join" (the two clauses may be evaluated in either order) from expr_get_vars of the attached conditions, sees no variable, and the
reordered variant of the rule evaluates the condition before `w` is bound: rustc E0425 "cannot find value `w` in this scope".  Written
plainly (`if *y < *w`) the same program compiles (the join is not taken for simple).  r_item writes exactly those conditions plainly
and counts them (stats 'conditions_written_plainly_simple_join_scope')."""
import copy
import json

from . import dl, engine_tie, gen_dl, lib, prog

# ------------------------------------------------------------------ the vocabulary once more, through macro invocations
# every occurrence of an argument ($0, $1) sits inside the token tree of a macro invocation

MFUNS = {
    "incs": ["vec![$0 + 1, 7].into_iter().min().unwrap()", "vec![$0, 1].iter().sum::<i32>().min(7)", "std::cmp::min(vec![$0][0] + 1, 7)"],
    "addm": ["vec![$0, $1].iter().sum::<i32>().rem_euclid(7)", "format!(\"{}\", $0 + $1).parse::<i32>().unwrap().rem_euclid(7)"],
    "mod3": ["vec![$0][0].rem_euclid(3)", "vec![($0).rem_euclid(3)][0]"],
    "decs": ["vec![$0 - 1, 0].into_iter().max().unwrap()", "if matches!($0, v if v > 0) { vec![$0][0] - 1 } else { 0 }"],
    "max2": ["vec![$0, $1].into_iter().max().unwrap()", "if matches!($0 < $1, true) { vec![$1][0] } else { vec![$0][0] }"],
    "asi32": ["vec![$0 as i32][0]"],
}
MPREDS = {
    "lt": ["matches!(($0).cmp(&($1)), std::cmp::Ordering::Less)", "matches!($0 < $1, true)", "!matches!(($0).cmp(&($1)), std::cmp::Ordering::Greater | std::cmp::Ordering::Equal)"],
    "ne": ["!matches!($0 == $1, true)", "matches!(($0, $1), (a, b) if a != b)", "matches!(($0).cmp(&($1)), std::cmp::Ordering::Less | std::cmp::Ordering::Greater)"],
    "even": ["matches!(($0).rem_euclid(2), 0)", "matches!($0, v if v.rem_euclid(2) == 0)", "!matches!(($0).rem_euclid(2), 1)"],
    "le": ["matches!(($0).cmp(&($1)), std::cmp::Ordering::Less | std::cmp::Ordering::Equal)", "!matches!($0 > $1, true)", "matches!(vec![$0, $1].iter().min(), Some(m) if *m == $0)"],
}
MPARTIALS = {
    "predpos": ["vec![$0].into_iter().filter(|v| *v > 0).map(|v| v - 1).next()", "if matches!($0, v if v > 0) { Some(vec![$0 - 1][0]) } else { None }"],
    "half": ["vec![$0].into_iter().filter(|v| v.rem_euclid(2) == 0).map(|v| v / 2).next()", "if matches!(($0).rem_euclid(2), 0) { Some(vec![$0 / 2][0]) } else { None }"],
}
MGENS = {
    "upto": ["0..vec![$0, 4].into_iter().min().unwrap()", "0..std::cmp::min(vec![$0][0], 4)"],
    "pair": ["vec![$0, $1]", "vec![$0].into_iter().chain(vec![$1])"],
    "range3": ["vec![0i32, 1, 2]", "0..3i32"],
}
MIDENT = ["vec![$0][0]", "format!(\"{}\", $0).parse::<i32>().unwrap()", "vec![$0].into_iter().sum::<i32>()"]


class Style:
    """which occurrences are written through a macro: mode 'all' = every one, 'mixed' = a coin per occurrence"""

    def __init__(self, rng, mode):
        self.rng, self.mode = rng, mode
        self.nmacro = 0
        self.forced_plain = 0

    def through_macro(self):
        return self.mode == "all" or (self.mode == "mixed" and self.rng.random() < 0.5)

    def tmpl(self, mtable, ptable, name):
        if self.through_macro():
            self.nmacro += 1
            return self.rng.choice(mtable[name])
        return ptable[name][2]

    def ident(self):
        if self.through_macro():
            self.nmacro += 1
            return self.rng.choice(MIDENT)
        return None


PLAIN = Style(None, "plain")


def _fun(st, name, args, kinds):
    return dl._subst(st.tmpl(MFUNS, dl.FUNS, name), [kinds.use(x) for x in args])


def r_cond(c, kinds, st):
    if c[0] == "if":
        return "if " + dl._subst(st.tmpl(MPREDS, dl.PREDS, c[1]), [kinds.use(x) for x in c[2]])
    if c[0] == "let":
        s = "let %s = %s" % (c[1], _fun(st, c[2], c[3], kinds))
        kinds.val(c[1])
        return s
    if c[0] == "letc":
        kinds.val(c[1])
        return "let %s = %di32" % (c[1], c[2])
    if c[0] == "iflet":
        s = "if let Some(%s) = %s" % (c[1], dl._subst(st.tmpl(MPARTIALS, dl.PARTIALS, c[2]), [kinds.use(x) for x in c[3]]))
        kinds.val(c[1])
        return s
    raise ValueError(c)


def cond_uses(c):
    return set(c[2]) if c[0] == "if" else (set() if c[0] == "letc" else set(c[3]))


def r_item(it, kinds, st, second_of_join=False):
    if it[0] == "clause":
        args = []
        for t in it[2]:
            if t[0] == "f":
                args.append(_fun(st, t[1], t[2], kinds))
            else:
                args.append(dl.rust_term(t, kinds))
            if t[0] == "v":
                kinds.ref(t[1])
        s = "%s(%s)" % (it[1], ", ".join(args))
        own = {t[1] for t in it[2] if t[0] == "v"}
        for c in it[3]:
            # OUTSIDE C01's quantifier (the program does not compile), see the module docstring: a condition attached to the second of
            # the first two clauses that mentions a variable of the FIRST clause only inside a macro invocation makes ascent_hir.rs
            # take the two clauses for a reorderable "simple join" (expr_get_vars sees no variable) and the reordered variant of the
            # rule evaluates the condition where that variable is not in scope (rustc E0425).  Such a condition is written plainly.
            # (until the repair 5dae626 in /repo such a condition had to be written plainly: the program did not compile; it is now
            # rendered like every other one and counted as regression coverage of that repair)
            if second_of_join and not cond_uses(c) <= own:
                st.forced_plain += 1
            s += " " + r_cond(c, kinds, st)
            if c[0] != "if":
                own.add(c[1])
        return s
    if it[0] == "cond":
        return r_cond(it[1], kinds, st)
    if it[0] == "gen":
        s = "for %s in %s" % (it[1], dl._subst(st.tmpl(MGENS, dl.GENS, it[2]), [kinds.use(x) for x in it[3]]))
        kinds.val(it[1])
        return s
    raise ValueError(it)


def r_rule(r, st):
    kinds = dl.Kinds()
    fc = next((i for i, it in enumerate(r["body"]) if it[0] == "clause"), None)
    body = [r_item(it, kinds, st, second_of_join=(fc is not None and i == fc + 1 and it[0] == "clause")) for i, it in enumerate(r["body"])]
    heads = []
    for rel, args in r["heads"]:
        out = []
        for t in args:
            if t[0] == "v":
                idt = st.ident()
                out.append(dl._subst(idt, [kinds.use(t[1])]) if idt else t[1])
            elif t[0] == "f":
                out.append(_fun(st, t[1], t[2], kinds))
            else:
                out.append(dl.rust_term(t, kinds, in_expr=True))
        heads.append("%s(%s)" % (rel, ", ".join(out)))
    if not body:
        return "%s;" % ", ".join(heads)
    return "%s <-- %s;" % (", ".join(heads), ", ".join(body))


def render(p, rng, mode):
    """the program text (between the braces of ascent!{}) with the expressions written through macros; (text, #macro occurrences)"""
    st = Style(rng, mode)
    lines = [dl.rust_decl(n, a, k) for (n, a, k) in p["rels"]] + [r_rule(r, st) for r in p["rules"]]
    return "\n".join(lines), st.nmacro, st.forced_plain


# ------------------------------------------------------------------ base programs

DOM = gen_dl.DOM
PRED1 = ["even"]
PRED2 = ["lt", "ne", "le"]
FUN1 = ["incs", "mod3", "decs"]
FUN2 = ["addm", "max2"]


class SemiRule:
    """head(..) <-- key clause(s), target clause(s) binding NEW variables that only expressions use, uses of those variables"""

    def __init__(self, rng):
        self.rng = rng
        self.nv = 0
        self.keys, self.news, self.vals = [], [], []      # join-key variables / variables bound by target clauses / let-bound
        self.body = []

    def fresh(self, p="x"):
        self.nv += 1
        return "%s%d" % (p, self.nv)

    def pred(self, y, others):
        rng = self.rng
        if others and rng.random() < 0.6:
            a = [y, rng.choice(others)]
            rng.shuffle(a)
            return ("if", rng.choice(PRED2), a)
        return ("if", "even", [y])

    def fun(self, y, others):
        rng = self.rng
        if others and rng.random() < 0.5:
            a = [y, rng.choice(others)]
            rng.shuffle(a)
            return (rng.choice(FUN2), a)
        return (rng.choice(FUN1), [y])

    def target(self, rel):
        """a clause of `rel` joined on bound key variables (or constants), the other columns new variables / wildcards"""
        rng = self.rng
        name, arity, _ = rel
        npos = list(range(arity))
        rng.shuffle(npos)
        nkey = 1 if arity == 2 or rng.random() < 0.6 else 2
        if not self.keys:
            nkey = rng.choice([0, 1])
        args, here = [None] * arity, []
        for j, pos in enumerate(npos):
            if j < nkey:
                args[pos] = ("v", rng.choice(self.keys)) if self.keys and rng.random() < 0.85 else ("c", rng.choice(DOM[:3]))
            else:
                u = rng.random()
                if u < 0.75 or not here and j == arity - 1:
                    y = self.fresh("y")
                    here.append(y)
                    args[pos] = ("v", y)
                elif u < 0.9:
                    args[pos] = ("w",)
                else:
                    args[pos] = ("c", rng.choice(DOM[:3]))
        conds = []
        used = set()
        scope = self.keys + self.vals + self.news
        for y in here:
            if rng.random() < 0.4:
                conds.append(self.pred(y, [v for v in scope + here if v != y]))
                used.add(y)
        self.body.append(("clause", name, args, conds))
        self.news += here
        return here, used

    def use_later(self, y, used):
        """items after the clause that bound y which mention y only inside expressions"""
        rng = self.rng
        others = [v for v in self.keys + self.vals + self.news if v != y]
        u = rng.random()
        if u < 0.35 or (y not in used and u < 0.45):
            self.body.append(("cond", self.pred(y, others)))
        elif u < 0.55:
            z = self.fresh("z")
            f, a = self.fun(y, others)
            self.body.append(("cond", ("let", z, f, a)))
            self.vals.append(z)
            if rng.random() < 0.5:
                self.body.append(("cond", self.pred(z, others)))
        elif u < 0.67:
            z = self.fresh("z")
            self.body.append(("cond", ("iflet", z, rng.choice(["predpos", "half"]), [y])))
            self.vals.append(z)
        elif u < 0.75:
            z = self.fresh("z")
            if others and rng.random() < 0.5:
                self.body.append(("gen", z, "pair", [y, rng.choice(others)]))
            else:
                self.body.append(("gen", z, "upto", [y]))
            self.vals.append(z)
        else:
            return False
        return True

    def head(self, rel, force=None):
        rng = self.rng
        name, arity, _ = rel
        args = []
        for i in range(arity):
            if force and i == 0:
                args.append(("v", force))
                continue
            u = rng.random()
            cands = self.keys + self.vals
            if u < 0.45 and cands:
                args.append(("v", rng.choice(cands)))
            elif u < 0.65 and self.news:
                y = rng.choice(self.news)
                f, a = self.fun(y, [v for v in self.keys + self.vals + self.news if v != y])
                args.append(("f", f, a))
            elif u < 0.85 and self.news:
                args.append(("v", rng.choice(self.news)))       # written through an identity macro by the 'all' rendering
            elif cands:
                args.append(("v", rng.choice(cands)))
            else:
                args.append(("c", rng.choice(DOM)))
        return (name, args)


KEYRELS = [("k1", 1, "rel"), ("k2", 2, "rel")]
TARGETS = [("t2", 2, "rel"), ("t3", 3, "rel"), ("u2", 2, "rel")]
OUTS = [("o1", 1, "rel"), ("o2", 2, "rel")]
REC = [("reach", 1, "rel"), ("link", 2, "rel")]


def gen_semi_program(rng):
    rules = []
    recursive = rng.random() < 0.4
    nrules = rng.choice([1, 2, 2, 3])
    for k in range(nrules):
        g = SemiRule(rng)
        rec_rule = recursive and k == 0
        u = rng.random()
        if rec_rule:
            x0, x = g.fresh(), g.fresh()
            la = [("v", x0), ("v", x)]
            g.body += [("clause", "reach", [("v", x0)], []), ("clause", "link", la, [])]
            g.keys += [x] if rng.random() < 0.7 else [x, x0]
        elif u < 0.5:
            x = g.fresh()
            g.body.append(("clause", "k1", [("v", x)], []))
            g.keys.append(x)
        elif u < 0.8:
            x, w = g.fresh(), g.fresh()
            g.body.append(("clause", "k2", [("v", x), ("v", w)], []))
            g.keys += [x, w]
        elif u < 0.9:
            x = g.fresh()
            g.body.append(("cond", ("letc", x, rng.choice(DOM[:3]))) if rng.random() < 0.6 else ("gen", x, "range3", []))
            g.keys.append(x)
        # else: the target clause is the first clause of the rule (all of its variables are new)
        for _ in range(rng.choice([1, 1, 1, 2])):
            here, used = g.target(rng.choice(TARGETS))
            if rng.random() < 0.25 and g.keys:
                kx = rng.choice(g.keys)       # a clause over the keys only between the target clause and the uses of its variables
                g.body.append(("clause", "k1", [("v", kx)], []) if rng.random() < 0.5 else ("clause", "k2", [("v", kx), ("w",)], []))
            for y in here:
                if g.use_later(y, used):
                    used.add(y)
        if rec_rule:
            h = g.head(REC[0], force=g.keys[0])
        else:
            h = g.head(rng.choice(OUTS + ([REC[0]] if recursive and rng.random() < 0.3 else [])))
        heads = [h]
        if rng.random() < 0.15:
            heads.append(g.head(rng.choice(OUTS)))
        rules.append(dict(heads=heads, body=g.body))
    if recursive and rng.random() < 0.5:
        rules.append(dict(heads=[("o1", [("v", "x")])], body=[("clause", "reach", [("v", "x")], [])]))     # a later stratum reads the result
    used_rels = set()
    for r in rules:
        hs, bs = engine_tie.rule_rels(r)
        used_rels |= set(hs) | set(bs)
    rels = [r for r in KEYRELS + TARGETS + REC + OUTS if r[0] in used_rels]
    rng.shuffle(rules)
    return dict(rels=rels, rules=rules, shape="mx_semijoin_rec" if recursive else "mx_semijoin")


def semi_inputs(rng, p):
    """several rows per join key in every target relation; the second input is the first with every row list reversed"""
    inp = {}
    for name, arity, _ in p["rels"]:
        if name in ("o1", "o2"):
            inp[name] = []
        elif name == "k1":
            inp[name] = [(v,) for v in rng.sample(DOM, rng.choice([3, 4, 5]))]
        elif name == "k2":
            inp[name] = list(dict.fromkeys((rng.choice(DOM), rng.choice(DOM)) for _ in range(rng.choice([4, 6, 8]))))
        elif name == "reach":
            inp[name] = [(v,) for v in rng.sample(DOM[:3], rng.choice([1, 2]))]
        elif name == "link":
            start = rng.choice([0, 1])
            ts = [(v, v + 1) for v in range(start, 5)] + [(rng.choice(DOM), rng.choice(DOM)) for _ in range(rng.choice([0, 2, 3]))]
            inp[name] = list(dict.fromkeys(ts))
        else:
            ts = []
            for key in rng.sample(DOM, rng.choice([3, 4, 6])):
                for _ in range(rng.choice([2, 3, 4])):
                    rest = [rng.choice(DOM) for _ in range(arity - 1)]
                    pos = rng.randrange(arity) if rng.random() < 0.3 else 0
                    ts.append(tuple(rest[:pos] + [key] + rest[pos:]))
            rng.shuffle(ts)
            inp[name] = list(dict.fromkeys(ts))
    rev = {k: list(reversed(v)) for k, v in inp.items()}
    return [inp, rev]


FREE_OPTS = dict(p_clause_cond=0.55, p_clause=0.5, p_leading_binder=0.08, p_binder_join=0.05, nrules=[1, 2, 3, 3, 4], p_multihead_recursive=0.15)


def gen_cases(tier, seed, prop="C01"):
    """engine cases (dict(id, prog, inputs, styles)) carrying their macro renderings in 'mx_variants' = [(kind, text)]"""
    rng = lib.rng_for(seed, prop, "macroexpr")
    n = 15 if tier == "quick" else 90
    cases = []
    for i in range(n):
        if i % 3 != 2:
            p = gen_semi_program(rng)
            inputs = semi_inputs(rng, p)
            styles = ["mx_rows_per_key", "mx_rows_per_key_reversed"]
        else:
            p = gen_dl.gen_program(rng, FREE_OPTS)
            p["shape"] = "mx_free_" + p["shape"]
            inp, _ = gen_dl.gen_input(rng, p["rels"], style=rng.choice(["dense", "mixed"]))
            inputs = [inp, {k: list(reversed(v)) for k, v in inp.items()}]
            styles = ["mx_dense", "mx_dense_reversed"]
        variants, nforced = [], 0
        for mode in (["all", "mixed"] if tier == "quick" else ["all", "all", "mixed"]):
            text, nm, fp = render(p, rng, mode)
            nforced += fp
            if nm:
                variants.append(("expressions through macro invocations (%s)" % mode, text))
        cases.append(dict(id="c01_mx_%d" % i, prog=p, inputs=inputs, styles=styles, mx_variants=variants, mx_forced_plain=nforced))
    return cases


# ------------------------------------------------------------------ the variants against the base program's specification answer

def macro_only_vars(p):
    """per rule: the clause-bound variables whose every use after their binding occurrence is inside an expression (coverage count)"""
    n = 0
    for r in p["rules"]:
        bound_plain, seen = set(), set()
        for it in r["body"]:
            if it[0] == "clause":
                for t in it[2]:
                    if t[0] == "v":
                        if t[1] in seen:
                            bound_plain.add(t[1])
                        seen.add(t[1])
        n += len([v for v in seen if v not in bound_plain])
    return n


def run_variants(results, tag="c01mx"):
    """results: engine_tie.run results of cases carrying 'mx_variants'.  Returns (mismatches, stats)."""
    jobs, meta = [], {}
    for r in results:
        c = r["case"]
        if not c.get("mx_variants") or r.get("skipped") or not r["spec"]:
            continue
        for k, (kind, text) in enumerate(c["mx_variants"]):
            jid = "%s_v%d" % (c["id"], k)
            jobs.append(dict(id=jid, text=text, macro="ascent", rels=c["prog"]["rels"], scripts=[[("set", inp), ("run",), ("snap",)] for inp in c["inputs"]]))
            meta[jid] = (r, kind, text)
    impl = prog.build_and_run(tag, jobs) if jobs else {}
    mism = []
    stats = dict(base_programs=len({m[0]["case"]["id"] for m in meta.values()}), variants=len(meta), runs=0, runs_deriving=0, kinds={}, macro_only_clause_variables=0)
    stats["conditions_written_plainly_simple_join_scope"] = 0
    for r in {id(m[0]): m[0] for m in meta.values()}.values():
        stats["macro_only_clause_variables"] += macro_only_vars(r["case"]["prog"])
        stats["conditions_written_plainly_simple_join_scope"] += r["case"].get("mx_forced_plain", 0)
    for jid, (r, kind, text) in meta.items():
        c = r["case"]
        rels = c["prog"]["rels"]
        stats["kinds"][kind] = stats["kinds"].get(kind, 0) + 1
        for k, inp in enumerate(c["inputs"]):
            spec = r["spec"][k]
            if spec is None:
                continue
            sg = engine_tie.group_facts(spec, rels)
            res = impl.get(jid)
            iv = res[k] if res else None
            cs = dict(id=jid, base_program=r["text"], variant=kind, variant_program=text, input=inp,
                      prog_ast=dict(rels=rels, rules=c["prog"]["rules"]))
            if iv is None or "snaps" not in iv:
                mism.append(dict(case=cs, impl=iv, model=None, spec=None, kind="impl_violates_spec", known=None,
                                 what="the program with its expressions written through macro invocations (%s) did not produce a result: %s" % (kind, json.dumps(iv)[:300])))
                continue
            stats["runs"] += 1
            if len(spec) > sum(len(v) for v in inp.values()):
                stats["runs_deriving"] += 1
            isnap = prog.canon_snap(iv["snaps"][-1])
            for name, _, _ in rels:
                ilen, iset = isnap[name]
                exp = sg[name][1]
                if iset != exp or ilen != len(exp):
                    miss = [t for t in exp if t not in iset]
                    extra = [t for t in iset if t not in exp]
                    mism.append(dict(case=cs, impl={name: dict(len=ilen, tuples=iset)}, model=None, spec={name: exp}, kind="impl_violates_spec", known=None,
                                     what="relation %s after run() of the program whose expressions are written through macro invocations (%s): %d rows; missing from the least model %s; not derivable %s"
                                          % (name, kind, ilen, miss[:5], extra[:5])))
                    break
    return mism, stats


def replay_case(case, decode):
    """re-run one stored mismatch: the base program (full engine tie -> specification answer) and the stored variant text"""
    c = decode(dict(prog=case["prog_ast"], inputs=[case["input"]]), "replay_mx")
    c["mx_variants"] = [(case["variant"], case["variant_program"])]
    results = engine_tie.run("C01", [c], tag="c01mxr")
    mism = []
    for r in results:
        mism += engine_tie.compare_case(r)
    m2, st = run_variants(results, tag="c01mxr")
    return mism + m2, st


RULE = ("base programs x 2 inputs, each rendered 2-3 more times with its conditions / let / if-let / for expressions, clause-argument expressions and head arguments "
        "written through Rust macro invocations of the same meaning (matches!, vec![], format!; 'all' = every occurrence, 'mixed' = a coin per occurrence): "
        "2/3 'semi-join' programs (key clause, then target clauses whose new variables are used only by expressions - attached / later conditions, let, if-let, "
        "for, head expressions, head variables through an identity macro -, recursive reach/link variants, inputs with 2-4 rows per join key, each input also "
        "with all row lists reversed), 1/3 random core programs with many conditions on dense inputs; every relation of every rendering after run() vs the base "
        "program's least model (Engine/Sem.v naive_fix); the base rendering itself goes through the full engine tie")
