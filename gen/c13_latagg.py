"""C13, lattices WITH aggregation / negation — re-run histories of the lattice + aggregate family of gen/c04_lat.py.

A lattice relation d(x, y, L) is raised over many iterations of a recursive stratum; a higher stratum counts / sums /
negates it through every index shape the planner produces (bound first column, bound second column, no index, key
index, a second unary-key lattice).  What a program value carries from run() to run() is its rows AND its stored
index fields; a lattice index that lists a raised row more than once at the END of a run and once after the rebuild at
the START of the next one makes the second run() derive another aggregate value: `run(); run()` changes a relation.

Histories (every program x every input; serial `ascent!` and `ascent_par!` with a pool of 3):
    A   set; run; run                      snapshot 1, 2 = the oracle of gen/c04_lat.py on the input; 2 == 1
    B   set; run; push edges; run; run     snapshot 1 = oracle(input); snapshot 2: the relations that do not depend on an
                                           aggregate / negation (the aggregate-free strata: C13's second sentence) = oracle
                                           (input + pushed edges), the aggregating relations are NOT compared with a fresh
                                           run (C13 demands only idempotence of programs with aggregation: stale aggregate
                                           results stay), only with the model; snapshot 3 == snapshot 2
`==` between the snapshots of two consecutive runs: every relation the same multiset of rows (so the same set, equal lattice
values, no row appended).
Model column: coq/LatEngine/LatAggRerunScript.v lat_agg_script (LatAggEval.arun_plan run through the same history on the
plan dumped by the real front end; translation of gen/c04_latmodel.py), serial rows compared as multisets.  Theorem tied:
Props/C13.v c13_lattice_agg_idempotent (LatEngine/LatAggRerun.v).

    run(tier, seed) -> dict(mismatches, evaluations, distinct, distribution, rule, extra)"""
import json
import re

from . import c04_lat, c04_latmodel, dl, lib, prog

FUEL = 400
PRELUDE = c04_latmodel.PRELUDE.replace("Import ListNotations.", "From AV Require Import LatEngine.LatAggRerunScript.\nImport ListNotations.", 1)


# ------------------------------------------------------------------ cases

def agg_free_relations(text, rels):
    """relations whose rows do not depend (transitively) on a rule with an aggregate / negation"""
    rules = []
    for line in text.splitlines():
        if "<--" not in line:
            continue
        head, body = line.split("<--", 1)
        hrel = head.strip().split("(")[0].strip()
        rules.append((hrel, body))
    tainted = set()
    changed = True
    while changed:
        changed = False
        for hrel, body in rules:
            if hrel in tainted:
                continue
            reads = set(re.findall(r"([A-Za-z_]\w*)\s*\(", body))
            if re.search(r"\bagg\b", body) or "!" in body or reads & tainted:
                tainted.add(hrel)
                changed = True
    return [n for n, _, _ in rels if n not in tainted]


def gen_push(rng, case, inp):
    """edges to push after the first run: new (x, y, w) rows over the nodes of the input (+ one new node); biased to edges that
    IMPROVE existing rows of d in the second run (a cheap / rich step between nodes that are already connected)"""
    lat = case["lat"]
    nodes = sorted({x for x, _, _ in inp["edge"]} | {y for _, y, _ in inp["edge"]}) or [0, 1]
    have = set(inp["edge"])
    out = []
    for _ in range(rng.choice([1, 2, 3])):
        for _ in range(8):
            x = rng.choice(nodes)
            y = rng.choice(nodes + [max(nodes) + 1])
            w = rng.choice([1, 1, 2] if lat == "dual" else [3, 4, 7])
            if (x, y, w) not in have:
                have.add((x, y, w))
                out.append((x, y, w))
                break
    return out


def cases(tier, seed):
    """the programs + inputs of gen/c04_lat.py (a draw of C13's own: seed + 13) and the fixed probes of gen/c04_latmodel.py
    (no python oracle for the probes: idempotence and model only)"""
    rng = lib.rng_for(seed, "C13", "lat_agg")
    out = []
    base = c04_lat.cases(tier, seed + 13)
    if tier == "quick":
        base = base[:6]
    for c in load_corpus() + base + c04_latmodel.probes():
        c = dict(c, id=c["id"].replace("c04lat", "c13la"))
        c["free"] = agg_free_relations(c["text"], c["rels"])
        c["pushes"], c["expected_push"] = [], []
        for inp in c["inputs"]:
            f = gen_push(rng, c, inp)
            e2 = None
            if "expected" in c:
                e2 = c04_lat.oracle(c, {"edge": list(inp["edge"]) + f, "node": list(inp["node"])})
                if e2 is None:
                    f, e2 = [], c04_lat.oracle(c, inp)
            c["pushes"].append(f)
            c["expected_push"].append(e2)
        out.append(c)
    return out


def load_corpus():
    """corpus/C13.jsonl entries of family "latagg" (run with the generated cases): dict(name, text, rels, lat, cap, inputs, consumers)
    in the vocabulary of gen/c04_lat.py; the expectation is computed by its oracle"""
    import os
    path = os.path.join(lib.VERIF, "corpus", "C13.jsonl")
    out = []
    if os.path.exists(path):
        for k, l in enumerate(open(path)):
            if not l.strip():
                continue
            c = json.loads(l)
            if c.get("family") != "latagg":
                continue
            rels = [(n, a, tuple(kd) if isinstance(kd, list) else kd) for n, a, kd in c["rels"]]
            inputs = [{r: [tuple(t) for t in rows] for r, rows in inp.items()} for inp in c["inputs"]]
            case = dict(id="c04lat_corpus_%d" % k, text=c["text"], rels=rels, lat=c["lat"], cap=c["cap"], inputs=inputs, consumers=c.get("consumers", []), note=c.get("note"))
            case["expected"] = [c04_lat.oracle(case, inp) for inp in inputs]
            if any(e is None for e in case["expected"]):
                raise lib.Infra("corpus/C13.jsonl line %d: the oracle of gen/c04_lat.py does not converge" % (k + 1))
            out.append(case)
    return out


def histories(case, k):
    inp, f = case["inputs"][k], case["pushes"][k]
    hs = [("rerun", [("set", inp), ("run",), ("run",)])]
    if f:
        hs.append(("push_rerun", [("set", inp), ("run",), ("push", {"edge": f}), ("run",), ("run",)]))
    return hs


def impl_script(h):
    out = []
    for st in h:
        out.append(st)
        if st[0] == "run":
            out.append(("snap",))
    return out


# ------------------------------------------------------------------ model column

def model_exprs(case, dump):
    m = c04_latmodel
    R = dl.Names()
    for name, _, _ in case["rels"]:
        R(name)
    rules = [m.parse_rule(hr, case["cap"]) for hr in dump["hir_rules"]]
    sccs = []
    m.NVARS[0] = 0
    for sc in dump["sccs"]:
        vs = [m.coq_variant(rules[v["hir"]], v, R) for v in sc["variants"]]
        sccs.append("{| s_vars := %s; s_dyn := %s; s_loop := %s |}" % (dl.coq_list(vs), dl.cnats(R(r) for r in sc["dynamic"]), "true" if sc["looping"] else "false"))
    plan = dl.coq_list(sccs)
    P = dl.coq_list(m.coq_rule(r, R) for r in rules)
    arities = dl.coq_list("(%s, %s)" % (dl.cnat(R(n)), dl.cnat(a)) for n, a, _ in case["rels"])
    lats = dl.coq_list("(%s, %s)" % (dl.cnat(R(n)), dl.cnat(m.LAT_ID[k[1]])) for n, _, k in case["rels"] if isinstance(k, tuple))
    relnums = dl.cnats(R(n) for n, _, _ in case["rels"])
    exprs = ["(validate %s %s %s && alat_plan_ok (lv_islat %s) %s %s && plan_below %s %s)" % (arities, P, plan, lats, arities, plan, dl.cnat(m.NVARS[0]), plan)]
    for k in range(len(case["inputs"])):
        for _, h in histories(case, k):
            steps = []
            for st in h[1:]:
                steps.append("ARun" if st[0] == "run" else "APush %s" % m.coq_db(case, st[1], R))
            exprs.append("lat_agg_script (c04lat_interp (%d)) std_aint (lv_islat %s) (lv_jm %s) lv_shuffle lv_shuffle lv_swap %d%%nat %s %s %s %s"
                         % (case["cap"], lats, lats, FUEL, plan, relnums, dl.coq_list(steps), m.coq_db(case, h[0][1], R)))
    return exprs, {v: k for k, v in R.d.items()}


def model_column(cs, tag, coq_timeout=120):
    """{case id: dict(valid, hists=[[{rel: rows}] per history | None], error)}"""
    dumps = prog.front_run([(c["id"], "ascent", c["text"]) for c in cs])
    groups, gids, invs, out = [], [], {}, {}
    for c in cs:
        d = dumps.get(c["id"])
        if d is None or d.get("status") != "ok" or "sccs" not in d:
            out[c["id"]] = dict(valid=None, hists=None, error="front end: %s %s" % (d and d.get("status"), d and d.get("errors")))
            continue
        try:
            ex, inv = model_exprs(c, d)
        except c04_latmodel.Unsupported as e:
            out[c["id"]] = dict(valid=None, hists=None, error="not translatable: %s" % e)
            continue
        invs[c["id"]] = inv
        groups.append(ex)
        gids.append(c["id"])
    vals = lib.coq_eval_groups(tag, PRELUDE, groups, timeout=coq_timeout)
    for cid, v in zip(gids, vals):
        if v is None:
            out[cid] = dict(valid=None, hists=None, error="model evaluation exceeded %d s" % coq_timeout, slow=True)
            continue
        hs = []
        for x in v[1:]:
            hs.append(None if x == "None" else [{invs[cid][r]: [tuple(t) for t in rows] for (r, rows) in sh} for sh in x[1]])
        out[cid] = dict(valid=(v[0] is True), hists=hs, error=None)
    return out


# ------------------------------------------------------------------ run + compare

def snapshot_vs_oracle(case, rows, exp, only=None, caller_dups=()):
    """one snapshot against the oracle of gen/c04_lat.py (restricted to the relations `only`); caller_dups: relations into which
    the caller put copies of a row (they stay: run() never removes a row)"""
    lats = {name for name, _, kind in case["rels"] if isinstance(kind, tuple)}
    for name, _, _ in case["rels"]:
        got = rows[name]
        if name in lats:
            keys = [t[:-1] for t in got]
            if len(keys) != len(set(keys)):
                return name, "lattice %s holds %d rows for %d keys" % (name, len(keys), len(set(keys)))
        if only is not None and name not in only:
            continue
        if name not in lats and name not in caller_dups and len(got) != len(set(got)):
            return name, "relation %s holds %d rows, %d distinct" % (name, len(got), len(set(got)))
        if exp is not None and sorted(set(got)) != exp[name]:
            return name, "relation %s: got %s which the specification lacks; the specification (aggregates over one row per key of the least fixed point) has %s which the result lacks" % (
                name, [t for t in sorted(got) if t not in exp[name]][:5], [t for t in exp[name] if t not in got][:5])
    return None


def compare_history(case, k, kind, h, mode, iv, model):
    """-> list of mismatches for one history of one input under one macro"""
    cs = dict(program=case["text"], id=case["id"], input=case["inputs"][k], history=h, kind_of_history=kind, macro=mode)
    if iv is None or "snaps" not in iv:
        return [dict(case=cs, impl=iv, model=None, spec=None, kind="impl_violates_spec", known=None,
                     what="%s: lattice + aggregate history %s did not complete (compile error / panic / timeout): %s" % (mode, kind, json.dumps(iv)[:300]))]
    snaps = [c04_lat.decode(s) for s in iv["snaps"]]
    has_oracle = "expected" in case
    cdups = {r for r, ts in case["inputs"][k].items() if len(ts) != len(set(map(tuple, ts)))}
    mism = []
    # (snapshot index, oracle, relations compared with it)
    plan = [(0, case["expected"][k] if has_oracle else None, None)]
    if kind == "rerun":
        plan.append((1, case["expected"][k] if has_oracle else None, None))
    else:
        plan.append((1, case["expected_push"][k], set(case["free"])))
        plan.append((2, case["expected_push"][k], set(case["free"])))
    for j, exp, only in plan:
        bad = snapshot_vs_oracle(case, snaps[j], exp, only, cdups)
        if bad:
            mism.append(dict(case=dict(cs, run=j + 1), impl={bad[0]: sorted(snaps[j][bad[0]])}, model=None, spec={bad[0]: exp[bad[0]]} if exp else "one row per key",
                             kind="impl_violates_spec", known=None, what="%s, history %s, after run #%d: %s" % (mode, kind, j + 1, bad[1])))
            break
    # idempotence: the last two runs have nothing between them
    a, b = snaps[-2], snaps[-1]
    for name, _, _ in case["rels"]:
        if sorted(a[name]) != sorted(b[name]):
            mism.append(dict(case=dict(cs, run=len(snaps)), impl=dict(relation=name, after_run_n_minus_1=sorted(a[name]), after_run_n=sorted(b[name])), model=None,
                             spec="run(); run() leaves every relation unchanged as a set, with equal lattice values",
                             kind="impl_violates_spec", known=None,
                             what="%s, history %s: run #%d on unmodified relations changed relation %s (lattice read by an aggregate / negation of a later stratum): gained %s, lost %s"
                                  % (mode, kind, len(snaps), name, [t for t in sorted(b[name]) if t not in a[name]][:5], [t for t in sorted(a[name]) if t not in b[name]][:5])))
            break
    if mism or mode != "ascent!" or model is None:
        return mism
    if model == "out of fuel":
        return [dict(case=cs, impl="meets the specification", model="out of fuel", spec=None, kind="model_differs", known=None,
                     what="correspondence LatEngine/LatAggRerunScript.v lat_agg_script vs generated code: the model did not terminate within %d iterations per SCC" % FUEL)]
    for j, rows in enumerate(snaps):
        for name, _, _ in case["rels"]:
            if sorted(rows[name]) != sorted(model[j][name]):
                return [dict(case=dict(cs, run=j + 1), impl={name: sorted(rows[name])}, model={name: sorted(model[j][name])}, spec=None, kind="model_differs", known=None,
                             what="correspondence LatEngine/LatAggRerunScript.v lat_agg_script vs generated code, history %s after run #%d (relation %s: rows as a multiset)" % (kind, j + 1, name))]
    return []


def run(tier, seed, tag="c13la"):
    cs = cases(tier, seed)
    jobs, pjobs = [], []
    for c in cs:
        scripts = [impl_script(h) for k in range(len(c["inputs"])) for _, h in histories(c, k)]
        jobs.append(dict(id=c["id"], text=c["text"], macro="ascent", rels=c["rels"], scripts=scripts))
        pjobs.append(dict(id=c["id"] + "_par", text=c["text"], macro="ascent_par", rels=c["rels"], scripts=scripts, threads=3))
    res = prog.build_and_run(tag, jobs + pjobs, run_timeout=300) if jobs else {}
    col = model_column(cs, tag)
    mism, distinct, kinds, shapes = [], set(), {}, {}
    nh = nmodel = nslow = 0
    for c in cs:
        m = col[c["id"]]
        if m["error"] and not m.get("slow"):
            mism.append(dict(case=dict(program=c["text"], id=c["id"]), impl=None, model=m["error"], spec=None, kind="model_differs", known=None,
                             what="the lattice + aggregate program has no model column: %s" % m["error"]))
        elif m.get("slow"):
            nslow += 1
        elif m["valid"] is not True:
            mism.append(dict(case=dict(program=c["text"], id=c["id"]), impl="plan computed by the macro", model="validate && alat_plan_ok && plan_below = %s" % m["valid"], spec=None,
                             kind="model_differs", known=None,
                             what="the plan dumped from the macro is rejected by validate / alat_plan_ok / plan_below: c13_lattice_agg_idempotent does not apply to this program"))
        for nm in c.get("consumers", []):
            shapes[nm] = shapes.get(nm, 0) + 1
        n = 0
        for k in range(len(c["inputs"])):
            for kind, h in histories(c, k):
                mh = None
                if m["hists"] is not None:
                    mh = m["hists"][n] if m["hists"][n] is not None else "out of fuel"
                for mode, jid in (("ascent!", c["id"]), ("ascent_par! (pool of 3)", c["id"] + "_par")):
                    r = res.get(jid)
                    mm = compare_history(c, k, kind, h, mode, r[n] if r else None, mh)
                    mism += mm
                    nh += 1
                    nmodel += (mode == "ascent!" and mh is not None and not mm)
                kinds[kind] = kinds.get(kind, 0) + 1
                distinct.add((c["text"], json.dumps(h, sort_keys=True, default=str)))
                n += 1
    return dict(mismatches=mism, evaluations=nh, distinct=len(distinct),
                rule="LATTICE + AGGREGATE HALF (gen/c13_latagg.py): programs of gen/c04_lat.py (a lattice raised over many iterations, counted / summed / negated by a later stratum through "
                     "every index shape) and the probes of gen/c04_latmodel.py x histories set;run;run | set;run;push edges;run;run under ascent! and ascent_par! (pool of 3); every "
                     "snapshot against the oracle of gen/c04_lat.py (after a push: the aggregate-free relations against the oracle on the union; aggregating relations only against the model), "
                     "consecutive runs with nothing between them: every relation the same multiset of rows; serial rows = LatAggRerunScript.v lat_agg_script (LatAggEval.arun_plan) as multisets",
                distribution=dict(lattice_aggregate_programs=len(cs), lattice_aggregate_history_kinds=kinds, lattice_aggregate_consumers=shapes),
                extra=dict(lattice_aggregate_histories=nh, lattice_aggregate_histories_equal_to_model=nmodel, lattice_aggregate_cases_model_too_slow=nslow))


if __name__ == "__main__":
    import sys
    import time
    t0 = time.time()
    r = run(sys.argv[1] if len(sys.argv) > 1 else "quick", int(sys.argv[2]) if len(sys.argv) > 2 else 0, tag=sys.argv[3] if len(sys.argv) > 3 else "c13la")
    print(json.dumps({k: v for k, v in r.items() if k != "mismatches"}, indent=1)[:3000])
    print("mismatches: %d (%.1fs)" % (len(r["mismatches"]), time.time() - t0))
    for m in r["mismatches"][:6]:
        print(json.dumps(m, default=str)[:1200])
