"""C15 generator: well-formed programs (gen/gen_dl.py cores + lattices, ds / program attributes, in-program macros,
include_source!, re-declarations, pattern arguments) and single-violation mutants with the class the injection has
by construction (the python oracle; it never looks at the Coq model)."""
import copy

from . import dl, gen_dl
from . import c15_ast as A
from . import c15_ctx as C
from . import c15_attrs as SP

AUX = "c15_aux"          # an extra relation nobody derives: aggregating it can never break stratification


# ------------------------------------------------------------------ helpers on the AST

def _vis(node, visible):
    """visible=True: only the binders whose variable is not below a parenthesised sub-pattern"""
    sh = A.shape_of(node)
    return not (visible and sh is not None and A.shape_hidden(sh))


def item_binds(it, visible=False):
    k = it[0]
    if k == "clause":
        vs = [t[1] for t in it[2] if t[0] == "v" or (t[0] == "p" and _vis(t, visible))]
        for c in it[3]:
            if c[0] != "if" and _vis(c, visible):
                vs.append(c[1])
        return vs
    if k == "cond":
        return [] if (it[1][0] == "if" or not _vis(it[1], visible)) else [it[1][1]]
    if k == "gen":
        return [it[1]] if _vis(it, visible) else []
    if k == "agg":
        return [it[1]] if (it[1] and _vis(it, visible)) else []
    if k == "call":
        return list(it[2])
    return []


def used_as_clause_arg(body, x, start):
    """x is an argument of a clause / negation / aggregate of body[start:] (there a bound x joins, an unbound x binds)"""
    for it in body[start:]:
        if it[0] in ("clause", "neg") and any(t[0] in ("v", "p") and t[1] == x for t in it[2]):
            return True
        if it[0] == "agg" and any((a[0] == "b" and a[1] == x) or (a[0] == "k" and a[1][0] == "v" and a[1][1] == x) for a in it[5]):
            return True
        if it[0] == "call" and x in it[2]:
            return True
    return False


def rule_sites(p):
    """[(where, rule dict)] for every rule of the program, where = ('items', i) | ('src', name, i)"""
    out = []
    for i, it in enumerate(p["items"]):
        if it[0] == "rule":
            out.append((("items", i), it[2]))
    for name, items in p.get("sources", {}).items():
        for i, it in enumerate(items):
            if it[0] == "rule":
                out.append((("src", name, i), it[2]))
    return out


def all_items(p):
    for it in p["items"]:
        yield it
    for items in p.get("sources", {}).values():
        for it in items:
            yield it


def last_decl(p, name):
    d = None
    for it in all_items_in_order(p):
        if it[0] == "rel" and it[1] == name:
            d = it
    return d


def all_items_in_order(p):
    for it in p["items"]:
        if it[0] == "include":
            for s in p["sources"][it[2]]:
                yield s
        else:
            yield it


def decl_names(p):
    return [it[1] for it in all_items_in_order(p) if it[0] == "rel"]


def macro_defs(p):
    return {it[2]: it for it in all_items_in_order(p) if it[0] == "macro"}


def expanded_rule_rels(p, r):
    """(head relations, body relations, aggregated relations) of a rule, macro calls expanded (oracle's own expansion)"""
    macs = macro_defs(p)
    heads, body, aggs = [], [], []

    def walk_body(items, depth=0):
        for it in items:
            if it[0] == "clause":
                body.append(it[1])
            elif it[0] == "neg":
                body.append(it[1])
                aggs.append(it[1])
            elif it[0] == "agg":
                body.append(it[4])
                aggs.append(it[4])
            elif it[0] == "call" and it[1] in macs and depth < 20:
                walk_body(macs[it[1]][4], depth + 1)

    def walk_heads(hs, depth=0):
        for h in hs:
            if h[0] == "hcall":
                if h[1] in macs and depth < 20:
                    walk_heads([(b[1], b[2]) if b[0] == "clause" else ("hcall", b[1], b[2]) for b in macs[h[1]][4]], depth + 1)
            else:
                heads.append(h[0])
    walk_body(r["body"])
    walk_heads(r["heads"])
    return heads, body, aggs


# ------------------------------------------------------------------ pattern shapes of a binder

H, W = A.HOLE, A.WILD
SHAPES = {
    "paren": ("paren", H),                                   # (x)
    "paren2": ("paren", ("paren", H)),                       # ((x))
    "tuple_paren": ("tuple", [("paren", H), W]),             # ((x), _)
    "ref_paren": ("ref", ("paren", H)),                      # &(x)
    "paren_tuple": ("paren", ("tuple", [H, W])),             # ((x, _))
    "paren_ref": ("paren", ("ref", H)),                      # (&x)
    "tuple": ("tuple", [H, W]),                              # (x, _)       traversed by pattern_get_vars
    "tuple1": ("tuple", [H]),                                # (x,)
    "ref": ("ref", H),                                       # &x
    "at": ("at", W),                                         # x @ _
}
# the shapes that type-check in each binder position (the FRONT level does not care, the rustc sample does)
_NOREF = ["paren", "paren2", "tuple_paren", "paren_tuple", "tuple", "tuple1", "at"]
SHAPES_FOR = {
    "let": sorted(SHAPES), "iflet": _NOREF, "gen": _NOREF, "clause_cond": sorted(SHAPES),
    "agg": ["paren", "paren2", "at"], "pattern": ["paren", "paren2", "ref_paren", "paren_ref", "ref", "at"],
}


def pick_shape(rng, form, p_shaped=0.5):
    """(name, shape) or (None, None) for the plain identifier; parenthesised shapes are drawn half of the time"""
    if rng.random() >= p_shaped:
        return None, None
    names = SHAPES_FOR[form]
    hid = [n for n in names if A.shape_hidden(SHAPES[n])]
    vis = [n for n in names if not A.shape_hidden(SHAPES[n])]
    name = rng.choice(hid) if (rng.random() < 0.6 or not vis) else rng.choice(vis)
    return name, SHAPES[name]


def with_shape(node, shape):
    return tuple(node) if shape is None else tuple(node) + (shape,)


# ------------------------------------------------------------------ well-formed base programs

def base_program(rng, tag):
    """returns (program, info): info['rustc_ok'] = inside the typed subset that must compile with real rustc"""
    strat = rng.random() < 0.45
    opts = {}
    front_only = False
    if not strat and rng.random() < 0.25:
        opts["same_clause_exprs"] = True        # expression arguments over variables of the same clause (expr_replaced path)
        front_only = True
    core = gen_dl.gen_strat_program(rng, opts) if strat else gen_dl.gen_program(rng, opts)
    items = [("rel", n, ["i32"] * a, False, []) for (n, a, _) in core["rels"]]
    items.append(("rel", AUX, ["i32"], False, []))
    items += [("rule", 0, dict(heads=[tuple(h) for h in r["heads"]], body=list(r["body"]))) for r in core["rules"]]
    p = dict(attrs=[], items=items, sources={})
    info = dict(shape=core["shape"], deco=[], rustc_ok=not front_only, tag=tag)
    rels = [(n, a) for (n, a, _) in core["rels"]]

    if rng.random() < 0.35:      # a lattice fed from a relation (and sometimes read back)
        n, a = rng.choice(rels)
        if a >= 1:
            lat = "lat0"
            vs = ["y%d" % i for i in range(a)]
            items.insert(rng.randrange(len(items) + 1), ("rel", lat, ["i32"] * a, True, []))
            items.append(("rule", 0, dict(heads=[(lat, [("v", v) for v in vs])], body=[("clause", n, [("v", v) for v in vs], [])])))
            un = [r for r in rels if r[1] == 1]
            if un and a >= 2 and rng.random() < 0.5 and not strat:
                items.append(("rule", 0, dict(heads=[(un[0][0], [("v", "y0")])], body=[("clause", lat, [("v", "y0")] + [("w",)] * (a - 1), [])])))
            info["deco"].append("lattice")
    if rng.random() < 0.3:       # a data structure provider on a relation
        cands = [i for i, it in enumerate(items) if it[0] == "rel" and not it[3]]
        i = rng.choice(cands)
        items[i] = items[i][:4] + (items[i][4] + ["ds"],)
        info["deco"].append("ds")
    if rng.random() < 0.2:       # an attribute rustc knows, handed to the struct field
        cands = [i for i, it in enumerate(items) if it[0] == "rel"]
        i = rng.choice(cands)
        items[i] = items[i][:4] + (["known"] + items[i][4],)
        info["deco"].append("known_rel_attr")
    for a, pr in (("measure_rule_times", 0.2), ("generate_run_timeout", 0.2), ("ds", 0.12)):
        if rng.random() < pr:
            p["attrs"].insert(rng.randrange(len(p["attrs"]) + 1), a)
            info["deco"].append("attr_" + a)
    if rng.random() < 0.25:      # re-declaration: the last one wins
        cands = [i for i, it in enumerate(items) if it[0] == "rel" and it[1] != AUX]
        i = rng.choice(cands)
        if rng.random() < 0.5:
            items.insert(i, items[i])                                     # identical twin (one identity)
            info["deco"].append("redecl_same")
        else:
            d = items[i]
            items.insert(rng.randrange(i + 1), ("rel", d[1], d[2] + ["i32"], d[3], []))   # an earlier declaration with another arity
            info["deco"].append("redecl_other_arity")
            info["rustc_ok"] = False                                        # two struct fields of one name
    if rng.random() < 0.3:       # pattern argument binding a new variable
        sites = []
        for _, r in rule_sites(p):
            seen = []
            for bi, it in enumerate(r["body"]):
                if it[0] == "clause":
                    vs = [t[1] for t in it[2] if t[0] == "v"]
                    for ai, t in enumerate(it[2]):
                        if t[0] == "v" and t[1] not in seen and vs.count(t[1]) == 1:
                            sites.append((r, bi, ai))
                seen += item_binds(it)
        if sites:
            r, bi, ai = rng.choice(sites)
            it = r["body"][bi]
            args = list(it[2])
            args[ai] = ("p", args[ai][1])
            r["body"][bi] = ("clause", it[1], args, it[3])
            info["deco"].append("pattern_arg")
    if rng.random() < 0.25:      # binders written with a (parenthesised / tuple / reference / @) pattern, binding a NEW variable
        n = 0

        fresh = C.Fresh("b")

        def shape_for(form, body, bi, x):
            # a variable the helper does not report is bound AGAIN by a later clause that mentions it instead of being joined
            # (the well-formed face of the finding paren_pattern_escapes_shadow_check; the subject of C07): keep the
            # parenthesised shapes to variables no later clause mentions
            for _ in range(8):
                if rng.random() < 0.5:      # a stack of pattern constructors around the NEW variable (typed: the program must compile)
                    frames, leaf = C.random_context(rng, form, True)
                    sh = C.compose(frames, C.LEAVES[leaf], fresh, typed=True)
                    info.setdefault("contexts", []).append(C.context_name(frames, leaf))
                else:
                    _, sh = pick_shape(rng, form, 1.0)
                if not A.shape_hidden(sh) or not used_as_clause_arg(body, x, bi + 1):
                    return sh
            return None
        for _, r in rule_sites(p):
            for bi, it in enumerate(r["body"]):
                if n < 2 and rng.random() < 0.5:
                    if it[0] == "cond" and it[1][0] in ("let", "iflet") and len(it[1]) == 4:
                        r["body"][bi] = ("cond", with_shape(it[1], shape_for(it[1][0], r["body"], bi, it[1][1])))
                        n += 1
                    elif it[0] == "gen" and len(it) == 4:
                        r["body"][bi] = with_shape(it, shape_for("gen", r["body"], bi, it[1]))
                        n += 1
                    elif it[0] == "clause":
                        args = [with_shape(t, shape_for("pattern", r["body"], bi, t[1])) if (t[0] == "p" and len(t) == 2) else t for t in it[2]]
                        if args != list(it[2]):
                            r["body"][bi] = ("clause", it[1], args, it[3])
                            n += 1
        if n:
            info["deco"].append("shaped_binder")
    if rng.random() < 0.4:
        add_macros(rng, p, info)
    if rng.random() < 0.3:
        add_include(rng, p, info)
    # the struct signature, and attributes at the very top of the text (the parser reads them before it knows whether a
    # signature follows): in front of the signature they are the struct's, without one the first relation's
    u = rng.random()
    if u < 0.3:
        p["sig"] = []
        info["deco"].append("sig")
    elif u < 0.45:
        p["sig"] = rng.sample(["doc", "allow", "cfg"], rng.choice([1, 2]))
        info["deco"].append("sig_attrs")
    else:
        p["sig"] = None
    if rng.random() < 0.3 and p["items"][0][0] == "rel":
        d = p["items"][0]
        extra = rng.sample(["doc", "allow", "cfg"], rng.choice([1, 2]))
        if not d[3] and "ds" not in d[4] and rng.random() < 0.3:
            extra.insert(rng.randrange(len(extra) + 1), "ds")
        _set_attrs_all_twins(p, d, extra + list(d[4]))
        info["deco"].append("first_rel_attr" + ("_nosig" if p["sig"] is None else "_sig"))
    return p, info


def add_macros(rng, p, info):
    """replace body clauses / heads by invocations of (possibly nested) in-program macros"""
    nmac = 0
    for _, r in rule_sites(p):
        if nmac >= 3:
            break
        for bi, it in enumerate(r["body"]):
            if it[0] == "clause" and not it[3] and all(t[0] in ("v", "w", "c") for t in it[2]) and rng.random() < 0.4:
                vs = []
                for t in it[2]:
                    if t[0] == "v" and t[1] not in vs:
                        vs.append(t[1])
                params = ["p%d" % i for i in range(len(vs))]
                ren = dict(zip(vs, params))
                name = "mac%d" % nmac
                body = [("clause", it[1], [("v", ren[t[1]]) if t[0] == "v" else t for t in it[2]], [])]
                if rng.random() < 0.4:       # one more level: mac_k calls inner_k
                    inner = "inner%d" % nmac
                    p["items"].insert(rng.randrange(len(p["items"]) + 1), ("macro", 0, inner, params, body))
                    body = [("call", inner, list(params))]
                    info["deco"].append("nested_macro")
                p["items"].insert(rng.randrange(len(p["items"]) + 1), ("macro", 0, name, params, body))
                r["body"][bi] = ("call", name, vs)
                nmac += 1
                info["deco"].append("body_macro")
                break
        if rng.random() < 0.25 and r["body"]:
            for hi, h in enumerate(r["heads"]):
                if h[0] != "hcall" and h[1] and all(t[0] == "v" for t in h[1]):
                    vs = []
                    for t in h[1]:
                        if t[1] not in vs:
                            vs.append(t[1])
                    params = ["p%d" % i for i in range(len(vs))]
                    ren = dict(zip(vs, params))
                    name = "hmac%d" % nmac
                    p["items"].insert(rng.randrange(len(p["items"]) + 1),
                                      ("macro", 0, name, params, [("clause", h[0], [("v", ren[t[1]]) for t in h[1]], [])]))
                    r["heads"][hi] = ("hcall", name, vs)
                    nmac += 1
                    info["deco"].append("head_macro")
                    break


def add_include(rng, p, info):
    items = p["items"]
    if len(items) < 3:
        return
    a = rng.randrange(len(items))
    b = rng.randrange(a, min(len(items), a + 4)) + 1
    p["sources"]["src0"] = items[a:b]
    p["items"] = items[:a] + [("include", 0, "src0")] + items[b:]
    info["deco"].append("include_source")


# ------------------------------------------------------------------ violations

class NoSite(Exception):
    pass


def _rules(p):
    return [r for _, r in rule_sites(p)]


def _rel_occurrences(p):
    """(kind, container, index, sub index): every place a relation name is used"""
    occ = []

    def scan_body(body, invoked=True):
        for bi, it in enumerate(body):
            if it[0] in ("clause", "neg", "agg"):
                occ.append(("body", body, bi))
    invoked = set()
    for r in _rules(p):
        scan_body(r["body"])
        for hi, h in enumerate(r["heads"]):
            if h[0] != "hcall":
                occ.append(("head", r["heads"], hi))
    for it in all_items(p):
        if it[0] == "macro":
            scan_body(it[4])
    return occ


def _set_rel(occ, f):
    kind, cont, i = occ
    it = cont[i]
    if kind == "head":
        cont[i] = f("head", it)
    else:
        cont[i] = f(it[0], it)


def mut_undeclared(rng, p):
    occ = _rel_occurrences(p)
    if not occ:
        raise NoSite()
    o = rng.choice(occ)
    name = "c15_nope"

    def f(k, it):
        if k == "head":
            return (name, it[1])
        if k == "agg":
            return it[:4] + (name,) + tuple(it[5:])
        return (it[0], name) + tuple(it[2:])
    _set_rel(o, f)
    return dict(cls="undeclared", detail=name, where=o[0])


def mut_arity(rng, p):
    occ = _rel_occurrences(p)
    if not occ:
        raise NoSite()
    o = rng.choice(occ)
    res = {}

    def f(k, it):
        if k == "head":
            name, args = it[0], list(it[1])
            pos = 1
        elif k == "agg":
            name, args = it[4], list(it[5])
            pos = 5
        else:
            name, args = it[1], list(it[2])
            pos = 2
        d = last_decl(p, name)
        grow = (not args) or rng.random() < 0.5 or (k == "agg" and args[-1][0] == "b")
        if grow:
            args.append(("c", 0) if k == "head" else ("w",))
        else:
            args.pop()
        res.update(detail=[name, len(d[2]), len(args)])
        it = list(it)
        it[pos] = args
        return tuple(it)
    _set_rel(o, f)
    return dict(cls="arity", detail=res["detail"], where=o[0])


def _dep_reach(p):
    """oracle's own rule dependency graph (macro calls expanded): reach[i] = rules reachable from rule i (incl. i)"""
    rules = _rules(p)
    info = [expanded_rule_rels(p, r) for r in rules]
    n = len(rules)
    succ = {i: [j for j in range(n) if set(info[i][0]) & set(info[j][1])] for i in range(n)}
    reach = {}
    for i in range(n):
        seen, todo = {i}, [i]
        while todo:
            x = todo.pop()
            for y in succ[x]:
                if y not in seen:
                    seen.add(y)
                    todo.append(y)
        reach[i] = seen
    return rules, info, reach


def mut_strat(rng, p):
    rules, info, reach = _dep_reach(p)
    sites = []
    for a in range(len(rules)):
        for b in reach[a]:
            for rel in info[b][0]:
                sites.append((a, b, rel))
    if not sites:
        raise NoSite()
    a, b, rel = rng.choice(sites)
    d = last_decl(p, rel)
    n = len(d[2])
    r = rules[a]
    if rng.random() < 0.5:
        it = ("neg", rel, [("w",)] * n)
    else:
        it = ("agg", "c15s", "count", [], rel, [("w",)] * n)
    r["body"].insert(rng.randrange(len(r["body"]) + 1), it)
    return dict(cls="not_stratified", detail=rel, where="self" if a == b else "via_other_rule", form=it[0])


def mut_shadow(rng, p):
    sites = []
    for r in _rules(p):
        bound = []
        for bi, it in enumerate(r["body"]):
            if bound:
                sites.append((r, bi, list(bound)))
            bound += item_binds(it)
        if bound:
            sites.append((r, len(r["body"]), list(bound)))
    if not sites:
        raise NoSite()
    r, pos, bound = rng.choice(sites)
    seen = []                   # the binders of body[:pos] that pattern_get_vars reports without a Pat::Paren arm
    for it in r["body"][:pos]:
        seen += item_binds(it, visible=True)
    x, y = rng.choice(bound), rng.choice(bound)
    form = rng.choice(["let", "iflet", "gen", "agg", "clause_cond", "pattern"])
    prev_clauses = [bi for bi in range(pos) if r["body"][bi][0] == "clause"]
    if form in ("clause_cond", "pattern") and not prev_clauses:
        form = "let"
    sname, shape = pick_shape(rng, form)
    if shape is not None and rng.random() < 0.4:      # any stack of pattern constructors above the rebinding identifier
        frames, leaf = C.random_context(rng, form, False)
        sname, shape = C.context_name(frames, leaf), C.compose(frames, C.LEAVES[leaf], C.Fresh("m"))
    if form == "let":
        r["body"].insert(pos, ("cond", with_shape(("let", x, "incs", [y]), shape)))
    elif form == "iflet":
        r["body"].insert(pos, ("cond", with_shape(("iflet", x, "predpos", [y]), shape)))
    elif form == "gen":
        r["body"].insert(pos, with_shape(("gen", x, "upto", [y]), shape))
    elif form == "agg":
        r["body"].insert(pos, with_shape(("agg", x, "sum", ["c15z"], AUX, [("b", "c15z")]), shape))
    elif form == "clause_cond":
        bi = rng.choice(prev_clauses)
        it = r["body"][bi]
        vs, seen = [], []
        for k in range(bi + 1):
            vs += item_binds(r["body"][k])
            seen += item_binds(r["body"][k], visible=True)
        if not vs:
            raise NoSite()
        x, y = rng.choice(vs), rng.choice(vs)
        if rng.random() < 0.4:
            # the rebound variable is bound by an EARLIER CONDITION OF THE SAME CLAUSE (no comma between the two conditions)
            w = "c15w"
            first = ("let", w, "incs", [y]) if rng.random() < 0.5 else ("iflet", w, "predpos", [y])
            it = ("clause", it[1], it[2], list(it[3]) + [first])
            x, seen = w, seen + [w]
        if rng.random() < 0.5:
            if sname not in SHAPES_FOR["iflet"] and not str(sname).startswith("ctx:"):
                sname, shape = None, None
            c = with_shape(("iflet", x, "predpos", [y]), shape)
        else:
            c = with_shape(("let", x, "incs", [y]), shape)
        r["body"][bi] = ("clause", it[1], it[2], list(it[3]) + [c])
    else:
        bi = rng.choice(prev_clauses)
        it = r["body"][bi]
        if not it[2]:
            sname, shape = None, None
            r["body"].insert(pos, ("cond", ("let", x, "incs", [y])))
            form = "let"
        else:
            vs, seen2 = [], []
            for k in range(bi):
                vs += item_binds(r["body"][k])
                seen2 += item_binds(r["body"][k], visible=True)
            ai = rng.randrange(len(it[2]))
            args = list(it[2])
            vs += [t[1] for j, t in enumerate(args) if j != ai and t[0] in ("v", "p")]
            seen2 += [t[1] for j, t in enumerate(args) if j != ai and (t[0] == "v" or (t[0] == "p" and _vis(t, True)))]
            if not vs:
                sname, shape = None, None
                r["body"].insert(pos, ("cond", ("let", x, "incs", [y])))
                form = "let"
            else:
                x = rng.choice(vs)
                seen = seen2
                args[ai] = with_shape(("p", x), shape)
                r["body"][bi] = ("clause", it[1], args, it[3])
    # hidden: the rebinding identifier sits below a parenthesised sub-pattern, or every earlier binder of it does
    return dict(cls="shadow", detail=x, form=form, shape=sname,
                hidden=bool((shape is not None and A.shape_hidden(shape)) or x not in seen),
                hidden_first=bool(x not in seen))


CTX_FORMS = ["let", "iflet", "gen", "agg", "clause_cond", "pattern"]


def _ctx_binder(rng, r, pos, form, x, y, shape, uniq):
    """insert at body position pos a binder of the given position kind whose pattern (shape, None = the plain identifier)
    binds x; y is a variable bound before pos"""
    body = r["body"]
    if form == "let":
        body.insert(pos, ("cond", with_shape(("let", x, "incs", [y]), shape)))
    elif form == "iflet":
        body.insert(pos, ("cond", with_shape(("iflet", x, "predpos", [y]), shape)))
    elif form == "gen":
        body.insert(pos, with_shape(("gen", x, "upto", [y]), shape))
    elif form == "agg":
        z = "c15z%s" % uniq
        body.insert(pos, with_shape(("agg", x, "sum", [z], AUX, [("b", z)]), shape))
    elif form == "clause_cond":      # a condition attached to a clause: c15_aux(q) let PAT = e   /   c15_aux(q) if let Some(PAT) = e
        c = ("iflet", x, "predpos", [y]) if rng.random() < 0.5 else ("let", x, "incs", [y])
        body.insert(pos, ("clause", AUX, [("v", "c15q%s" % uniq)], [with_shape(c, shape)]))
    elif form == "pattern":          # c15_aux(?PAT)
        body.insert(pos, ("clause", AUX, [with_shape(("p", x), shape)], []))
    else:
        raise ValueError(form)


def mut_shadow_ctx(rng, p, form=None, frames=None, leaf="ident", which=None, site="random"):
    """the rebinding of a variable with a stack of pattern constructors (gen/c15_ctx.py) above it:
       which = 'second': a variable bound earlier in the rule is bound again below the context;
               'first' : a new variable is bound below the context and bound again by a plain binder later in the rule;
               'both'  : both binders of the new variable sit below (different) contexts.
       site: 'random' | 'last' (the rebinding binder is the last body item) | 'middle' (clauses follow it)"""
    form = form or rng.choice(CTX_FORMS)
    which = which or rng.choice(["second", "second", "first", "both"])
    if frames is None:
        frames, leaf = C.random_context(rng, form, False)
    fresh = C.Fresh("x")
    sites = []
    for r in _rules(p):
        bound = []
        for bi, it in enumerate(r["body"]):
            if bound:
                sites.append((r, bi, list(bound)))
            bound += item_binds(it)
        if bound:
            sites.append((r, len(r["body"]), list(bound)))
    if site == "last":
        sites = [s for s in sites if s[1] == len(s[0]["body"])]
    elif site == "middle":
        sites = [s for s in sites if s[1] < len(s[0]["body"])] or sites
    if not sites:
        raise NoSite()
    r, pos, bound = rng.choice(sites)
    seen = []
    for it in r["body"][:pos]:
        seen += item_binds(it, visible=True)
    y = rng.choice(bound)
    shape = C.compose(frames, C.LEAVES[leaf], fresh)
    name = C.context_name(frames, leaf)
    if which == "second":
        x = rng.choice(bound)
        _ctx_binder(rng, r, pos, form, x, y, shape, "a")
        hidden_first = x not in seen
        hidden = A.shape_hidden(shape) or hidden_first
        second = name
    else:
        x = "c15r"
        _ctx_binder(rng, r, pos, form, x, y, shape, "a")
        form2 = rng.choice(CTX_FORMS)
        if which == "both":
            frames2, leaf2 = C.random_context(rng, form2, False, depth=rng.choice([1, 2]))
            shape2, second = C.compose(frames2, C.LEAVES[leaf2], fresh), C.context_name(frames2, leaf2)
        else:
            shape2, second = None, "ident"
        pos2 = pos + 1 if site == "last" else rng.randrange(pos + 1, len(r["body"]) + 1)
        _ctx_binder(rng, r, pos2, form2, x, y, shape2, "b")
        hidden_first = A.shape_hidden(shape)
        hidden = hidden_first or (shape2 is not None and A.shape_hidden(shape2))
    return dict(cls="shadow", detail=x, form=form, shape=name, which=which, second=second, depth=len(frames),
                cons=[f.con for f in frames], hidden=bool(hidden), hidden_first=bool(hidden_first))


def mut_recursive_macro(rng, p):
    k = rng.choice([1, 1, 2, 3])
    for i in range(k):
        body = [("call", "c15_rec%d" % ((i + 1) % k), ["q0"])]
        p["items"].insert(rng.randrange(len(p["items"]) + 1), ("macro", 0, "c15_rec%d" % i, ["q0"], body))
    rules = [r for r in _rules(p) if r["body"]]
    if not rules:
        raise NoSite()
    r = rng.choice(rules)
    vs = []
    for it in r["body"]:
        vs += item_binds(it)
    x = rng.choice(vs) if vs else "c15v"
    if rng.random() < 0.3:
        r["heads"].insert(rng.randrange(len(r["heads"]) + 1), ("hcall", "c15_rec0", [x]))
        where = "head"
    else:
        r["body"].insert(rng.randrange(len(r["body"]) + 1), ("call", "c15_rec0", [x]))
        where = "body"
    return dict(cls="recursive_macro", detail=None, cycle=k, where=where)


def mut_undefined_macro(rng, p):
    rules = [r for r in _rules(p) if r["body"]]
    if not rules:
        raise NoSite()
    r = rng.choice(rules)
    vs = []
    for it in r["body"]:
        vs += item_binds(it)
    x = rng.choice(vs) if vs else "c15v"
    if rng.random() < 0.3:
        r["heads"].insert(rng.randrange(len(r["heads"]) + 1), ("hcall", "c15_undefined", [x]))
    else:
        r["body"].insert(rng.randrange(len(r["body"]) + 1), ("call", "c15_undefined", [x]))
    return dict(cls="undefined_macro", detail=None)


def mut_macro_args(rng, p):
    p["items"].insert(rng.randrange(len(p["items"]) + 1),
                      ("macro", 0, "c15_two", ["q0", "q1"], [("clause", AUX, [("v", "q0")], []), ("clause", AUX, [("v", "q1")], [])]))
    rules = [r for r in _rules(p) if r["body"]]
    if not rules:
        raise NoSite()
    r = rng.choice(rules)
    vs = []
    for it in r["body"]:
        vs += item_binds(it)
    x = rng.choice(vs) if vs else "c15v"
    n = rng.choice([0, 1, 3])
    r["body"].insert(rng.randrange(len(r["body"]) + 1), ("call", "c15_two", [x] * n))
    return dict(cls="macro_args", detail=None, given=n)



def _decl_sites(p):
    return [(cont, i) for cont in [p["items"]] + list(p["sources"].values()) for i, it in enumerate(cont) if it[0] == "rel"]


def _set_attrs_all_twins(p, d, attrs):
    """a declaration repeated with the same identity is dropped by the macro except for the last copy: change all copies"""
    for cont, i in _decl_sites(p):
        if tuple(cont[i][:4]) == tuple(d[:4]) or (cont[i][1] == d[1] and list(cont[i][2]) == list(d[2]) and cont[i][3] == d[3]):
            cont[i] = tuple(cont[i][:4]) + (list(attrs),)


def mut_ds_on_lattice(rng, p):
    lats = [(cont, i) for cont, i in _decl_sites(p) if cont[i][3]]
    if lats and rng.random() < 0.7:
        cont, i = rng.choice(lats)
        d = cont[i]
        _set_attrs_all_twins(p, d, list(d[4]) + ["ds"])
        name = d[1]
    else:
        name = "c15_lat"
        p["items"].insert(rng.randrange(len(p["items"]) + 1), ("rel", name, ["i32", "i32"], True, ["ds"]))
    return dict(cls="ds_on_lattice", detail=name)


def mut_multiple_ds(rng, p):
    if rng.random() < 0.3:
        while p["attrs"].count("ds") < 2:
            p["attrs"].insert(rng.randrange(len(p["attrs"]) + 1), "ds")
        return dict(cls="multiple_ds", detail=None, where="program")
    cont, i = rng.choice(_decl_sites(p))
    d = cont[i]
    attrs = list(d[4])
    while attrs.count("ds") < 2:
        attrs.insert(rng.randrange(len(attrs) + 1), "ds")
    _set_attrs_all_twins(p, d, attrs)
    return dict(cls="multiple_ds", detail=d[1], where="relation", lattice=d[3])


def _unrecognised_attr(rng):
    """an attribute no macro of ascent recognises, in any spelling: a made-up name (identifier or path, with or without
    arguments) or a recognised name behind a path prefix / a leading `::`"""
    form = rng.choice(SP.PATH_FORMS)
    last = rng.choice([None, None] + A.RECOGNISED) if form != "ident" else None
    return SP.make_attr(rng, form, rng.choice(SP.ARG_FORMS), last, tokens=("ascent::rel" if last == "ds" else None))


def mut_unknown_attr(rng, p):
    a = _unrecognised_attr(rng) if rng.random() < 0.6 else "unknown"
    p["attrs"].insert(rng.randrange(len(p["attrs"]) + 1), a)
    return dict(cls="unknown_attr", detail=None, spelling=SP.spelling(a), position="prog")


def _some_oattrs(rng):
    """one or two outer attributes: a doc comment, attributes rustc knows (allow, cfg), ascent's own ds, a made-up one"""
    return [(rng.choice(A.OATTR_KINDS) if rng.random() < 0.6 else
             SP.make_attr(rng, rng.choice(SP.PATH_FORMS), rng.choice(SP.ARG_FORMS), rng.choice([None, None] + A.RECOGNISED)))
            for _ in range(rng.choice([1, 1, 2]))]


def mut_unexpected_attr(rng, p):
    """attributes on a rule / macro definition / include_source!, wherever the item stands"""
    sites = [(cont, i) for cont in [p["items"]] + list(p["sources"].values()) for i, it in enumerate(cont) if it[0] in ("rule", "macro", "include")]
    if not sites:
        raise NoSite()
    cont, i = rng.choice(sites)
    it = list(cont[i])
    it[1] = _some_oattrs(rng)
    cont[i] = tuple(it)
    return dict(cls="unexpected_attr", detail=None, on=it[0], attrs=it[1], first=(cont is p["items"] and i == 0), sig=p.get("sig") is not None)


def _attr_at_position(rng, p, first, sig):
    """the POSITION dimension of the class: the attributed rule / macro definition / include_source! is the FIRST item of
    the program or a later one, and the program has a struct signature or none.  (The parser reads the outer attributes
    at the top before it knows whether a signature follows; without one they must go to the first item WHATEVER it is.)"""
    on = rng.choice(["rule", "rule", "macro", "include"])
    kinds = _some_oattrs(rng)
    items = p["items"]
    item = None
    if on == "rule":
        cands = [i for i, it in enumerate(items) if it[0] == "rule"]
        if cands and rng.random() < 0.6:
            item = items.pop(rng.choice(cands))           # rules may precede the declarations: order of items is free
            item = ("rule", kinds, item[2])
        else:
            item = ("rule", kinds, dict(heads=[(AUX, [("c", 3)])], body=[]))
    elif on == "macro":
        cands = [i for i, it in enumerate(items) if it[0] == "macro"]
        if cands and rng.random() < 0.6:
            item = items.pop(rng.choice(cands))
            item = ("macro", kinds) + tuple(item[2:])
        else:
            item = ("macro", kinds, "c15_pm", ["q0"], [("clause", AUX, [("v", "q0")], [])])
    else:
        p["sources"]["c15_psrc"] = [("rel", "c15_pinc", ["i32"], False, [])]
        item = ("include", kinds, "c15_psrc")
    if sig is True:
        if p.get("sig") is None:
            p["sig"] = rng.choice([[], [], ["doc"], ["allow", "cfg"]])
    elif sig is False:
        p["sig"] = None
    if first:
        items.insert(0, item)
    else:
        if not items:
            raise NoSite()
        items.insert(rng.randrange(1, len(items) + 1), item)
    return dict(cls="unexpected_attr", detail=None, on=on, attrs=kinds, first=first, sig=p.get("sig") is not None)


def mut_attr_first_nosig(rng, p):
    return _attr_at_position(rng, p, True, False)


def mut_attr_first_sig(rng, p):
    return _attr_at_position(rng, p, True, True)


def mut_attr_later(rng, p):
    return _attr_at_position(rng, p, False, rng.choice([True, False, None]))


def mut_irp(rng, p):
    p["attrs"].insert(rng.randrange(len(p["attrs"]) + 1), "inter_rule_parallelism")
    return dict(cls="irp_serial", detail=None)


def mut_empty_lattice(rng, p):
    p["items"].insert(rng.randrange(len(p["items"]) + 1), ("rel", "c15_empty", [], True, []))
    return dict(cls="empty_lattice", detail=None)


def mut_agg_unbound(rng, p):
    """aggregated variable that is not an argument of the aggregated relation (the macro used to panic on it;
    an error of its own since commit 9b40028)"""
    rules = _rules(p)
    if not rules:
        raise NoSite()
    r = rng.choice(rules)
    r["body"].insert(rng.randrange(len(r["body"]) + 1), ("agg", "c15u", "sum", ["c15y"], AUX, [("w",)]))
    return dict(cls="agg_unbound", detail=["c15y", AUX])


def mut_capture(rng, p, uniq):
    """a WELL-FORMED rule: a variable repeated inside a clause next to a user variable spelled like the identifier the
    macro generates for the repetition"""
    v = "cv%s" % uniq
    k = rng.choice([0, 0, 1])
    w = v + "_" + (str(k) if k else "")
    p["items"].append(("rel", "c15_t", ["i32", "i32", "i32"], False, []))
    p["items"].append(("rel", "c15_u", ["i32", "i32"], False, []))
    form = rng.choice(["same_clause", "same_clause", "other_clause", "later_binder"])
    if form == "same_clause":
        body = [("clause", "c15_t", [("v", v), ("v", v), ("v", w)], [])]
    elif form == "later_binder":
        binder = rng.choice([("cond", ("let", w, "incs", [v])), ("gen", w, "upto", [v]), ("cond", ("iflet", w, "predpos", [v]))])
        body = [("clause", "c15_t", [("v", v), ("v", v), ("w",)], []), binder]
    else:
        body = [("clause", AUX, [("v", w)], []), ("clause", "c15_t", [("v", v), ("v", v), ("w",)], [])]
    p["items"].append(("rule", 0, dict(heads=[("c15_u", [("v", v), ("v", w)])], body=body)))
    return dict(cls="ok", detail=None, capture=dict(var=v, clash=w, form=form, k=k))


def mut_rel_unknown_attr(rng, p):
    cont, i = rng.choice(_decl_sites(p))
    d = cont[i]
    attrs = list(d[4])
    a = "other"
    if rng.random() < 0.6:          # any spelling whose path is not exactly `ds`: the macro hands it to the struct field
        a = _unrecognised_attr(rng)
    attrs.insert(rng.randrange(len(attrs) + 1), a)
    _set_attrs_all_twins(p, d, attrs)
    return dict(cls="rustc_unknown_rel_attr", detail=d[1], spelling=SP.spelling(a), position="lat" if d[3] else "rel")


def mut_include_in_source(rng, p):
    """include_source! inside an ascent_source! body (the source must be included by the program)"""
    if "src0" not in p["sources"]:
        items = p["items"]
        a = rng.randrange(len(items))
        p["sources"]["src0"] = items[a:a + 1]
        p["items"] = items[:a] + [("include", 0, "src0")] + items[a + 1:]
    src = p["sources"]["src0"]
    p["sources"]["src1"] = [("rel", "c15_inner", ["i32"], False, [])]
    src.insert(rng.randrange(len(src) + 1), ("include", 0, "src1"))
    return dict(cls="include_in_source", detail=None)


# name -> (function, weight in the FRONT stream, listed in the property statement)
MUTATIONS = {
    "undeclared": (mut_undeclared, 10, True),
    "arity": (mut_arity, 10, True),
    "not_stratified": (mut_strat, 10, True),
    "shadow": (mut_shadow, 10, True),
    "shadow_ctx": (mut_shadow_ctx, 6, True),
    "recursive_macro": (mut_recursive_macro, 8, True),
    "ds_on_lattice": (mut_ds_on_lattice, 5, True),
    "unknown_attr": (mut_unknown_attr, 5, True),
    "unexpected_attr": (mut_unexpected_attr, 5, True),
    "attr_first_nosig": (mut_attr_first_nosig, 6, True),
    "attr_first_sig": (mut_attr_first_sig, 3, True),
    "attr_later": (mut_attr_later, 3, True),
    "multiple_ds": (mut_multiple_ds, 5, False),
    "irp_serial": (mut_irp, 4, False),
    "undefined_macro": (mut_undefined_macro, 3, False),
    "macro_args": (mut_macro_args, 3, False),
    "empty_lattice": (mut_empty_lattice, 2, False),
    "agg_unbound": (mut_agg_unbound, 2, False),
}
RUSTC_ONLY = {"rustc_unknown_rel_attr": mut_rel_unknown_attr, "include_in_source": mut_include_in_source}


def mutate(rng, base, name, uniq=""):
    """deep copy of base with one violation injected; returns (program, expectation) or raises NoSite"""
    p = copy.deepcopy(base)
    if name == "capture":
        return p, mut_capture(rng, p, uniq)
    f = MUTATIONS[name][0] if name in MUTATIONS else RUSTC_ONLY[name]
    exp = f(rng, p)
    return p, exp


def expected_for_kind(exp, kind):
    """the verdict the property demands for the mutant under a macro kind: 'ok' | 'err:<class>'"""
    c = exp["cls"]
    if c == "ok":
        return "ok"
    if c == "irp_serial":
        return "ok" if kind.endswith("par") else "err:irp_serial"
    if c == "rustc_unknown_rel_attr":
        return "ok"          # for the macro itself; rustc rejects the generated struct
    return "err:" + c
