"""Tie of the per-index LATTICE engine model (coq/LatEngine/LatIndexedEval.v, builder B13) to the REAL index fields of the generated
program struct (serial `ascent!`, programs mixing relations and lattices).

Every physical index of a lattice relation is a map key -> set of ROW NUMBERS (`ascent::internal::LatticeIndexType<K, usize>`; the key
index = all columns but the last: `RelFullIndexType<K, usize>`, key -> one row number).  After `set input; run()` the PROG harness prints the
rows of every relation (Vec order = row numbers) and, through a ('raw', rust) script step, the content of EVERY index field
`<rel>_indices_<cols>` / `<rel>_indices_none` of every lattice relation, read through the traits the generated code itself uses
(RelIndexReadAll::iter_all, RelIndexRead::index_get / len_estimate).  The same program (plan dumped by the real front end) and input are
evaluated in Coq: `option_map (xshow relnums) (xrun_plan I vagg islat jm shuffle ashuffle swap (decls_of ds) fuel plan db)`, and compared:

  (1) the ROWS of every relation, as multisets;
  (2) EVERY index field of every lattice relation: row numbers are RESOLVED to rows on both sides (the model and the implementation may
      number the rows differently when they derive them in a different order) and compared per field as the sorted list of
      (key, sorted list of resolved rows);
  (3) the boolean hypothesis `xplan_ok` of the refinement theorem next to the existing `validate && lat_plan_ok` / `alat_plan_ok`.

Families
  (a) STALE PROBES: gen/c04_known.PROGRAMS[0] (known finding `lattice_value_column_index_stale`) and five hand-written deterministic programs
      in which a clause / an aggregate / a negation reads a lattice through an index whose columns include the lattice VALUE column and a row
      is raised (lattice rows derived by rules scanning plain input relations through their `[]` index = insertion order; i32 max lattice;
      the model runs with the IDENTITY shuffle).  Expected: implementation = model (rows and every index field) and != specification:
      counted `faithful_to_defect`, NOT a mismatch.  Implementation = specification while the model gives the stale result: the repo was
      fixed, the model must follow: kind='model_differs'.  xplan_ok is expected FALSE on them (reported in the coverage).
  (b) the lattice programs of gen/c03_gen.py (+ composite and lexicographic columns, as gen/props/c03.py) and of gen/c04_lat.py (+ the fixed
      case of gen/c04_latmodel.probes()), lv_shuffle: rows vs the python specification oracle (kind='impl_violates_spec') and vs the model,
      every index field vs the model (kind='model_differs'); every index over key columns only vs the rows of the Vec field
      ("lists exactly the row numbers whose key projection matches": kind='impl_violates_spec'); xplan_ok must be true.

  python3 -m gen.lat_indexed_tie quick|thorough [seed]        (exit code 1 on any mismatch)
  run_tie(tier, seed) -> dict(evaluations, distinct_nontrivial, mismatches, coverage, rule)
"""
import collections
import json
import os
import sys
import time

from . import c03_gen as g
from . import c03_lexgen as lg
from . import c03_vocab as voc
from . import c04_known, c04_lat, dl, lib, prog
from . import c04_latmodel as lm
from .props import c03

FUEL_C03 = c03.FUEL
FUEL_C04 = lm.FUEL
K_STALE = c04_known.K_STALE

_IX = "From AV Require Import LatEngine.LatAggEval.\nFrom AV Require Import LatEngine.LatIndexedEval.\nDefinition lx_ident (n : nat) (l : list nat) := l.\n"
PRELUDE_C03 = c03.PRELUDE + _IX + "Definition lx_noagg (a : nat) (l : list (list Z)) : list Z := [].\n"
PRELUDE_C04 = lm.PRELUDE + _IX
PRINT_PROGRAMS, PRINT_PER_PROGRAM = 8, 4


def field_name(rel, cols):
    return "%s_indices_%s" % (rel, "_".join(str(c) for c in cols) if cols else "none")


# ------------------------------------------------------------------ Rust side: dump of the index fields of the lattice relations

def lattice_decls(dump):
    """[(relation, arity, columns, is it the key index)] for every index of every LATTICE relation of the FRONT dump"""
    out = []
    for r in dump["relations"]:
        if r["lattice"]:
            for cols in r["indices"]:
                out.append((r["name"], r["arity"], list(cols), list(cols) == list(range(r["arity"] - 1))))
    return out


def dump_step(dump):
    """('raw', rust) script step: pushes one JSON object {"indices": [{field, len, get_ok, ents: [[[key column as {:?} string ..], [row number ..]] ..]} ..]}"""
    parts = []
    for name, ar, cols, _ in lattice_decls(dump):
        f = field_name(name, cols)
        kc = ", ".join('format!("{:?}", k.%d)' % i for i in range(len(cols)))
        parts.append(
            '{ let mut ents: Vec<String> = vec![]; let mut get_ok = true;\n'
            '  for (k, vs) in ascent::internal::RelIndexReadAll::iter_all(&p.%(f)s) {\n'
            '     let kc: Vec<String> = vec![%(kc)s];\n'
            '     let mut rn: Vec<usize> = vs.map(|v| *v).collect(); rn.sort();\n'
            '     match ascent::internal::RelIndexRead::index_get(&p.%(f)s, k) {\n'
            '        Some(it) => { let mut gg: Vec<usize> = it.map(|v| *v).collect(); gg.sort(); if gg != rn { get_ok = false; } },\n'
            '        None => { get_ok = false; } }\n'
            '     ents.push(format!("[[{}],[{}]]", kc.iter().map(|s| format!("{:?}", s)).collect::<Vec<_>>().join(","), rn.iter().map(|x| x.to_string()).collect::<Vec<_>>().join(",")));\n'
            '  }\n'
            '  __parts.push(format!("{{\\"field\\":\\"%(f)s\\",\\"len\\":{},\\"get_ok\\":{},\\"ents\\":[{}]}}", ascent::internal::RelIndexRead::len_estimate(&p.%(f)s), get_ok, ents.join(","))); }'
            % dict(f=f, kc=kc))
    code = "{ let mut __parts: Vec<String> = vec![];\n%s\n snaps.push(format!(\"{{\\\"indices\\\":[{}]}}\", __parts.join(\",\"))); }" % "\n".join(parts)
    return ("raw", code)


# ------------------------------------------------------------------ cases: two vocabularies behind one interface

def coq_decls(dump, R):
    return dl.coq_list("(%s, %s, %s)" % (dl.cnat(R(n)), dl.cnats(cols), "true" if key else "false") for n, _, cols, key in lattice_decls(dump))


class C03Case:
    """program AST of gen/c03_gen.py; lattice values are their integer codes (gen/c03_vocab.py) everywhere but in the generated Rust"""
    vocab = "c03"
    shuffle = "lv_shuffle"
    probe = False

    def __init__(self, cid, p, inputs, styles, family):
        self.id, self.p, self.inputs, self.styles, self.family = cid, p, inputs, styles, family
        self.rels = p["rels"]
        self.text = g.rust_program_text(p)
        self.lats = g.lat_of(p)
        self.arity = {n: a for n, a, _ in p["rels"]}
        self._orc = None

    def rust_input(self, k):
        return g.rust_input(self.p, self.inputs[k])

    def decode_rows(self, snap):
        return g.decode_snapshot(self.p, snap)

    def decode_key(self, rel, cols, strs):
        return tuple(voc.decode(self.lats[rel], s) if (rel in self.lats and c == self.arity[rel] - 1) else int(s) for c, s in zip(cols, strs))

    def coq(self, dump):
        p = self.p
        R = dl.Names()
        for name, _, _ in p["rels"]:
            R(name)
        plan = g.coq_plan(p, dump, R)
        rules = dl.coq_list(g.coq_rule(r, R) for r in p["rules"])
        arities = dl.coq_list("(%s, %s)" % (dl.cnat(R(n)), dl.cnat(a)) for n, a, _ in p["rels"])
        lats = dl.coq_list("(%s, %s)" % (dl.cnat(R(n)), dl.cnat(voc.LTYPES[k[1]][0])) for n, a, k in p["rels"] if k != "rel")
        relnums = dl.cnats(R(n) for n, _, _ in p["rels"])
        runs = ["option_map (xshow %s) (xrun_plan lv3_interp lx_noagg (lv_islat %s) (lv3_jm %s) %s %s lv_swap (decls_of ds) %d%%nat pl %s)"
                % (relnums, lats, lats, self.shuffle, self.shuffle, FUEL_C03, g.coq_db(p, inp, R)) for inp in self.inputs]
        e = ("let pl := %s in let ds := %s in ((validate %s %s pl && lat_plan_ok (lv_islat %s) %s pl), xplan_ok (lv_islat %s) %s ds pl, %s)"
             % (plan, coq_decls(dump, R), arities, rules, lats, arities, lats, arities, dl.coq_list(runs)))
        return e, {v: k for k, v in R.d.items()}

    def spec(self, k):
        """({rel: sorted rows} | None, number of lattice keys raised at least once)"""
        orc = g.Oracle(self.p)
        st = orc.run(self.inputs[k])
        if st is None:
            return None, 0
        return g.canon_state(self.p, st), sum(1 for n in orc.raised.values() if n >= 1)

    def spec_check(self, k, rows, spec):
        """the C03 statement on the real rows -> reason | None"""
        for name, arity, kind in self.rels:
            got = rows[name]
            if name in self.lats:
                keys = [t[:-1] for t in got]
                if len(keys) != len(set(keys)):
                    return "lattice %s holds %d rows for %d keys (several rows per key): %s" % (name, len(got), len(set(keys)), sorted(got)[:8])
            if sorted(set(got)) != spec[name]:
                miss = [t for t in spec[name] if t not in got]
                extra = [t for t in got if t not in spec[name]]
                return "relation %s after run(): least fixed point has %s which the result lacks; the result has %s which is not in the least fixed point" % (name, miss[:5], extra[:5])
            if name not in self.lats and len(got) != len(set(got)):
                return "relation %s holds duplicate rows" % name
        return None

    def describe(self, k):
        return dict(program=self.text, id=self.id, family=self.family, prog=self.p, inputs=[self.inputs[k]])


class C04Case:
    """program TEXT in the vocabulary of gen/c04_latmodel.py (i32 max lattice / Dual<i32>, aggregates, negation)"""
    vocab = "c04"

    def __init__(self, case, family, probe=False, expect=None):
        self.case = case
        self.id, self.text, self.rels, self.inputs, self.family = case["id"], case["text"], case["rels"], case["inputs"], family
        self.probe = probe
        self.shuffle = "lx_ident" if probe else "lv_shuffle"
        self.expect = expect            # probes: per input {rel: sorted rows of the specification}
        self.styles = [family] * len(self.inputs)
        self.lats = {n: k[1] for n, _, k in self.rels if isinstance(k, tuple)}
        self.arity = {n: a for n, a, _ in self.rels}

    def rust_input(self, k):
        return self.inputs[k]

    def decode_rows(self, snap):
        return c04_lat.decode(snap)

    def decode_key(self, rel, cols, strs):
        return tuple(int(s) for s in strs)         # Dual<T> prints as its content

    def coq(self, dump):
        case = self.case
        R = dl.Names()
        for name, _, _ in case["rels"]:
            R(name)
        for rel in dump.get("relations", []):
            if rel["lattice"] != (rel["name"] in self.lats):
                raise lib.Infra("FRONT dump and case disagree on which relations are lattices: %s" % rel["name"])
        rules = [lm.parse_rule(hr, case["cap"]) for hr in dump["hir_rules"]]
        sccs = []
        lm.NVARS[0] = 0
        for sc in dump["sccs"]:
            vs = [lm.coq_variant(rules[v["hir"]], v, R) for v in sc["variants"]]
            sccs.append("{| s_vars := %s; s_dyn := %s; s_loop := %s |}" % (dl.coq_list(vs), dl.cnats(R(r) for r in sc["dynamic"]), "true" if sc["looping"] else "false"))
        plan = dl.coq_list(sccs)
        P = dl.coq_list(lm.coq_rule(r, R) for r in rules)
        arities = dl.coq_list("(%s, %s)" % (dl.cnat(R(n)), dl.cnat(a)) for n, a, _ in case["rels"])
        lats = dl.coq_list("(%s, %s)" % (dl.cnat(R(n)), dl.cnat(lm.LAT_ID[k[1]])) for n, _, k in case["rels"] if isinstance(k, tuple))
        relnums = dl.cnats(R(n) for n, _, _ in case["rels"])
        runs = ["option_map (xshow %s) (xrun_plan (c04lat_interp (%d)) std_aint (lv_islat %s) (lv_jm %s) %s %s lv_swap (decls_of ds) %d%%nat pl %s)"
                % (relnums, case["cap"], lats, lats, self.shuffle, self.shuffle, FUEL_C04, lm.coq_db(case, inp, R)) for inp in self.inputs]
        e = ("let pl := %s in let ds := %s in ((validate %s %s pl && alat_plan_ok (lv_islat %s) %s pl && plan_below %s pl), xplan_ok (lv_islat %s) %s ds pl, %s)"
             % (plan, coq_decls(dump, R), arities, P, lats, arities, dl.cnat(lm.NVARS[0]), lats, arities, dl.coq_list(runs)))
        return e, {v: k for k, v in R.d.items()}

    def spec(self, k):
        if self.probe:
            return self.expect[k], 0
        if "expected" not in self.case:
            return None, 0
        exp = self.case["expected"][k]
        # keys of d whose final value is not the weight of the direct edge: raised at least once (the base rule runs first)
        d = {t[:2]: t[2] for t in exp.get("d", [])}
        raised = sum(1 for (x, y, w) in self.inputs[k].get("edge", []) if d.get((x, y), w) != w)
        return {n: exp[n] for n, _, _ in self.rels if n in exp}, raised

    def spec_check(self, k, rows, spec):
        for name, _, _ in self.rels:
            if name not in spec:
                continue
            got = rows[name]
            if name in self.lats:
                keys = [t[:-1] for t in got]
                if len(keys) != len(set(keys)):
                    return "lattice %s holds %d rows for %d keys" % (name, len(keys), len(set(keys)))
            elif len(got) != len(set(got)):
                return "relation %s holds %d rows, %d distinct" % (name, len(got), len(set(got)))
            if sorted(got) != sorted(spec[name]):
                return "relation %s: got %s; the specification (stratified model over one row per key of the least fixed point) gives %s" % (
                    name, [t for t in sorted(got) if t not in spec[name]][:5], [t for t in spec[name] if t not in got][:5])
        return None

    def describe(self, k):
        return dict(program=self.text, id=self.id, family=self.family, input=self.inputs[k], macro="ascent!")


# ------------------------------------------------------------------ (a) the stale probes

_CNT = "cnt(v, n as i32) <-- probe(v), agg n = ascent::aggregators::count() in d(_, v);"


def stale_probes():
    """deterministic programs reading a lattice through an index on its VALUE column after a row was raised; `expect` = the specification
    (stratified model over the FINAL row per key) for the relations listed"""
    out = []
    p = c04_known.PROGRAMS[0]
    out.append(C04Case(dict(id="stale_known_probe", text=p["text"], rels=p["rels"], cap=9, inputs=[p["input"]]), "probe", True,
                       [{k: [tuple(t) for t in v] for k, v in p["expected"].items()}]))
    # a CLAUSE reads d through the index on the value column: the row is read at its current value, the index column is not re-tested
    out.append(C04Case(dict(id="stale_clause", cap=9,
                            text=("relation e(i32, i32);\nlattice d(i32, i32);\nrelation probe(i32);\nrelation r(i32, i32);\n"
                                  "d(x, v) <-- e(x, v);\n"
                                  "r(x, v) <-- probe(v), d(x, v);"),
                            rels=[("e", 2, "rel"), ("d", 2, ("lat", "max")), ("probe", 1, "rel"), ("r", 2, "rel")],
                            inputs=[{"e": [(1, 3), (1, 5), (2, 3)], "probe": [(3,), (5,), (7,)]}]), "probe", True,
                       [{"d": [(1, 5), (2, 3)], "r": [(1, 5), (2, 3)]}]))
    # a 3-column lattice read with d(x, _, v): index [0, 2] (an aggregate and a clause)
    out.append(C04Case(dict(id="stale_three_columns", cap=9,
                            text=("relation e(i32, i32, i32);\nlattice d(i32, i32, i32);\nrelation q(i32, i32);\nrelation s(i32, i32, i32);\nrelation k(i32, i32, i32);\n"
                                  "d(x, y, v) <-- e(x, y, v);\n"
                                  "s(x, v, t) <-- q(x, v), agg t = ascent::aggregators::sum(y) in d(x, y, v);\n"
                                  "k(x, y, v) <-- q(x, v), d(x, y, v);"),
                            rels=[("e", 3, "rel"), ("d", 3, ("lat", "max")), ("q", 2, "rel"), ("s", 3, "rel"), ("k", 3, "rel")],
                            inputs=[{"e": [(1, 1, 2), (1, 1, 4), (1, 2, 4), (2, 1, 2), (2, 1, 1)], "q": [(1, 2), (1, 4), (2, 2), (2, 1)]}]), "probe", True,
                       [{"d": [(1, 1, 4), (1, 2, 4), (2, 1, 2)], "s": [(1, 2, 0), (1, 4, 3), (2, 1, 0), (2, 2, 1)], "k": [(1, 1, 4), (1, 2, 4), (2, 1, 2)]}]))
    # one row raised TWICE (2 -> 4 -> 6, then a smaller value), the lattice column bound by a variable and by a constant
    out.append(C04Case(dict(id="stale_raised_twice", cap=9,
                            text=("relation e(i32, i32);\nlattice d(i32, i32);\nrelation probe(i32);\nrelation cnt(i32, i32);\nrelation hit(i32);\nrelation mx(i32, i32);\n"
                                  "d(x, v) <-- e(x, v);\n" + _CNT + "\n"
                                  "hit(x) <-- d(x, 4);\n"
                                  "mx(v, m) <-- probe(v), agg m = ascent::aggregators::max(x) in d(x, v);"),
                            rels=[("e", 2, "rel"), ("d", 2, ("lat", "max")), ("probe", 1, "rel"), ("cnt", 2, "rel"), ("hit", 1, "rel"), ("mx", 2, "rel")],
                            inputs=[{"e": [(1, 2), (1, 4), (2, 4), (1, 6), (3, 6), (1, 5)], "probe": [(2,), (4,), (5,), (6,)]}]), "probe", True,
                       [{"d": [(1, 6), (2, 4), (3, 6)], "cnt": [(2, 0), (4, 1), (5, 0), (6, 2)], "hit": [(2,)], "mx": [(4, 2), (6, 3)]}]))
    # a row raised over several ITERATIONS of a looping SCC: the index on the value column of `new` is merged into delta / total every time
    out.append(C04Case(dict(id="stale_loop", cap=6,
                            text=("relation e(i32, i32);\nrelation inc(i32, i32);\nlattice d(i32, i32);\nrelation probe(i32);\nrelation cnt(i32, i32);\n"
                                  "d(x, v) <-- e(x, v);\n"
                                  "d(x, (*v + *w).min(6)) <-- d(x, v), inc(x, w);\n" + _CNT),
                            rels=[("e", 2, "rel"), ("inc", 2, "rel"), ("d", 2, ("lat", "max")), ("probe", 1, "rel"), ("cnt", 2, "rel")],
                            inputs=[{"e": [(1, 3), (2, 5)], "inc": [(1, 1)], "probe": [(3,), (4,), (5,), (6,), (7,)]}]), "probe", True,
                       [{"d": [(1, 6), (2, 5)], "cnt": [(3, 0), (4, 0), (5, 1), (6, 1), (7, 0)]}]))
    # lattice rows in the INPUT: update_indices fills every index (the all-columns one too), then a row is raised
    out.append(C04Case(dict(id="stale_input_rows", cap=9, text=p["text"], rels=p["rels"],
                            inputs=[{"d": [(1, 2), (4, 9)], "e": [(1, 3), (1, 5), (2, 3)], "probe": [(2,), (3,), (5,), (9,)]}]), "probe", True,
                       [{"d": [(1, 5), (2, 3), (4, 9)], "cnt": [(2, 0), (3, 1), (5, 1), (9, 1)], "absent": [(2,)]}]))
    return out


# ------------------------------------------------------------------ (b) generated programs

def gen_cases(tier, seed):
    quick = tier == "quick"
    ninp = 3
    cases = []
    rng = lib.rng_for(seed, "LATIX")
    for i in range(18 if quick else 180):
        types = ["max", "dual"] if i % 4 == 0 else None
        p = g.gen_program(rng, types)
        ins = [g.gen_input(rng, p) for _ in range(ninp)]
        cases.append(C03Case("lx_c03_%d" % i, p, [a for a, _ in ins], [b for _, b in ins], "c03"))
    rng2 = lib.rng_for(seed, "LATIX/composite")
    tys = list(voc.COMPOSITE)
    for i in range(6 if quick else 60):
        p = g.composite_program(rng2, ty=tys[(i + seed) % len(tys)])
        ins = [g.composite_input(rng2, p) for _ in range(ninp)]
        cases.append(C03Case("lx_comp_%d" % i, p, [a for a, _ in ins], [b for _, b in ins], "c03_composite"))
    rng3 = lib.rng_for(seed, "LATIX/lex")
    tys = list(voc.LEX)
    for i in range(6 if quick else 60):
        p = lg.lex_program(rng3, ty=tys[(i + seed) % len(tys)])
        ins = [lg.lex_input(rng3, p) for _ in range(ninp)]
        cases.append(C03Case("lx_lex_%d" % i, p, [a for a, _ in ins], [b for _, b in ins], "c03_lex"))
    for c in lm.probes():
        cases.append(C04Case(dict(c, id="lx_" + c["id"]), "c04lat_fixed"))
    for c in c04_lat.cases(tier, seed):
        cases.append(C04Case(dict(c, id="lx_" + c["id"]), "c04lat"))
    return cases


# ------------------------------------------------------------------ running

def run_cases(cases, tag, coq_timeout=90):
    t0 = time.time()
    dumps = prog.front_run([(c.id, "ascent", c.text) for c in cases])
    t1 = time.time()
    jobs, scripts_of = [], {}
    for c in cases:
        d = dumps.get(c.id)
        if d is None or d.get("status") != "ok" or "sccs" not in d:
            continue
        dstep = dump_step(d)
        scripts_of[c.id] = [[("set", c.rust_input(k)), ("run",), ("snap",), dstep] for k in range(len(c.inputs))]
        jobs.append(dict(id=c.id, text=c.text, macro="ascent", rels=c.rels, scripts=scripts_of[c.id]))
    impl = prog.build_and_run(tag, jobs, run_timeout=300) if jobs else {}
    # one binary runs several programs one after the other: a run that does not finish takes the later ones with it; every (program, input)
    # left without a result by a timeout is run again in a binary of its own
    byid = {c.id: c for c in cases}
    iso = [(cid, k) for cid, rs in impl.items() for k, r_ in enumerate(rs or []) if isinstance(r_, dict) and r_.get("timeout")]
    if iso:
        ijobs = [dict(id="%s__i%d" % (cid, k), text=byid[cid].text, macro="ascent", rels=byid[cid].rels, scripts=[scripts_of[cid][k]]) for cid, k in iso]
        again = prog.build_and_run(tag + "_iso", ijobs, nbins=len(ijobs), run_timeout=30)
        for (cid, k), j in zip(iso, ijobs):
            if again.get(j["id"]):
                impl[cid] = list(impl[cid])
                impl[cid][k] = again[j["id"]][0]
    t2 = time.time()
    exprs, invs, errors = {}, {}, {}
    for c in cases:
        if c.id not in impl:
            continue
        try:
            exprs[c.id], invs[c.id] = c.coq(dumps[c.id])
        except (g.PlanMismatch, lm.Unsupported) as ex:
            errors[c.id] = "%s: %s" % (type(ex).__name__, ex)
    vals = {}
    for vocab, prelude in (("c03", PRELUDE_C03), ("c04", PRELUDE_C04)):
        ids = [c.id for c in cases if c.vocab == vocab and c.id in exprs]
        # the Coq case files are keyed by the tag: two runs at the same time must not share them
        vs = lib.coq_eval_groups("%s_%s_%d" % (tag, vocab, os.getpid()), prelude, [[exprs[i]] for i in ids], timeout=coq_timeout)
        vals.update(zip(ids, vs))
    t3 = time.time()
    out = []
    for c in cases:
        d = dumps.get(c.id, {})
        v = vals.get(c.id)
        out.append(dict(case=c, dump=d, front_status=d.get("status"), front_errors=d.get("errors"), impl=impl.get(c.id), error=errors.get(c.id),
                        model=v[0] if v else None, inv=invs.get(c.id), skipped=(c.id in vals and v is None)))
    return out, dict(front=t1 - t0, cargo_and_run=t2 - t1, coq=t3 - t2)


# ------------------------------------------------------------------ comparison

def proj(cols, t):
    return tuple(t[i] for i in cols)


def canon_field(ents):
    """[(key, [row ..])] -> sorted [(key, sorted rows)]"""
    return sorted((tuple(k), sorted(tuple(t) for t in rs)) for k, rs in ents)


def decode_model(mv, inv):
    """xshow value -> ({rel: rows in model order}, {field: (cols, is key, [(key, [row number ..])])})"""
    rows_l, idx_l = mv
    rows = {inv[r]: [tuple(t) for t in rs] for (r, rs) in rows_l}
    idx = {}
    for (r, fields) in idx_l:
        for (cols, iskey, ents) in fields:
            idx[field_name(inv[r], cols)] = (list(cols), iskey, [(tuple(k), list(ns)) for (k, ns) in ents])
    return rows, idx


def compare_run(c, k, decls, iv, mv, inv, stats):
    """one (program, input): -> (mismatches, probe verdict | None)"""
    mism = []
    cs = c.describe(k)
    if iv is None or "snaps" not in iv or len(iv["snaps"]) != 2:
        mism.append(dict(case=cs, impl=iv, model=None, spec=None, kind="impl_violates_spec", known=None,
                         what="implementation did not produce a result (compile error / panic / timeout): %s" % json.dumps(iv)[:600]))
        return mism, None
    stats["runs"] += 1
    rows = c.decode_rows(iv["snaps"][0])
    real = {ix["field"]: ix for ix in iv["snaps"][1]["indices"]}
    spec, raised = c.spec(k)
    stats["lattice_keys_raised"] += raised
    if raised:
        stats["runs_raising_a_row"] += 1
    differs_from_spec = None
    if spec is None:
        stats["spec_unavailable"] += 1
    else:
        differs_from_spec = c.spec_check(k, rows, spec)
        if differs_from_spec and not c.probe:
            mism.append(dict(case=cs, impl={n: sorted(v) for n, v in rows.items()}, model=None, spec=spec, kind="impl_violates_spec", known=None, what=differs_from_spec))
    # ---- the real index fields, row numbers resolved to the rows of the Vec field
    impl_fields, bad_numbers = {}, []
    for name, ar, cols, iskey in decls:
        f = field_name(name, cols)
        ix = real.get(f)
        if ix is None:
            raise lib.Infra("index field %s missing from the dump of %s" % (f, c.id))
        ents = []
        for kstrs, nums in ix["ents"]:
            key = c.decode_key(name, cols, kstrs)
            rs = []
            for i in nums:
                if i < len(rows[name]):
                    rs.append(rows[name][i])
                else:
                    bad_numbers.append((f, key, i))
            ents.append((key, rs))
        impl_fields[f] = canon_field(ents)
        n_ent = sum(len(rs) for _, rs in ents)
        stats["index_fields"] += 1
        stats["entries"] += n_ent
        has_lat = (ar - 1) in cols
        if has_lat:
            stats["fields_with_lattice_column"] += 1
            if n_ent:
                stats["fields_with_lattice_column_nonempty"] += 1
            st = sum(1 for key, rs in ents for t in rs if proj(cols, t) != key)
            stats["stale_entries_in_fields_with_lattice_column"] += st
            if st:
                stats["fields_with_a_stale_entry"] += 1
        if iskey:
            stats["key_index_fields"] += 1
        # the real data alone: an index over key columns only lists exactly the rows whose key projection matches; index_get agrees with
        # iter_all; len_estimate = number of keys
        why = []
        if not has_lat:
            exp = collections.defaultdict(list)
            for t in rows[name]:
                exp[proj(cols, t)].append(t)
            if canon_field(exp.items()) != impl_fields[f]:
                why.append("an index over key columns only must list exactly the rows of the relation under their key projection: expected %s, the field holds %s" % (
                    canon_field(exp.items())[:6], impl_fields[f][:6]))
        if not ix["get_ok"]:
            why.append("index_get(key) differs from what iter_all lists under the key")
        if ix["len"] != len(ix["ents"]):
            why.append("len_estimate %d but iter_all lists %d keys" % (ix["len"], len(ix["ents"])))
        if why:
            mism.append(dict(case=dict(cs, index=f), impl=dict(index=ix, rows=rows[name]), model=None,
                             spec="every index of a lattice relation over key columns lists exactly the row numbers whose key projection matches",
                             kind="impl_violates_spec", known=None, what="index field %s of lattice %s after run(): %s" % (f, name, "; ".join(why))))
    if bad_numbers:
        mism.append(dict(case=cs, impl=dict(row_numbers_beyond_the_rows=bad_numbers[:8]), model=None, spec="an index lists row numbers of existing rows", kind="impl_violates_spec", known=None,
                         what="an index field lists a row number beyond the rows of its relation: %s" % bad_numbers[:4]))
    # ---- against the model
    if mv is None:
        return mism, None
    if mv == "None":
        mism.append(dict(case=cs, impl="completed", model="None (out of fuel)", spec=None, kind="model_differs", known=None,
                         what="correspondence LatEngine/LatIndexedEval.v xrun_plan vs generated code: the model did not terminate within its fuel"))
        return mism, None
    assert mv[0] == "Some", mv
    m_rows, m_idx = decode_model(mv[1], inv)
    stats["runs_vs_model"] += 1
    rows_equal, fields_equal = True, True
    for name, _, _ in c.rels:
        if sorted(m_rows.get(name, [])) != sorted(rows.get(name, [])):
            rows_equal = False
            fixed = c.probe and differs_from_spec is None
            mism.append(dict(case=cs, impl={name: sorted(rows[name])}, model={name: sorted(m_rows.get(name, []))}, spec=(spec or {}).get(name), kind="model_differs", known=None,
                             what=("correspondence LatEngine/LatIndexedEval.v xrun_plan vs generated code (relation %s: rows as a multiset)%s" % (
                                 name, ": the implementation now gives the SPECIFICATION's result on this stale-index probe while the model still gives the stale one - the code was fixed, the model must follow" if fixed else ""))))
            break
    for name, ar, cols, iskey in decls:
        f = field_name(name, cols)
        if f not in m_idx:
            fields_equal = False
            mism.append(dict(case=dict(cs, index=f), impl="the macro plans this index", model="no such index in the model state: %s" % sorted(m_idx), spec=None, kind="model_differs", known=None,
                             what="the model has no index field %s" % f))
            continue
        mcols, mkey, ments = m_idx[f]
        res, badm = [], []
        for key, nums in ments:
            rs = []
            for i in nums:
                if i < len(m_rows[name]):
                    rs.append(m_rows[name][i])
                else:
                    badm.append((key, i))
            res.append((key, rs))
        mf = canon_field(res)
        stats["index_fields_vs_model"] += 1
        if mf != impl_fields[f] or badm or mkey is not iskey:
            fields_equal = False
            only_i = [e for e in impl_fields[f] if e not in mf]
            only_m = [e for e in mf if e not in impl_fields[f]]
            mism.append(dict(case=dict(cs, index=f), impl=dict(field=impl_fields[f], rows=rows[name], raw=real[f]["ents"]),
                             model=dict(field=mf, rows=m_rows[name], raw=ments, is_key_index=mkey), spec=None, kind="model_differs", known=None,
                             what="index field %s (lattice %s, columns %s%s) after run() differs from the model's: (key, rows) only in the implementation %s; only in the model %s%s" % (
                                 f, name, cols, ", the key index" if iskey else "", only_i[:6], only_m[:6], "; the model lists row numbers beyond its rows: %s" % badm[:4] if badm else "")))
    extra = sorted(set(m_idx) - {field_name(n, cols) for n, _, cols, _ in decls})
    if extra:
        mism.append(dict(case=cs, impl="no such field", model=extra, spec=None, kind="model_differs", known=None, what="the model keeps index fields the macro does not plan: %s" % extra))
    verdict = None
    if c.probe:
        if rows_equal and fields_equal and differs_from_spec:
            verdict = "faithful_to_defect"
        elif rows_equal and fields_equal:
            verdict = "agrees_with_specification"
        else:
            verdict = "model_differs"
    return mism, verdict


def compare_result(r, stats, probes_out):
    c = r["case"]
    mism = []
    base = dict(program=c.text, id=c.id, family=c.family)
    if r["front_status"] != "ok":
        mism.append(dict(case=base, impl=dict(front=r["front_status"], errors=r["front_errors"]), model=None, spec="well-formed lattice program: must compile",
                         kind="impl_violates_spec", known=None, what="front end rejects / panics on a generated lattice program: %s %s" % (r["front_status"], r["front_errors"])))
        return mism
    if r["error"]:
        raise lib.Infra("cannot translate the dumped plan of %s: %s\n%s" % (c.id, r["error"], c.text))
    for rel in r["dump"].get("relations", []):
        if rel["lattice"] != (rel["name"] in c.lats):
            raise lib.Infra("FRONT dump and program disagree on which relations are lattices: %s" % rel["name"])
    decls = lattice_decls(r["dump"])
    stats["programs"] += 1
    stats["family_" + c.family] += 1
    model = r["model"]
    runs = None
    if r["skipped"] or model is None:
        stats["programs_model_too_slow"] += 1
    else:
        valid, xok, runs = model
        if valid is True:
            stats["plans_valid"] += 1
        if xok is True:
            stats["plans_with_xplan_ok"] += 1
        if not c.probe:
            if valid is not True:
                mism.append(dict(case=base, impl="plan computed by the macro", model="validate && (a)lat_plan_ok [&& plan_below] = %s" % valid, spec=None, kind="model_differs", known=None,
                                 what="the plan dumped from the macro is rejected by validate / lat_plan_ok / alat_plan_ok / plan_below: the lattice theorems do not apply to this program"))
            if xok is not True:
                mism.append(dict(case=dict(base, relations=r["dump"]["relations"]), impl="plan + physical indices computed by the macro", model="xplan_ok = %s" % xok, spec=None, kind="model_differs", known=None,
                                 what="LatIndexedEval.xplan_ok is false on the dumped plan of a program that never indexes a lattice column: the refinement theorem does not apply"))
    for k in range(len(c.inputs)):
        iv = r["impl"][k] if r["impl"] else None
        mv = runs[k] if runs is not None else None
        ms, verdict = compare_run(c, k, decls, iv, mv, r["inv"], stats)
        mism += ms
        if c.probe:
            probes_out.append(dict(id=c.id, verdict=verdict, xplan_ok=(model[1] if model else None), valid=(model[0] if model else None)))
            if verdict:
                stats["probes_" + verdict] += 1
    return mism


def run_tie(tier="quick", seed=1, tag=None):
    tag = tag or ("latix_q" if tier == "quick" else "latix_t")
    cases = stale_probes() + gen_cases(tier, seed)
    results, timing = [], collections.Counter()
    chunk = 120
    for i in range(0, len(cases), chunk):
        rs, tm = run_cases(cases[i:i + chunk], tag)
        results += rs
        timing.update(tm)
    stats = collections.Counter()
    mism, probes_out = [], []
    for r in results:
        mism += compare_result(r, stats, probes_out)
    distinct = set()
    for r in results:
        c = r["case"]
        for k, iv in enumerate(r["impl"] or []):
            if isinstance(iv, dict) and len(iv.get("snaps", [])) == 2 and any(ix["ents"] for ix in iv["snaps"][1]["indices"]):
                distinct.add((c.text, json.dumps(c.inputs[k], sort_keys=True)))
    fams = {k[7:]: v for k, v in sorted(stats.items()) if k.startswith("family_")}
    cov = dict(programs=stats["programs"], families=fams, runs=stats["runs"], runs_compared_with_model=stats["runs_vs_model"],
               index_fields_compared=stats["index_fields"], index_fields_compared_with_model=stats["index_fields_vs_model"], entries_compared=stats["entries"],
               key_index_fields=stats["key_index_fields"],
               fields_whose_columns_include_the_lattice_column=stats["fields_with_lattice_column"],
               such_fields_nonempty=stats["fields_with_lattice_column_nonempty"],
               such_fields_with_a_stale_entry=stats["fields_with_a_stale_entry"], stale_entries_in_them=stats["stale_entries_in_fields_with_lattice_column"],
               runs_raising_a_lattice_row=stats["runs_raising_a_row"], lattice_keys_raised=stats["lattice_keys_raised"],
               probes=probes_out, probes_faithful_to_defect=stats["probes_faithful_to_defect"], probes_agreeing_with_specification=stats["probes_agrees_with_specification"],
               plans_valid=stats["plans_valid"], plans_with_xplan_ok=stats["plans_with_xplan_ok"],
               programs_model_too_slow=stats["programs_model_too_slow"], specification_unavailable=stats["spec_unavailable"],
               wall={k: round(v, 1) for k, v in timing.items()})
    return dict(evaluations=stats["runs"], distinct_nontrivial=len(distinct), mismatches=mism, coverage=cov,
                rule="(a) 6 deterministic stale-index probes (gen/c04_known.PROGRAMS[0] + clause through the value-column index, 3-column lattice through index [0,2], a row raised twice with the "
                     "lattice column bound by a variable and a constant, a row raised over the iterations of a looping SCC, lattice rows in the input) under the identity shuffle: rows and every index "
                     "field implementation = model, != specification (faithful_to_defect); (b) gen/c03_gen.py programs (shortest / widest paths, reachability sets, constant propagation, random "
                     "monotone programs; composite and lexicographic lattice columns) x 3 inputs and gen/c04_lat.py programs (a lattice raised over a recursive stratum, aggregated / negated through "
                     "every key-index shape) + the fixed case of gen/c04_latmodel.probes(): rows vs python specification and vs LatIndexedEval.xrun_plan; EVERY physical index field of every lattice "
                     "relation (key index, clause / aggregate indices, the all-columns index), row numbers resolved to rows, vs the model's and (indices over key columns) vs the rows of the Vec field; "
                     "xplan_ok = true; distinct = distinct (program, input) whose lattice index fields are not all empty after run()")


def main(argv=None):
    argv = list(sys.argv[1:] if argv is None else argv)
    tier = argv[0] if argv else "quick"
    seed = int(argv[1]) if len(argv) > 1 else 1
    t0 = time.time()
    res = run_tie(tier, seed)
    cov = res["coverage"]
    print("lattice indexed tie %s seed=%d repo=%s: %d programs %s, %d runs (%d compared with the model), %d index fields compared (%d with the model), %d entries compared; distinct non-trivial %d" % (
        tier, seed, lib.REPO, cov["programs"], cov["families"], cov["runs"], cov["runs_compared_with_model"], cov["index_fields_compared"], cov["index_fields_compared_with_model"],
        cov["entries_compared"], res["distinct_nontrivial"]))
    print("  key index fields %d; fields whose columns include the lattice column %d (non-empty %d, with a stale entry %d, stale entries %d); runs raising a lattice row %d (keys raised %d)" % (
        cov["key_index_fields"], cov["fields_whose_columns_include_the_lattice_column"], cov["such_fields_nonempty"], cov["such_fields_with_a_stale_entry"], cov["stale_entries_in_them"],
        cov["runs_raising_a_lattice_row"], cov["lattice_keys_raised"]))
    print("  plans valid %d, with xplan_ok %d (of %d programs, %d of them probes expected false); model too slow (skipped) %d; specification unavailable %d" % (
        cov["plans_valid"], cov["plans_with_xplan_ok"], cov["programs"], len(cov["probes"]), cov["programs_model_too_slow"], cov["specification_unavailable"]))
    print("  probes: faithful_to_defect %d, agreeing with the specification %d" % (cov["probes_faithful_to_defect"], cov["probes_agreeing_with_specification"]))
    for p in cov["probes"]:
        print("    %-22s %s (xplan_ok=%s, validate && alat_plan_ok && plan_below=%s)" % (p["id"], p["verdict"], p["xplan_ok"], p["valid"]))
    print("  wall %.1fs (%s)" % (time.time() - t0, cov["wall"]))
    ms = res["mismatches"]
    by_prog = collections.OrderedDict()
    for m in ms:
        by_prog.setdefault(m["case"].get("id"), []).append(m)
    shown = 0
    for pid, lst in list(by_prog.items())[:PRINT_PROGRAMS]:
        cs = lst[0]["case"]
        print("MISMATCH in program %s: %s" % (pid, cs.get("program", "").replace("\n", " | ")))
        for m in lst[:PRINT_PER_PROGRAM]:
            shown += 1
            print("   kind=%s %s" % (m["kind"], m["what"]))
            inp = m["case"].get("input", m["case"].get("inputs"))
            if inp is not None:
                print("      input=%s" % json.dumps(inp))
    if len(ms) > shown:
        print("... %d more mismatches (%d programs affected)" % (len(ms) - shown, len(by_prog)))
    print("mismatches: %d (model_differs %d, impl_violates_spec %d)" % (len(ms), sum(1 for m in ms if m["kind"] == "model_differs"), sum(1 for m in ms if m["kind"] == "impl_violates_spec")))
    return 1 if ms else 0


if __name__ == "__main__":
    sys.exit(main())
