"""C03 vocabulary, part 3: LEXICOGRAPHIC tuple lattices (ascent_base/src/lattice/tuple.rs) as lattice columns.

The shipped tuple lattices are the only lattice code whose join_mut goes through `Ord::cmp` (of the tuple, hence of every
component type: Dual<T>, Reverse<T>, Option<T>, nested tuples), while the order the property speaks about is PartialOrd.
Table LEX: tuples with Dual / Reverse / Option components at every position, a nested tuple, and the wrappers Dual / Option /
OrdLattice around a tuple.  Coq side: coq/LatEngine/LatVocabLex.v (same coding; join_mut there is C16's model
`jm (denote t)`), python side: the mathematical lexicographic order on the flat component lists.

A type is described by its STRUCTURE:
   'U' u32 (upwards)   'D' Dual<u32>   'R' Reverse<u32>   'O' Option<u32> (component code None -> 0, Some n -> n + 1, upwards)
   ('tup', [s..]) std tuple (lexicographic)   ('dual', s) Dual<s>   ('ord', s) OrdLattice<s>   ('opt', s) Option<s> (top level only)
Code of a value: flat component codes in order, radix K (None of a top-level Option -> 0, Some v -> code v + 1).

Vocabulary per type T (every function is monotone, every test upward closed IN THE LEXICOGRAPHIC ORDER):
   functions  0 T_of(p..)      1 T_id(T)
              2 T_via(T, w, x)  first component advanced by w (downwards component: c + w; upwards: min(c + w, CAP)), every
                                other component replaced by the plain x (the `cost, then witness` idiom)
              3 T_adv(T, w)     components in order: while all earlier ones moved injectively (c + w on a downwards component)
                                the next is advanced too; after a saturating move (min(c + w, CAP) upwards) the rest becomes w
              4 T_keep(T, w)    all but the last component kept, the last one moved up in its own direction (saturating)
              5 T_merge(T, T)   component-wise sums under the same injective-prefix rule, the rest 0
   tests      0 T_ge(T, p..)   `l >= T_of(p..)` with the Rust operator on the real type    1 T_first_hi(T)    2 T_gt(T, p..)  `l > T_of(p..)`
"""
import re

K = 1024
CAP = 9

_OL = "ascent::lattice::ord_lattice::OrdLattice"
# name: (type id, structure)       the ORDER of this table is the number k of LatVocabLex.v (type id 20 + k, function ids 700 + 10 k + op,
#                                  predicate ids 850 + 10 k + op)
LEX = {
    "lexdu": (20, ("tup", ["D", "U"])),
    "lexud": (21, ("tup", ["U", "D"])),
    "lexdd": (22, ("tup", ["D", "D"])),
    "lexudu": (23, ("tup", ["U", "D", "U"])),
    "lexdud": (24, ("tup", ["D", "U", "D"])),
    "lexru": (25, ("tup", ["R", "U"])),
    "lexod": (26, ("tup", ["O", "D"])),
    "dlexuu": (27, ("dual", ("tup", ["U", "U"]))),
    "olexdu": (28, ("opt", ("tup", ["D", "U"]))),
    "lexnest": (29, ("tup", [("tup", ["D", "U"]), "U"])),
    "ordlexdu": (30, ("ord", ("tup", ["D", "U"]))),
}


def _inner(s):
    return s[1] if isinstance(s, tuple) and s[0] == "opt" else s


def is_opt(ty):
    s = LEX[ty][1]
    return isinstance(s, tuple) and s[0] == "opt"


def _rust_type(s):
    if s == "U":
        return "u32"
    if s == "D":
        return "ascent::Dual<u32>"
    if s == "R":
        return "std::cmp::Reverse<u32>"
    if s == "O":
        return "Option<u32>"
    if s[0] == "tup":
        return "(%s)" % ", ".join(_rust_type(x) for x in s[1])
    if s[0] == "dual":
        return "ascent::Dual<%s>" % _rust_type(s[1])
    if s[0] == "ord":
        return "%s<%s>" % (_OL, _rust_type(s[1]))
    if s[0] == "opt":
        return "Option<%s>" % _rust_type(s[1])
    raise ValueError(s)


def _dirs(s):
    if s in ("U", "O"):
        return [1]
    if s in ("D", "R"):
        return [-1]
    if s[0] == "tup":
        return [d for x in s[1] for d in _dirs(x)]
    if s[0] == "dual":
        return [-d for d in _dirs(s[1])]
    if s[0] in ("ord", "opt"):
        return _dirs(s[1])
    raise ValueError(s)


def _ctor(s, it, lit=False):
    """Rust expression building a value of structure s from the iterator `it` of component CODE expressions (u32);
    lit: the iterator yields python ints (literal value)"""
    if s in ("U", "D", "R"):
        e = next(it)
        e = "%du32" % e if lit else e
        return e if s == "U" else ("ascent::Dual(%s)" if s == "D" else "std::cmp::Reverse(%s)") % e
    if s == "O":
        e = next(it)
        if lit:
            return "None" if e == 0 else "Some(%du32)" % (e - 1)
        return "(if %s == 0 { None } else { Some(%s - 1) })" % (e, e)
    if s[0] == "tup":
        return "(%s)" % ", ".join(_ctor(x, it, lit) for x in s[1])
    if s[0] == "dual":
        return "ascent::Dual(%s)" % _ctor(s[1], it, lit)
    if s[0] == "ord":
        return "%s(%s)" % (_OL, _ctor(s[1], it, lit))
    raise ValueError(s)


def _acc(s, e):
    """Rust expressions of the flat component codes of the value expression e of structure s"""
    if s == "U":
        return [e]
    if s in ("D", "R"):
        return [e + ".0"]
    if s == "O":
        return ["%s.map_or(0u32, |__o| __o + 1)" % e]
    if s[0] == "tup":
        return [a for i, x in enumerate(s[1]) for a in _acc(x, "%s.%d" % (e, i))]
    if s[0] in ("dual", "ord"):
        return _acc(s[1], e + ".0")
    raise ValueError(s)


def _dbg(s):
    """regex of the `{:?}` output (Dual and OrdLattice print their content; Reverse and Option are derived)"""
    if s in ("U", "D"):
        return r"(\d+)"
    if s == "R":
        return r"Reverse\((\d+)\)"
    if s == "O":
        return r"(None|Some\(\d+\))"
    if s[0] == "tup":
        return r"\(" + ", ".join(_dbg(x) for x in s[1]) + r"\)"
    if s[0] in ("dual", "ord"):
        return _dbg(s[1])
    raise ValueError(s)


def _kinds(s):
    if isinstance(s, str):
        return [s]
    if s[0] == "tup":
        return [k for x in s[1] for k in _kinds(x)]
    return _kinds(s[1])


def rust_type(ty):
    return _rust_type(LEX[ty][1])


def dirs(ty):
    return _dirs(LEX[ty][1])


def comps(ty, c):
    """flat component codes of the value with code c (None for a top-level Option's None)"""
    n = len(dirs(ty))
    if is_opt(ty):
        if c == 0:
            return None
        c -= 1
    out = []
    for _ in range(n):
        out.append(c % K)
        c //= K
    assert c == 0, (ty, c)
    return out[::-1]


def mk(ty, cs):
    if cs is None:
        assert is_opt(ty)
        return 0
    c = 0
    for x in cs:
        assert 0 <= x < K, (ty, cs)
        c = c * K + x
    return c + 1 if is_opt(ty) else c


def lex_le(ds, a, b):
    """a <= b in the lexicographic order of component lists with directions"""
    for d, x, y in zip(ds, a, b):
        if x != y:
            return x < y if d > 0 else y < x
    return True


def leq(ty, a, b):
    x, y = comps(ty, a), comps(ty, b)
    if x is None:
        return True
    if y is None:
        return False
    return lex_le(dirs(ty), x, y)


def join(ty, a, b):
    """the mathematical least upper bound: the order is total, so the larger of the two (PartialOrd of the shipped type)"""
    return b if leq(ty, a, b) else a


def rust_value(ty, c):
    cs = comps(ty, c)
    if cs is None:
        return "None"
    v = _ctor(_inner(LEX[ty][1]), iter(cs), lit=True)
    return "Some(%s)" % v if is_opt(ty) else v


def decode(ty, s):
    s = s.strip()
    if is_opt(ty):
        if s == "None":
            return 0
        m = re.fullmatch(r"Some\((.*)\)", s)
        assert m, (ty, s)
        s = m.group(1)
    st = _inner(LEX[ty][1])
    m = re.fullmatch(_dbg(st), s)
    assert m, (ty, s)
    cs = []
    for kind, g in zip(_kinds(st), m.groups()):
        if kind == "O":
            cs.append(0 if g == "None" else int(g[5:-1]) + 1)
        else:
            cs.append(int(g))
    return mk(ty, cs)


# ------------------------------------------------------------------ vocabulary (python semantics on codes)
def _adv1(d, c, w):
    return min(c + w, CAP) if d > 0 else c + w


def f_via(ty, l, w, x):
    cs = comps(ty, l)
    if cs is None:
        return 0
    ds = dirs(ty)
    return mk(ty, [_adv1(ds[0], cs[0], w)] + [x] * (len(cs) - 1))


def f_adv(ty, l, w):
    cs = comps(ty, l)
    if cs is None:
        return 0
    out, strict = [], True
    for d, c in zip(dirs(ty), cs):
        if strict:
            out.append(_adv1(d, c, w))
            strict = d < 0
        else:
            out.append(w)
    return mk(ty, out)


def f_keep(ty, l, w):
    cs = comps(ty, l)
    if cs is None:
        return 0
    d = dirs(ty)[-1]
    return mk(ty, cs[:-1] + [min(cs[-1] + w, CAP) if d > 0 else max(cs[-1] - w, 0)])


def f_merge(ty, a, b):
    x, y = comps(ty, a), comps(ty, b)
    if x is None or y is None:
        return 0
    out, strict = [], True
    for d, u, v in zip(dirs(ty), x, y):
        if strict:
            out.append(_adv1(d, u, v))
            strict = d < 0
        else:
            out.append(0)
    return mk(ty, out)


def p_ge(ty, l, *ps):
    cs = comps(ty, l)
    return cs is not None and lex_le(dirs(ty), list(ps), cs)


def p_gt(ty, l, *ps):
    cs = comps(ty, l)
    return cs is not None and list(ps) != cs and lex_le(dirs(ty), list(ps), cs)


def p_first_hi(ty, l):
    cs = comps(ty, l)
    if cs is None:
        return False
    return cs[0] >= 3 if dirs(ty)[0] > 0 else cs[0] <= 3


def install(voc):
    """register the LEX types in the tables of gen/c03_vocab.py"""
    for k, (ty, (tid, st)) in enumerate(LEX.items()):
        assert tid == 20 + k
        voc.LTYPES[ty] = (tid, rust_type(ty))
        ds = dirs(ty)
        n = len(ds)
        opt = is_opt(ty)
        si = _inner(st)
        fb, pb = 700 + 10 * k, 850 + 10 * k
        wrap = (lambda e: "Some(%s)" % e) if opt else (lambda e: e)
        a_v = _acc(si, "__v")
        a_u = _acc(si, "__u")
        of = wrap(_ctor(si, iter("($%d as u32)" % i for i in range(n))))
        adv1 = lambda d, a, w: ("(%s + %s).min(%d)" % (a, w, CAP)) if d > 0 else ("(%s + %s)" % (a, w))
        via_in = _ctor(si, iter([adv1(ds[0], a_v[0], "__w")] + ["__x"] * (n - 1)))
        adv_c, strict = [], True
        for d, a in zip(ds, a_v):
            adv_c.append(adv1(d, a, "__w") if strict else "__w")
            strict = strict and d < 0
        adv_in = _ctor(si, iter(adv_c))
        keep_in = _ctor(si, iter(a_v[:-1] + [("(%s + __w).min(%d)" % (a_v[-1], CAP)) if ds[-1] > 0 else ("%s.saturating_sub(__w)" % a_v[-1])]))
        mer_c, strict = [], True
        for d, a, b in zip(ds, a_v, a_u):
            mer_c.append(adv1(d, a, b) if strict else "0u32")
            strict = strict and d < 0
        merge_in = _ctor(si, iter(mer_c))
        if opt:
            via = "({ let __w = $1 as u32; let __x = $2 as u32; $0.clone().map(|__v| %s) })" % via_in
            adv = "({ let __w = $1 as u32; $0.clone().map(|__v| %s) })" % adv_in
            keep = "({ let __w = $1 as u32; $0.clone().map(|__v| %s) })" % keep_in
            merge = "(match ($0.clone(), $1.clone()) { (Some(__v), Some(__u)) => Some(%s), _ => None })" % merge_in
            first = "$0.clone().map_or(false, |__v| %s)"
        else:
            via = "({ let __v = $0.clone(); let __w = $1 as u32; let __x = $2 as u32; %s })" % via_in
            adv = "({ let __v = $0.clone(); let __w = $1 as u32; %s })" % adv_in
            keep = "({ let __v = $0.clone(); let __w = $1 as u32; %s })" % keep_in
            merge = "({ let __v = $0.clone(); let __u = $1.clone(); %s })" % merge_in
            first = "({ let __v = $0.clone(); %s })"
        thr = wrap(_ctor(si, iter("($%d as u32)" % (i + 1) for i in range(n))))
        voc.FUNS[ty + "_of"] = (fb, n, of, (lambda *xs, ty=ty: mk(ty, list(xs))))
        voc.FUN_SIG[ty + "_of"] = (ty, ["p"] * n)
        voc.FUNS[ty + "_id"] = (fb + 1, 1, "$0.clone()", lambda l: l)
        voc.FUN_SIG[ty + "_id"] = (ty, [ty])
        voc.FUNS[ty + "_via"] = (fb + 2, 3, via, (lambda l, w, x, ty=ty: f_via(ty, l, w, x)))
        voc.FUN_SIG[ty + "_via"] = (ty, [ty, "p", "p"])
        voc.FUNS[ty + "_adv"] = (fb + 3, 2, adv, (lambda l, w, ty=ty: f_adv(ty, l, w)))
        voc.FUN_SIG[ty + "_adv"] = (ty, [ty, "p"])
        voc.FUNS[ty + "_keep"] = (fb + 4, 2, keep, (lambda l, w, ty=ty: f_keep(ty, l, w)))
        voc.FUN_SIG[ty + "_keep"] = (ty, [ty, "p"])
        voc.FUNS[ty + "_merge"] = (fb + 5, 2, merge, (lambda a, b, ty=ty: f_merge(ty, a, b)))
        voc.FUN_SIG[ty + "_merge"] = (ty, [ty, ty])
        # the real comparison operators of the shipped type (tuple / Option / OrdLattice PartialOrd over the components' PartialOrd)
        voc.PREDS[ty + "_ge"] = (pb, n + 1, "($0.clone() >= %s)" % thr, (lambda l, *ps, ty=ty: p_ge(ty, l, *ps)))
        voc.PRED_SIG[ty + "_ge"] = [ty] + ["p"] * n
        voc.PREDS[ty + "_first_hi"] = (pb + 1, 1, first % ("%s %s 3" % (a_v[0], ">=" if ds[0] > 0 else "<=")), (lambda l, ty=ty: p_first_hi(ty, l)))
        voc.PRED_SIG[ty + "_first_hi"] = [ty]
        voc.PREDS[ty + "_gt"] = (pb + 2, n + 1, "($0.clone() > %s)" % thr, (lambda l, *ps, ty=ty: p_gt(ty, l, *ps)))
        voc.PRED_SIG[ty + "_gt"] = [ty] + ["p"] * n
        vals = [0, 2, CAP] if n == 2 else [0, CAP]
        dom = [[]]
        for _ in ds:
            dom = [d + [v] for d in dom for v in vals]
        voc.DOMAINS[ty] = ([0] if opt else []) + [mk(ty, d) for d in dom]
