"""Programs whose STRATUM DAG (the condensation of the rule dependency graph) is deep and irregular, with inputs on which every
stratum derives something, so that a stratum evaluated before one of its producers visibly misses tuples.

Why: the order in which the strata are evaluated is computed by the macro (ascent_mir.rs: petgraph condensation, reversed).  The
random programs of gen/gen_dl.py have 1-6 rules over 2-5 relations: at most three strata in a row, no diamonds with arms of
different length, hardly ever a consumer whose producers sit at different depths.  Any hand-written topological sort is right on
those.  The families here vary exactly what such a sort has to get right:

  dag families   random (every node reads its predecessor and / or nodes far back), diamond (one source, two arms whose lengths
                 differ by 0-4, a merge node, a tail of readers), skipchain (a chain with forward skip edges), fanin (independent
                 chains of different length into one consumer, then readers), braid (two chains that exchange edges)
  node kinds     plain (one JOIN rule over several producers, or a UNION of rules, one per producer: every non-recursive rule is a
                 stratum of its own), linear / non-linear recursion, symmetric + transitive (a two-rule recursive stratum: every
                 reader gets two rule-level edges from ONE stratum), mutual recursion over a partner relation (readers of both
                 relations), second (recursive) rule reading another producer
  text order     shuffled, consumers first (reverse dependency order), dependency order, consumers directly before their last
                 producer, producers of one consumer far apart; all_orders() lists the rule-order variants used by C06
  inputs         chosen among random candidates with the python evaluator below: every rule fires, and as many stratum edges
                 (P -> C) as possible are SENSITIVE (evaluating C immediately before P instead of after it changes the result)

Programs are ASTs of gen/dl.py (relations of arity 1-2, plain variables, few constants / wildcards / `if` conditions, now and then
an interpreted function in a head), inside the core language of Engine/Core.v.  The evaluator in this file only selects inputs and
measures coverage; the oracle of the ties stays the specification semantics (naive_fix inside Coq).
"""
import itertools

from . import dl, engine_tie

DOM = list(range(0, 6))


# ------------------------------------------------------------------ python evaluation (input selection / coverage only)

def _pred(name, a):
    if name == "lt":
        return a[0] < a[1]
    if name == "ne":
        return a[0] != a[1]
    if name == "even":
        return a[0] % 2 == 0
    if name == "le":
        return a[0] <= a[1]
    raise KeyError(name)


def _term(e, t):
    if t[0] == "v":
        return e[t[1]]
    if t[0] == "c":
        return t[1]
    if t[0] == "f":
        return dl.py_fun(t[1], [e[x] for x in t[2]])
    raise KeyError(t[0])


def _conds(e, conds):
    for c in conds:
        if c[0] == "if":
            if not _pred(c[1], [e[x] for x in c[2]]):
                return None
        elif c[0] == "let":
            e = dict(e)
            e[c[1]] = dl.py_fun(c[2], [e[x] for x in c[3]])
        elif c[0] == "letc":
            e = dict(e)
            e[c[1]] = c[2]
        else:
            raise KeyError(c[0])
    return e


def rule_derive(rule, db):
    """set of (rel, tuple) the rule derives from the database {rel: set of tuples}"""
    envs = [{}]
    for it in rule["body"]:
        nxt = []
        if it[0] == "clause":
            rows = db.get(it[1], ())
            for e in envs:
                for row in rows:
                    e2 = dict(e)
                    ok = True
                    for t, v in zip(it[2], row):
                        if t[0] == "w":
                            continue
                        if t[0] == "v" and t[1] not in e2:
                            e2[t[1]] = v
                        elif _term(e2, t) != v:
                            ok = False
                            break
                    if ok:
                        e3 = _conds(e2, it[3])
                        if e3 is not None:
                            nxt.append(e3)
        elif it[0] == "cond":
            for e in envs:
                e3 = _conds(e, [it[1]])
                if e3 is not None:
                    nxt.append(e3)
        else:
            raise KeyError(it[0])
        envs = nxt
        if not envs:
            break
    out = set()
    for e in envs:
        for rel, args in rule["heads"]:
            out.add((rel, tuple(_term(e, t) for t in args)))
    return out


def eval_order(p, comps, inp):
    """every stratum (list of rule indices) evaluated ONCE, to its own fixed point, in the given order: what the generated code does"""
    db = {name: set(map(tuple, inp.get(name, []))) for name, _, _ in p["rels"]}
    for comp in comps:
        changed = True
        while changed:
            changed = False
            for j in comp:
                for rel, t in rule_derive(p["rules"][j], db):
                    if t not in db[rel]:
                        db[rel].add(t)
                        changed = True
    return db


def least_model(p, inp):
    return eval_order(p, [list(range(len(p["rules"])))], inp)


def strata(p):
    """(strata in dependency order, edges between strata {(i, j)}: stratum j reads a relation stratum i writes, multiplicity)"""
    comps = engine_tie.stratify(p["rules"])
    of = {j: k for k, comp in enumerate(comps) for j in comp}
    rr = [engine_tie.rule_rels(r) for r in p["rules"]]
    edges = {}
    for i in range(len(rr)):
        for j in range(len(rr)):
            if of[i] != of[j] and set(rr[i][0]) & set(rr[j][1]):
                edges[(of[i], of[j])] = edges.get((of[i], of[j]), 0) + 1
    return comps, edges


def depths(n, edges):
    """(longest, shortest) dependency chain leading to every stratum of a dependency-ordered partition"""
    lo, hi = [0] * n, [0] * n
    for k in range(n):
        ps = [i for (i, j) in edges if j == k]
        if ps:
            hi[k] = 1 + max(hi[i] for i in ps)
            lo[k] = 1 + min(lo[i] for i in ps)
    return hi, lo


def sensitive_edges(p, inp, comps=None, edges=None):
    """stratum edges (P, C) such that evaluating C directly BEFORE P (everything else in dependency order) changes some relation"""
    if comps is None:
        comps, edges = strata(p)
    lm = eval_order(p, comps, inp)
    out = []
    for (i, j) in sorted(edges):
        order = [c for k, c in enumerate(comps) if k != j]
        order.insert(i, comps[j])
        if eval_order(p, order, inp) != lm:
            out.append((i, j))
    return out, lm


def shape_stats(p):
    comps, edges = strata(p)
    hi, lo = depths(len(comps), edges)
    # a stratum reached over chains whose lengths differ by >= 2 that is itself read by a later stratum
    readers = {i for (i, j) in edges}
    return dict(strata=len(comps), depth=max(hi) if hi else 0, edges=len(edges),
                double_edges=sum(1 for m in edges.values() if m >= 2),
                uneven=sum(1 for k in range(len(comps)) if hi[k] - lo[k] >= 2 and k in readers),
                fanin=sum(1 for k in range(len(comps)) if len([1 for (i, j) in edges if j == k]) >= 2),
                # a stratum with >= 2 producer strata, one of them connected to it by >= 2 rule-level edges
                double_fanin=sum(1 for k in range(len(comps)) if len([1 for (i, j) in edges if j == k]) >= 2 and any(m >= 2 for (i, j), m in edges.items() if j == k)),
                looping=sum(1 for c in comps if len(c) > 1 or any(set(engine_tie.rule_rels(p["rules"][j])[0]) & set(engine_tie.rule_rels(p["rules"][j])[1]) for j in c)))


# ------------------------------------------------------------------ stratum DAGs (over derived relations 0..n-1, producers first)

def dag_random(rng, n):
    preds = {0: []}
    for i in range(1, n):
        ps = set()
        if rng.random() < 0.65:
            ps.add(i - 1)
        for _ in range(rng.choice([0, 1, 1, 2])):
            # biased to nodes far back
            ps.add(min(rng.randrange(i), rng.randrange(i)))
        if not ps and rng.random() < 0.8:
            ps.add(rng.randrange(i))
        preds[i] = sorted(ps)
    return preds


def dag_diamond(rng, n):
    """source 0; arm A of a inner nodes, arm B of b inner nodes; merge; tail.  n >= 4"""
    inner = max(1, n - 3)
    a = rng.choice([0, 0, 0, 1])
    a = min(a, inner - 1)
    tail = rng.choice([1, 1, 2, 3])
    b = max(1, inner - a)
    while 1 + a + b + 1 + tail > max(n, 4) + 1 and (tail > 1 or b > 1):
        if tail > 1 and rng.random() < 0.5:
            tail -= 1
        elif b > 1:
            b -= 1
        else:
            tail -= 1
    preds = {0: []}
    k = 1
    last_a = 0
    for _ in range(a):
        preds[k] = [last_a]
        last_a = k
        k += 1
    last_b = 0
    for _ in range(b):
        preds[k] = [last_b]
        last_b = k
        k += 1
    merge = k
    preds[merge] = sorted({last_a, last_b})
    k += 1
    prev = merge
    for t in range(tail):
        ps = {prev}
        if t > 0 and rng.random() < 0.3:
            ps.add(rng.randrange(k))
        preds[k] = sorted(ps)
        prev = k if rng.random() < 0.75 else prev       # readers in a row, or side by side
        k += 1
    return preds


def dag_skipchain(rng, n):
    preds = {0: []}
    for i in range(1, n):
        preds[i] = [i - 1]
    for _ in range(rng.choice([1, 2, 2, 3])):
        j = rng.randrange(2, n) if n > 2 else 1
        i = rng.randrange(0, max(1, j - 1))
        preds[j] = sorted(set(preds[j]) | {i})
    return preds


def dag_fanin(rng, n):
    """chains of different length, all from the inputs, into one consumer, then readers"""
    preds = {}
    k = 0
    ends = []
    budget = max(3, n - 2)
    nch = rng.choice([2, 2, 3])
    lens = [1] * nch
    for _ in range(max(0, budget - nch)):
        # biased to one long chain next to short ones
        lens[0 if rng.random() < 0.6 else rng.randrange(nch)] += 1
    rng.shuffle(lens)
    for ln in lens:
        prev = None
        for _ in range(ln):
            preds[k] = [] if prev is None else [prev]
            prev = k
            k += 1
        ends.append(prev)
    preds[k] = sorted(ends)
    cons = k
    k += 1
    prev = cons
    for _ in range(rng.choice([1, 1, 2])):
        preds[k] = [prev]
        prev = k
        k += 1
    return preds


def dag_braid(rng, n):
    """two chains that exchange edges"""
    preds = {0: [], 1: []}
    for i in range(2, n):
        ps = {i - 2}
        if rng.random() < 0.5:
            ps.add(i - 1 if rng.random() < 0.6 else rng.randrange(i))
        preds[i] = sorted(ps)
    return preds


DAGS = dict(random=dag_random, diamond=dag_diamond, skipchain=dag_skipchain, fanin=dag_fanin, braid=dag_braid)


# ------------------------------------------------------------------ rules

class _Vars:
    def __init__(self):
        self.n = 0

    def fresh(self):
        self.n += 1
        return "x%d" % self.n


def chain_body(rng, srcs, arity, p_cond=0.12, p_const=0.05):
    """a chain join over the relations `srcs` = [(name, arity)]: consecutive clauses share a variable.  Returns (body, variables)"""
    V = _Vars()
    cur = V.fresh()
    seen = [cur]
    body = []
    for k, (name, ar) in enumerate(srcs):
        if ar == 1:
            args = [("v", cur)]
        else:
            nxt = V.fresh()
            if rng.random() < 0.3:
                args = [("v", nxt), ("v", cur)]
            else:
                args = [("v", cur), ("v", nxt)]
            if k == len(srcs) - 1 and len(seen) >= arity and rng.random() < 0.12:
                args = [a if a[1] != nxt else ("w",) for a in args]
            elif k > 0 and rng.random() < p_const:
                args = [a if a[1] != nxt else ("c", rng.choice(DOM)) for a in args]
            else:
                seen.append(nxt)
                if rng.random() < 0.8:
                    cur = nxt
        conds = []
        if len(seen) >= 2 and rng.random() < p_cond:
            a, b = rng.sample(seen, 2)
            conds.append(("if", rng.choice(["ne", "le", "ne"]), [a, b]))
        body.append(("clause", name, args, conds))
    return body, seen


def head_args(rng, seen, arity, p_fun=0.06):
    if arity == 1:
        return [("v", rng.choice(seen))]
    if len(seen) >= 2:
        a, b = (seen[0], seen[-1]) if rng.random() < 0.6 else rng.sample(seen, 2)
        if rng.random() < 0.3:
            a, b = b, a
        args = [("v", a), ("v", b)]
    else:
        args = [("v", seen[0]), ("v", seen[0]) if rng.random() < 0.6 else ("c", rng.choice(DOM))]
    if rng.random() < p_fun:
        k = rng.randrange(2)
        if args[k][0] == "v":
            args[k] = ("f", rng.choice(["incs", "decs", "mod3"]), [args[k][1]])
    return args


def tvars(a, b):
    return [("v", a), ("v", b)]


def gen_program(rng, opts=None):
    """dict(rels, rules, shape='scc:<family>', scc=dict(...)): rules in DEPENDENCY order of the relations (see order_rules)"""
    o = dict(opts or {})
    fam = o.get("family") or rng.choice(o.get("families", ["random", "random", "diamond", "diamond", "skipchain", "fanin", "braid"]))
    n = rng.choice(o.get("nodes", [4, 5, 5, 6, 6, 7]))
    preds = DAGS[fam](rng, n)
    n = len(preds)
    inputs = [("e0", 2), ("e1", 2)] + ([("u0", 1)] if rng.random() < 0.5 else [])
    ar = {}
    for i in range(n):
        ar[i] = 1 if rng.random() < o.get("p_unary", 0.15) else 2
    name = {i: "d%d" % i for i in range(n)}
    rels = [(nm, a, "rel") for nm, a in inputs]
    rules, group = [], []            # group[k] = derived relation index the k-th rule belongs to (text-order styles work on it)
    kinds = {}
    p_rec = o.get("p_rec", 0.38)
    for i in range(n):
        ps = [(name[j], ar[j]) for j in preds[i]]
        rels.append((name[i], ar[i], "rel"))
        me = (name[i], ar[i])
        # roots read the inputs; other nodes now and then too
        extra = []
        if not ps:
            extra = [rng.choice(inputs)] if rng.random() < 0.6 else rng.sample(inputs, 2)
        elif rng.random() < 0.25:
            extra = [rng.choice(inputs)]
        kind = "plain"
        if ar[i] == 2 and rng.random() < p_rec:
            kind = rng.choice(o.get("rec_kinds", ["lin", "lin", "nonlin", "symtrans", "symtrans", "mutual", "mutual"]))
        kinds[i] = kind
        srcs = ps + extra
        rng.shuffle(srcs)
        mode = "join" if (len(srcs) <= 1 or rng.random() < 0.55) else rng.choice(["union", "mixed"])
        if kind in ("symtrans", "mutual") and len(srcs) >= 2 and rng.random() < o.get("p_rec_union", 0.5):
            # several base rules (strata of their own) in front of a multi-rule recursive stratum: every one of them has two
            # rule-level edges into it
            mode = "union"
        if mode == "join":
            bodies = [srcs[:3]] + ([[s] for s in srcs[3:]])
        elif mode == "union":
            bodies = [[s] for s in srcs]
        else:
            bodies = [srcs[:2]] + [[s] for s in srcs[2:]] + ([[srcs[0]]] if rng.random() < 0.4 else [])
        for b in bodies:
            # a lone unary source cannot feed a binary head with two different columns: join it with an input relation
            if ar[i] == 2 and all(a == 1 for _, a in b):
                b = b + [rng.choice([s for s in inputs if s[1] == 2])]
            body, seen = chain_body(rng, b, ar[i])
            rules.append(dict(heads=[(name[i], head_args(rng, seen, ar[i]))], body=body))
            group.append(i)
        if kind == "lin":
            other = rng.choice([s for s in (ps + inputs) if s[1] == 2] or [me])
            body = [("clause", name[i], tvars("x", "y"), []), ("clause", other[0], tvars("y", "z"), [])]
            if rng.random() < 0.4:
                body.reverse()
            rules.append(dict(heads=[(name[i], tvars("x", "z"))], body=body))
            group.append(i)
        elif kind == "nonlin":
            rules.append(dict(heads=[(name[i], tvars("x", "z"))], body=[("clause", name[i], tvars("x", "y"), []), ("clause", name[i], tvars("y", "z"), [])]))
            group.append(i)
        elif kind == "symtrans":
            body = [("clause", name[i], tvars("x", "y"), [])]
            if ps and rng.random() < 0.3:
                # the recursive rule reads a producer too: a second rule-level edge into this stratum
                q = rng.choice(ps)
                body.append(("clause", q[0], [("v", "x")] + [("w",)] * (q[1] - 1), []))
            rules.append(dict(heads=[(name[i], tvars("y", "x"))], body=body))
            group.append(i)
            if rng.random() < 0.7:
                rules.append(dict(heads=[(name[i], tvars("x", "z"))], body=[("clause", name[i], tvars("x", "y"), []), ("clause", name[i], tvars("y", "z"), [("if", "ne", ["x", "z"])] if rng.random() < 0.5 else [])]))
                group.append(i)
        elif kind == "mutual":
            # partner relation m<i>: m(y, x) <-- d(x, y);  d(x, z) <-- m(y, x), q(y, z): both relations are read by later strata
            pn = "m%d" % i
            rels.append((pn, 2, "rel"))
            other = rng.choice([s for s in (ps + inputs) if s[1] == 2])
            rules.append(dict(heads=[(pn, tvars("y", "x"))], body=[("clause", name[i], tvars("x", "y"), [])]))
            group.append(i)
            rules.append(dict(heads=[(name[i], tvars("x", "z"))], body=[("clause", pn, tvars("y", "x"), []), ("clause", other[0], tvars("y", "z"), [])]))
            group.append(i)
    # readers of a mutual pair sometimes read the partner instead of / next to the relation itself (rule-level double edges)
    for k, r in enumerate(rules):
        for bi, it in enumerate(r["body"]):
            if it[0] == "clause" and it[1].startswith("d") and len(it[2]) == 2:
                j = int(it[1][1:])
                if kinds.get(j) == "mutual" and group[k] != j:
                    u = rng.random()
                    if u < 0.35:
                        r["body"][bi] = ("clause", "m%d" % j, list(reversed(it[2])), it[3])
                    elif u < 0.6 and all(t[0] == "v" for t in it[2]):
                        r["body"].insert(bi + 1, ("clause", "m%d" % j, list(reversed(it[2])), []))
                        break
    p = dict(rels=rels, rules=rules, shape="scc:" + fam)
    p["scc"] = dict(family=fam, preds={str(k): v for k, v in preds.items()}, kinds={str(k): v for k, v in kinds.items()}, group=group,
                    inputs=[nm for nm, _ in inputs])
    return p


# ------------------------------------------------------------------ textual order of the rules

STYLES = ["shuffled", "consumers_first", "dependency", "consumer_before_last_producer", "interleaved", "reversed_text"]


def order_rules(rng, p, style):
    """a copy of p with the rules (and, independently, the declarations) rearranged; the rules of a relation stay together only in
    some styles.  `group` of p['scc'] is rearranged with the rules."""
    rules, group = p["rules"], p["scc"]["group"]
    idx = list(range(len(rules)))
    if style == "shuffled":
        rng.shuffle(idx)
    elif style == "consumers_first":
        # reverse dependency order of the relations; inside a relation the rules are shuffled
        keys = {k: (-group[k], rng.random()) for k in idx}
        idx.sort(key=lambda k: keys[k])
    elif style == "reversed_text":
        idx.reverse()
    elif style == "dependency":
        keys = {k: (group[k], rng.random()) for k in idx}
        idx.sort(key=lambda k: keys[k])
    elif style == "consumer_before_last_producer":
        # dependency order, then some relations' rules are moved in front of the rules of their LAST producer
        preds = {int(k): v for k, v in p["scc"]["preds"].items()}
        order = sorted(preds)
        movers = [i for i in order if preds[i] and rng.random() < 0.6]
        for i in movers:
            order.remove(i)
            order.insert(order.index(max(preds[i], key=order.index)), i)
        pos = {g: k for k, g in enumerate(order)}
        keys = {k: (pos[group[k]], rng.random()) for k in idx}
        idx.sort(key=lambda k: keys[k])
    elif style == "interleaved":
        # the rules of every relation spread over the text: first rules of all relations in reverse order, then the rest shuffled
        first, rest, seen = [], [], set()
        for k in idx:
            (rest if group[k] in seen else first).append(k)
            seen.add(group[k])
        first.reverse()
        rng.shuffle(rest)
        cut = rng.randrange(len(first) + 1)
        idx = first[:cut] + rest + first[cut:] if rng.random() < 0.5 else first + rest
    else:
        raise ValueError(style)
    q = dict(p, rules=[rules[k] for k in idx], rels=list(p["rels"]))
    q["scc"] = dict(p["scc"], group=[group[k] for k in idx], style=style)
    if rng.random() < 0.5:
        rng.shuffle(q["rels"])
    return q


def all_orders(rng, p, k=4):
    """k rule-order variants of p in different styles (for the metamorphic tie of C06): [(style, program)]"""
    styles = ["consumers_first", "shuffled", "consumer_before_last_producer", "interleaved", "reversed_text", "shuffled", "dependency"]
    out, seen = [], {tuple(map(repr, p["rules"]))}
    for st in styles:
        if len(out) >= k:
            break
        q = order_rules(rng, p, st)
        key = tuple(map(repr, q["rules"]))
        if key in seen:
            continue
        seen.add(key)
        out.append((st, q))
    return out


# ------------------------------------------------------------------ inputs

def gen_input(rng, p):
    inp = {name: [] for name, _, _ in p["rels"]}
    for nm in p["scc"]["inputs"]:
        a = [x for n2, x, _ in p["rels"] if n2 == nm][0]
        if a == 1:
            ts = [(v,) for v in rng.sample(DOM, rng.choice([2, 3, 4]))]
        else:
            style = rng.choice(["random", "random", "chain", "mixed"])
            ts = []
            if style in ("chain", "mixed"):
                s = rng.choice([0, 1])
                ts += [(k, k + 1) for k in range(s, s + rng.choice([2, 3, 4]))]
            if style in ("random", "mixed"):
                ts += [(rng.choice(DOM), rng.choice(DOM)) for _ in range(rng.choice([3, 4, 5, 7]))]
            if rng.random() < 0.3:
                ts.append((ts[-1][1], ts[0][0]))        # a back edge: cycles
        inp[nm] = list(dict.fromkeys(ts))
    # a derived relation may hold input rows as well (the program value is filled by the caller)
    if rng.random() < 0.2:
        ders = [(n2, a) for n2, a, _ in p["rels"] if n2 not in p["scc"]["inputs"]]
        n2, a = rng.choice(ders)
        inp[n2] = list(dict.fromkeys(tuple(rng.choice(DOM) for _ in range(a)) for _ in range(rng.choice([1, 2]))))
    return inp


def pick_inputs(rng, p, k=2, tries=7, max_facts=170):
    """the k best of `tries` random inputs: every relation non-empty, every rule fires, most sensitive stratum edges, bounded model.
    Returns [(input, dict(sensitive=.., edges=.., facts=..))]"""
    comps, edges = strata(p)
    cands = []
    for t in range(tries):
        inp = gen_input(rng, p)
        sens, lm = sensitive_edges(p, inp, comps, edges)
        facts = sum(len(v) for v in lm.values())
        if facts > max_facts:
            continue
        fired = sum(1 for r in p["rules"] if rule_derive(r, lm))
        nonempty = sum(1 for v in lm.values() if v)
        cands.append(((len(sens), fired, nonempty, -facts, -t), inp, dict(sensitive=len(sens), edges=len(edges), facts=facts, rules_fired=fired, rules=len(p["rules"]))))
    cands.sort(key=lambda c: c[0], reverse=True)
    return [(inp, st) for _, inp, st in cands[:k]]


def gen_case(rng, opts=None, ninputs=2, style=None):
    """(program in a random text order, [inputs], stats) — retried until at least half of the stratum edges are sensitive"""
    best = None
    for _ in range(6):
        p0 = gen_program(rng, opts)
        st = shape_stats(p0)
        if st["strata"] < 4:
            continue
        ins = pick_inputs(rng, p0, k=ninputs)
        if not ins:
            continue
        score = ins[0][1]["sensitive"] / max(1, ins[0][1]["edges"])
        if best is None or score > best[0]:
            best = (score, p0, ins, st)
        if score >= 0.5:
            break
    if best is None:
        return None
    _, p0, ins, st = best
    p = order_rules(rng, p0, style or rng.choice(STYLES))
    p["scc"]["stats"] = dict(st, sensitive=ins[0][1]["sensitive"], facts=ins[0][1]["facts"])
    return p, [i for i, _ in ins], p["scc"]["stats"]


# ------------------------------------------------------------------ stored cases (corpus lines: tuples became lists)

def _tup(t):
    return tuple(list(x) if isinstance(x, list) else x for x in t)


def _item(it):
    if it[0] == "clause":
        return ("clause", it[1], [_tup(t) for t in it[2]], [_tup(c) for c in it[3]])
    if it[0] == "cond":
        return ("cond", _tup(it[1]))
    return _tup(it)


def decode_case(c, cid):
    """a stored case dict(prog, inputs, ...) read back from json -> the python AST conventions of gen/dl.py"""
    c = dict(c, id=cid)
    p = dict(c["prog"])
    p["rels"] = [(r[0], r[1], tuple(r[2]) if isinstance(r[2], list) else r[2]) for r in p["rels"]]
    p["rules"] = [dict(heads=[(h[0], [_tup(t) for t in h[1]]) for h in r["heads"]], body=[_item(it) for it in r["body"]]) for r in p["rules"]]
    c["prog"] = p
    c["inputs"] = [{r: [tuple(t) for t in ts] for r, ts in inp.items()} for inp in c["inputs"]]
    return c


# ------------------------------------------------------------------ self-test: would a wrong stratum order be visible?

def rule_graph(p):
    rr = [engine_tie.rule_rels(r) for r in p["rules"]]
    n = len(rr)
    return [[j for j in range(n) if set(rr[i][0]) & set(rr[j][1])] for i in range(n)]


def order_valid(comps_order, p):
    of = {j: k for k, comp in enumerate(comps_order) for j in comp}
    succ = rule_graph(p)
    return all(of[i] <= of[j] for i in range(len(succ)) for j in succ[i])


if __name__ == "__main__":
    import random
    import sys
    rng = random.Random(int(sys.argv[1]) if len(sys.argv) > 1 else 0)
    for _ in range(int(sys.argv[2]) if len(sys.argv) > 2 else 5):
        c = gen_case(rng)
        if c:
            p, ins, st = c
            print(dl.rust_program_text(p))
            print(st, p["scc"]["style"], ins[0])
            print()
