"""POOL-CONTENTION family of C20: the BIG `ascent_par!` programs of gen/par_contention.py (10^4-10^5 keys / tuples, every one derived
several times IN ONE ITERATION by different workers), with the life of the program value spread over DIFFERENT rayon pools.

Blind spot this family covers: every pool assignment of the other C20 families (gen/props/c20.py part 1, gen/c20_pools.py) runs a
program of a few dozen to a few hundred rows with no lattice relation under same-key contention, and every big contended run of
gen/par_contention.py constructs and runs the program inside ONE pool.  So anything that the program value fixes for the pool that
is current when it is CONSTRUCTED (or first run) and that only matters under real contention in the pool it RUNS in was never
exercised: a lock / lock stripe set / shard vector / "serial is enough" decision sized or elided for a 1-thread construction pool
and needed by a 16-thread run pool (check-then-insert of a new lattice key, duplicate suppression of a plain tuple), an index or
hint built for the wrong number of workers, a resource of the construction pool that the run pool's workers index by their own
thread number.

Here: the program value is constructed
    under a fresh pool of a threads (a in 1..16)  |  under nested pools (the innermost is current)
    | on the main thread with no pool installed, the process's GLOBAL pool having 1, 2 or the default number of threads,
its input rows are assigned on the main thread, and it is run
    under another fresh pool of b threads (both directions: 1 -> many, many -> 1, a <> b)  |  under nested pools  |  on the main
    thread (global pool)  |  under the very pools it was constructed under (control)
    | in STAGES: a part of the rows assigned and run under one pool, then all rows assigned and run under another (what the value
      fixed in its FIRST run meets new keys under contention in the second; the programs are monotone, so the result is the
      specification of the full input)  |  run twice with all rows (the second run under a third pool must change nothing).
Oracle = the specification (gen/par_contention.spec, python, from the explicit input rows): a lattice relation holds exactly ONE row
per key that has a derivable value, with the least upper bound of all values derivable for the key; a plain relation exactly one row
per derivable tuple.  One input (and one oracle) per case, 10 (quick) / 28 (thorough) configurations per big case, 4 / 8 per small one, one run each (a concurrent schedule is not
reproducible: the replay repeats the failing configuration 12 times).
The real code is driven by harness/c20_contention (the ascent_par! blocks of harness/par_contention, token for token - compared on
every run; a pure driver, nothing is checked or deduplicated there).

    run(tier, seed, corpus) -> dict(mismatches, evaluations, distinct, distribution)     (mismatches in the format of gen/runner.py)
    replay(case)            -> the same dict for 12 (+ 12 unperturbed) repetitions of the configuration of one case
"""
import concurrent.futures as cf
import hashlib
import os
import re
import shutil
import subprocess
import time

from . import lib
from . import par_contention as pc

FAMILY = "pool_contention"
SIZES = list(range(1, 17))


# ------------------------------------------------------------------ the two drivers hold the same programs

def _program_blocks(path):
    src = open(path).read()
    out = {}
    for m in re.finditer(r"\nmod (\w+) \{\s*use super::\*;\s*ascent_par! \{(.*?)\n   \}", src, re.S):
        out[m.group(1)] = " ".join(m.group(2).split())
    return out


def check_same_programs():
    a = _program_blocks(os.path.join(lib.VERIF, "harness", "par_contention", "src", "main.rs"))
    b = _program_blocks(os.path.join(lib.VERIF, "harness", "c20_contention", "src", "main.rs"))
    for name in pc.PROGRAMS:
        if name not in a or name not in b or a[name] != b[name]:
            raise lib.Infra("harness/c20_contention and harness/par_contention disagree on the ascent_par! block of `%s` "
                            "(the python specification gen/par_contention.spec is the oracle of both)" % name)


# ------------------------------------------------------------------ configurations

def _pools_text(p):
    if p == "m":
        return "no pool installed (main thread)"
    if p == "=":
        return "the pools of the construction"
    if ":" in p:
        return "nested pools of %s threads (innermost current)" % " > ".join(p.split(":"))
    return "a pool of %s thread%s" % (p, "" if p == "1" else "s")


def describe(cfg):
    g = cfg.get("global_pool", 0)
    s = "constructed under %s" % _pools_text(cfg["construct"])
    if cfg["construct"] == "m" or any(st.endswith("@m") for st in cfg["steps"]):
        s += " [global pool: %s]" % ("rayon default" if not g else "%d thread%s" % (g, "" if g == 1 else "s"))
    parts = []
    for st in cfg["steps"]:
        pm, p = st.split("@")
        parts.append("%s run under %s" % ("all rows," if pm == "1000" else "first %.1f %% of the rows," % (int(pm) / 10.0), _pools_text(p)))
    return s + "; " + "; then ".join(parts)


def gen_config(rng, kind):
    """one configuration of a kind; sizes 1..16"""
    big = lambda: rng.choice([4, 6, 8, 8, 12, 16, 16])          # noqa: E731
    anyn = lambda: rng.choice(SIZES)                            # noqa: E731
    c = dict(kind=kind, global_pool=0, perturbation_seed=0)
    if kind == "one_to_many":
        # the value sees exactly ONE thread when it is constructed, and is run by many
        flavour = rng.choice(["pool", "pool", "nested", "global"])
        if flavour == "pool":
            c.update(construct="1")
        elif flavour == "nested":
            c.update(construct="%d:1" % big())
        else:
            c.update(construct="m", global_pool=1)
        c.update(steps=["1000@%d" % big()])
    elif kind == "many_to_one":
        c.update(construct=rng.choice(["%d" % big(), "m"]), steps=["1000@%s" % rng.choice(["1", "1", "%d:1" % big()])])
    elif kind == "cross":
        a, b = anyn(), anyn()
        while b == a:
            b = anyn()
        c.update(construct="%d" % a, steps=["1000@%d" % b])
    elif kind == "staged":
        # what the value fixed at construction AND in its first run (a fraction of the rows, often in a 1-thread pool) meets new keys
        # under contention in the second run
        a = rng.choice([1, 1, 2, anyn()])
        first = rng.choice(["1", "1", "=", "%d" % anyn()])
        c.update(construct="%d" % a, steps=["%d@%s" % (rng.choice([1, 50, 200, 500]), first), "1000@%d" % big()])
    elif kind == "rerun":
        c.update(construct="%d" % anyn(), steps=["1000@%d" % anyn(), "1000@%d" % anyn()])
    elif kind == "nested":
        a, b = anyn(), big()
        c.update(construct=rng.choice(["%d" % a, "%d:%d" % (b, a)]), steps=["1000@%d:%d" % (a, b)])
    elif kind == "main":
        g = rng.choice([1, 2, 0])
        if rng.random() < 0.6:
            c.update(construct="m", global_pool=g, steps=["1000@%d" % big()])
        else:
            c.update(construct="%d" % rng.choice([1, 1, anyn()]), global_pool=rng.choice([0, 0, 4]), steps=["1000@m"])
    elif kind == "same":
        c.update(construct="%d" % big(), steps=["1000@="])
    else:
        raise ValueError(kind)
    return c


def gen_configs(rng, n):
    kinds = ["one_to_many", "one_to_many", "many_to_one", "staged", "cross", "main", "nested", "rerun", "one_to_many", "staged", "same", "cross", "main", "many_to_one"]
    return [gen_config(rng, kinds[i % len(kinds)]) for i in range(n)]


# ------------------------------------------------------------------ cases

def gen_cases(tier, seed):
    """per program one BIG case and one SMALL case (a tenth of the keys; one of its configurations also runs under the seeded perturbation
    hook of feature verif_hooks).  Besides the sizes of gen/par_contention a HOT variant: few keys, each derived dozens of times."""
    rng = lib.rng_for(seed, "C20", "pool_contention")
    quick = tier == "quick"
    cases = []

    def add(prog, small, **kw):
        c = dict(family=FAMILY, program=prog, program_text=pc.PROGRAMS[prog], gen_seed=rng.randrange(1, 2 ** 31), layout=rng.choice(pc.LAYOUTS))
        c.update(kw)
        if small:
            c["keys"] = max(1000, c["keys"] // 10)
            c["configs"] = gen_configs(rng, 4 if quick else 8)
            c["configs"][0]["perturbation_seed"] = rng.randrange(1, 2 ** 31)
        else:
            c["configs"] = gen_configs(rng, 10 if quick else 28)
        c["id"] = "pcont_%s_%d%s" % (prog, len(cases), "s" if small else "")
        cases.append(c)

    reps = 1 if quick else 3
    for _ in range(reps):
        for small in (False, True):
            hot = rng.random() < 0.4
            if hot:
                add("best", small, keys=rng.choice([2048, 4096, 10000]), per_key=rng.choice([24, 32, 48]))
            else:
                add("best", small, keys=rng.choice([60000, 80000, 100000]), per_key=rng.choice([6, 8, 12, 16]))
            add("two", small, keys=rng.choice([10000, 40000, 60000]), per_key=rng.choice([4, 6, 8]), width=rng.choice([200, 256, 300]))
            add("flow", small, keys=rng.choice([8000, 12000, 16000]), per_key=rng.choice([3, 4, 5]), layers=rng.choice([3, 4, 5]), back_edges=rng.choice([0, 500]))
            add("part", small, keys=rng.choice([10000, 30000, 50000]), per_key=rng.choice([5, 6, 8]))
            add("plain", small, keys=rng.choice([50000, 80000]), per_key=rng.choice([3, 4, 6]), width=rng.choice([250, 400]), f_rows=rng.choice([300, 600]))
    return cases


# ------------------------------------------------------------------ running

def _binary():
    check_same_programs()
    b, log = lib.harness_build("c20_contention")
    if b is None:
        raise lib.Infra("harness/c20_contention does not build:\n" + log[-3000:])
    return b


def _work(args):
    """one case, in a worker process: input + oracle, the real runs (one process per global pool size; one case runs at a time), comparison"""
    c, d, binary, timeout, ncases = args
    t0 = time.time()
    inp = pc.make_input(c)
    blob = pc.encode_input(inp)
    digest = hashlib.sha1(blob).hexdigest()[:16]
    path = os.path.join(d, c["id"] + ".in")
    with open(path, "wb") as fh:
        fh.write(blob)
    nrows = sum(len(cols[0]) for _, cols in inp.values())
    expected = pc.spec(c["program"], inp)
    t1 = time.time()
    groups = {}
    for k, cfg in enumerate(c["configs"]):
        groups.setdefault(cfg.get("global_pool", 0), []).append(k)
    # barrier: the real runs start when every input and oracle is ready (python working next to a run takes its cores away)
    open(os.path.join(d, c["id"] + ".ready"), "w").close()
    while time.time() - t0 < 120 and sum(1 for f in os.listdir(d) if f.endswith(".ready")) < ncases:
        time.sleep(0.02)
    status = {}
    run_s = 0.0
    # the same lock as gen/par_contention: big contended runs of different checks do not overlap either
    with lib.Lock("par_contention_slot_0"):
        t2 = time.time()
        for g, ks in sorted(groups.items()):
            lines = ["%s %d %s %s %s %s" % (c["program"], c["configs"][k].get("perturbation_seed", 0), path, os.path.join(d, "%s.out.%d" % (c["id"], k)),
                                           c["configs"][k]["construct"], " ".join(c["configs"][k]["steps"])) for k in ks]
            try:
                p = subprocess.run([binary, str(g)], input="\n".join(lines) + "\n", stdout=subprocess.PIPE, stderr=subprocess.PIPE, text=True, timeout=timeout)
                out, rc = p.stdout.splitlines(), p.returncode
            except subprocess.TimeoutExpired as e:
                so = e.stdout or ""
                out, rc = (so.decode() if isinstance(so, bytes) else so).splitlines(), "timeout"
            for i, k in enumerate(ks):
                status[k] = out[i] if i < len(out) else ("hang / timeout after %d s" % timeout if rc == "timeout" else "crash rc=%s" % rc)
        run_s = time.time() - t2
    t3 = time.time()
    runs = []
    for k, cfg in enumerate(c["configs"]):
        rec = dict(config=k, status=status[k], bad=None, completed=False, snapshots=0)
        dumps = [i for i, st in enumerate(cfg["steps"]) if st.startswith("1000@")]
        files = [os.path.join(d, "%s.out.%d.%d" % (c["id"], k, i)) for i in dumps]
        if status[k].startswith("ok") and all(os.path.exists(f) for f in files):
            rec["completed"] = True
            for i, f in zip(dumps, files):
                rec["snapshots"] += 1
                bad = pc.compare(c["program"], inp, expected, pc.decode_output(open(f, "rb").read()))
                if bad and not rec["bad"]:
                    rec["bad"] = (i, bad[0], bad[1])
        for f in files:
            if os.path.exists(f):
                os.remove(f)
        runs.append(rec)
    os.remove(path)
    return dict(digest=digest, nrows=nrows, runs=runs, oracle_s=t1 - t0, run_s=run_s, check_s=time.time() - t3)


def _params(c):
    return {k: v for k, v in c.items() if k not in ("configs",)}


def _check_cases(cases, tag, timeout=240):
    binary = _binary()
    d = os.path.join(lib.BUILD, "cases", "%s_%s_%d" % (FAMILY, tag, os.getpid()))
    if os.path.exists(d):
        shutil.rmtree(d)
    os.makedirs(d)
    mism, evals, distinct, done = [], 0, set(), []
    dist = dict(cases=len(cases), by_program={}, by_kind={}, construct_to_run={}, sizes={}, rows_derived=0, runs=0, runs_perturbed=0, snapshots=0,
                run_seconds=0.0, oracle_seconds=0.0, failing_runs=0)
    try:
        for i in range(0, len(cases), lib.NCPU):
            chunk = cases[i:i + lib.NCPU]
            for f in os.listdir(d):
                os.remove(os.path.join(d, f))
            with cf.ProcessPoolExecutor(len(chunk)) as ex:
                done += list(ex.map(_work, [(c, d, binary, timeout, len(chunk)) for c in chunk]))
    finally:
        shutil.rmtree(d, ignore_errors=True)
    for c, w in zip(cases, done):
        dist["sizes"][c["id"]] = dict(keys=c["keys"], derivations_per_key=c["per_key"], input_rows=w["nrows"], layout=c["layout"], configurations=len(c["configs"]), run_s=round(w["run_s"], 2))
        dist["run_seconds"] = round(dist["run_seconds"] + w["run_s"], 2)
        dist["oracle_seconds"] = round(dist["oracle_seconds"] + w["oracle_s"] + w["check_s"], 2)
        reported, worst = False, None
        for r in w["runs"]:
            cfg = c["configs"][r["config"]]
            dist["by_program"][c["program"]] = dist["by_program"].get(c["program"], 0) + 1
            dist["by_kind"][cfg["kind"]] = dist["by_kind"].get(cfg["kind"], 0) + 1
            pair = "%s%s -> %s" % (cfg["construct"], "[global %d]" % cfg["global_pool"] if cfg.get("global_pool") else "", ", ".join(cfg["steps"]))
            dist["construct_to_run"][pair] = dist["construct_to_run"].get(pair, 0) + 1
            cs = _params(c)
            cs.update(configuration=cfg, configuration_text=describe(cfg), input_sha1=w["digest"], input_rows=w["nrows"],
                      input="generated by gen.par_contention.make_input(case) (deterministic); the input rows about the failing keys are in `witness`",
                      note="a concurrent schedule is not reproducible: the replay repeats the configuration 12 times (+ 12 unperturbed)")
            if not r["completed"]:
                dist["failing_runs"] += 1
                if not reported:
                    reported = True
                    mism.append(dict(case=cs, impl=r["status"], model=None, spec="run() returns", kind="impl_violates_spec", known=None,
                                     what="ascent_par! `%s` %s: did not complete: %s" % (c["program"], describe(cfg), r["status"][:200])))
                continue
            evals += 1
            dist["runs"] += 1
            dist["snapshots"] += r["snapshots"]
            dist["runs_perturbed"] += 1 if cfg.get("perturbation_seed") else 0
            dist["rows_derived"] += w["nrows"]
            distinct.add((c["id"], r["config"]))
            if r["bad"]:
                dist["failing_runs"] += 1
                # one mismatch per case is enough for the report: the configuration that went wrong for the most keys (the one a replay
                # reproduces most readily)
                weight = r["bad"][2].get("bad_keys", 1)
                if reported or (worst is not None and worst[0] >= weight):
                    continue
                cs["witness"] = r["bad"][2]
                cs["failing_step"] = r["bad"][0]
                worst = (weight, dict(case=cs, impl=r["bad"][2], model=None,
                                      spec="one row per key holding the least upper bound of the values derivable for it; one row per derivable tuple - whatever pools are current at construction and at run()",
                                      kind="impl_violates_spec", known=None,
                                      what="ascent_par! `%s` (%d keys x %d derivations, layout %s) %s%s: after step %d: %s"
                                           % (c["program"], c["keys"], c["per_key"], c["layout"], describe(cfg), ", perturbed" if cfg.get("perturbation_seed") else "", r["bad"][0], r["bad"][1])))
        if worst is not None and not reported:
            mism.append(worst[1])
    return dict(mismatches=mism, evaluations=evals, distinct=len(distinct), distribution=dist)


def run(tier, seed, corpus=(), tag="c20"):
    """the family for a check; corpus = entries of corpus/C20.jsonl with family = FAMILY (generator parameters as in gen_cases +
    `configuration`): each is run 3 (quick) / 8 (thorough) times"""
    extra = []
    for k, e in enumerate(corpus):
        c = {kk: v for kk, v in e.items() if kk not in ("configuration", "configs", "witness", "input", "note", "input_sha1", "input_rows", "configuration_text", "failing_step", "comment")}
        c.setdefault("program_text", pc.PROGRAMS[c["program"]])
        c["family"] = FAMILY
        c["id"] = "pcont_corpus_%d" % k
        c["configs"] = [dict(e["configuration"]) for _ in range(3 if tier == "quick" else 8)]
        extra.append(c)
    return _check_cases(extra + gen_cases(tier, seed), tag)


def replay(case, tag="replay"):
    """re-run the case of a mismatch: the same generated input, the failing configuration 12 times (+ 12 times without the perturbation
    hook when the failing run was perturbed: the hook's global event counter thins the contention out)"""
    c = {k: v for k, v in case.items() if k not in ("configuration", "witness", "input", "note", "input_sha1", "input_rows", "configuration_text", "failing_step")}
    c["configs"] = [dict(case["configuration"]) for _ in range(12)]
    if case["configuration"].get("perturbation_seed"):
        c["configs"] += [dict(case["configuration"], perturbation_seed=0) for _ in range(12)]
    c.setdefault("id", "replay")
    c["id"] = "replay_" + re.sub(r"\W", "_", str(c["id"]))
    if case.get("input_sha1"):
        blob = pc.encode_input(pc.make_input(c))
        if hashlib.sha1(blob).hexdigest()[:16] != case["input_sha1"]:
            raise lib.Infra("pool_contention replay: the regenerated input differs from the recorded one (generator changed)")
    return _check_cases([c], tag)
