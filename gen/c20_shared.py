"""SHARED-POOL family of C20: MANY program instances whose run() calls are themselves rayon JOBS OF ONE POOL.

Blind spot this family covers: every other configuration of the C20 tie runs concurrent instances from plain OS threads (each blocks
on a latch while its own parallel work is done by the pool, it never steals), or one instance per `pool.install`, or instances in
separate pools.  So a rayon WORKER never had another instance's not-yet-started run() within reach while it was inside one
instance's run().  That is exactly where anything process-wide (or pool-wide, or thread-local to a worker) that one instance holds
or assumes ACROSS a rayon call meets a second instance ON THE SAME STACK: a worker that waits for a stolen sub-job of instance A's
parallel merge executes other pending jobs, among them instance B's whole run(), nested below A's open call.  A lock held across a
parallel iterator (-> self-deadlock: no run() ever returns), a thread-local / per-worker scratch buffer or "current program" slot
that B overwrites under A, a re-entrancy flag, a per-pool resource indexed by the worker number and assumed to have one user.

Here: a WORLD = 3 generated program types (graph programs with long fixpoints - transitive closure left / right / non-linear,
reachability, later strata with count / negation / projections; lattice programs - shortest distances `Dual<i32>`, capped longest
hops; random programs of gen/gen_dl.py), `ascent_par!` and serial `ascent!` mixed (at least one parallel), 6-10 small-to-medium
inputs per type, and 50-100 INSTANCES (type, input).  A CONFIGURATION says how the instances become jobs of one pool of 2-8 threads:
    par_iter        pool.install(|| insts.par_iter_mut().for_each(|i| i.run()))      (also with max_len 1: one job per instance)
    scope           pool.install(|| rayon::scope(|s| for i in insts { s.spawn(|_| i.run()) }))      (also scope_fifo / spawn_fifo)
    join            a binary tree of rayon::join over the instances
    global          no pool installed: the process's GLOBAL pool (built with n threads), par_iter from a plain thread
    nested          outer.install(|| pool.install(|| ...)): the shared pool is the innermost one
and where the values are constructed (inside their job / on a plain thread before / as jobs of the pool in an earlier pass), for
several ROUNDS (fresh values each round).
Oracle = the specification: every instance must return, and hold the least model of its program over its input (gen/c20_spec.py
for the dl programs; the least fixpoint of the lattice equations for the lattice programs, computed by plain iteration in python) -
in every round, whatever else is running in the pool.  The driver first runs every instance ALONE from the main thread (reported
separately: a wrong result there is not an isolation failure).  WATCHDOG: a configuration in which NO job made progress for
`noprog` seconds (each run takes milliseconds alone) is the failing input `hang`, reported with the configuration, the instances that
were inside run() and the CPU time the process used while it was stuck (0 = everybody blocked: a deadlock).

    run(tier, seed, corpus) -> dict(mismatches, evaluations, distinct, distribution)     (mismatches in the format of gen/runner.py)
    replay(case)            -> the same for 6 repetitions of one (world, configuration)
A concurrent schedule is not reproducible: a violation of this family is a sampled one (detection rates: see DESIGN / the report).
"""
import concurrent.futures as cf
import hashlib
import json
import os
import re
import shutil
import subprocess
import time

from . import c20_spec, dl, gen_dl, lib, prog

FAMILY = "shared_pool"
MODES = ["par_iter", "par_iter_max1", "scope", "scope_fifo", "join", "global"]


def V(x):
    return ("v", x)


# ------------------------------------------------------------------ program types

def gen_graph_type(rng, macro):
    """a randomised graph program in the dl AST (oracle: gen/c20_spec.py) with fixpoints of as many iterations as the graph is deep"""
    rels = [("edge", 2, "rel")]
    rules = []
    shape = rng.choice(["tc_left", "tc_right", "tc_nonlin", "reach", "tc_left+reach", "tc_right+reach", "reach+tc_nonlin"])
    if "tc" in shape:
        rels.append(("path", 2, "rel"))
        rules.append(dict(heads=[("path", [V("x"), V("y")])], body=[("clause", "edge", [V("x"), V("y")], [])]))
        if "left" in shape:
            body = [("clause", "path", [V("x"), V("y")], []), ("clause", "edge", [V("y"), V("z")], [])]
        elif "right" in shape:
            body = [("clause", "edge", [V("x"), V("y")], []), ("clause", "path", [V("y"), V("z")], [])]
        else:
            body = [("clause", "path", [V("x"), V("y")], []), ("clause", "path", [V("y"), V("z")], [])]
        rules.append(dict(heads=[("path", [V("x"), V("z")])], body=body))
    if "reach" in shape:
        rels += [("src", 1, "rel"), ("reach", 1, "rel")]
        rules.append(dict(heads=[("reach", [V("x")])], body=[("clause", "src", [V("x")], [])]))
        rules.append(dict(heads=[("reach", [V("y")])], body=[("clause", "reach", [V("x")], []), ("clause", "edge", [V("x"), V("y")], [])]))
    main = "path" if "tc" in shape else "reach"
    k = 2 if main == "path" else 1
    for ex in rng.sample(["cnt", "neg", "proj", "back", "none"], rng.choice([1, 2, 3])):
        if ex == "cnt":
            rels.append(("cnt", 1, "rel"))
            rules.append(dict(heads=[("cnt", [("f", "asi32", ["n"])])], body=[("agg", "n", "count", [], main, [("w",)] * k)]))
        elif ex == "neg" and "reach" in shape:
            rels.append(("unre", 1, "rel"))
            rules.append(dict(heads=[("unre", [V("x")])], body=[("clause", "edge", [V("x"), ("w",)], []), ("neg", "reach", [V("x")])]))
        elif ex == "proj" and main == "path":
            rels.append(("ends", 1, "rel"))
            rules.append(dict(heads=[("ends", [V("y")])], body=[("clause", "path", [("w",), V("y")], [])]))
        elif ex == "back" and main == "path":
            rels.append(("back", 2, "rel"))
            rules.append(dict(heads=[("back", [V("y"), V("x")])], body=[("clause", "path", [V("x"), V("y")], [("if", "lt", ["y", "x"])])]))
    rng.shuffle(rules)
    p = dict(rels=rels, rules=rules, shape="graph:" + shape)
    inputs = []
    for _ in range(rng.choice([6, 8, 10])):
        n = rng.choice([4, 6, 8, 10, 12, 14, 16, 18] if "nonlin" not in shape else [4, 6, 8, 10, 12, 14])
        start = rng.choice([0, 0, 3, 50])
        edges = [(start + i, start + i + 1) for i in range(n)]
        for _ in range(rng.choice([0, 1, 2, 4])):
            a, b = start + rng.randrange(n + 1), start + rng.randrange(n + 1)
            edges.append((a, b))
        edges = sorted(set(edges))
        rng.shuffle(edges)
        inp = dict(edge=edges)
        if "reach" in shape:
            inp["src"] = sorted(set((start + rng.randrange(n + 1),) for _ in range(rng.choice([1, 1, 2, 3]))))
        inputs.append(inp)
    return dict(kind="dl", macro=macro, prog=p, rels=rels, text=dl.rust_program_text(p), inputs=inputs, shape=p["shape"])


def gen_random_type(rng, macro):
    """a random core / stratified program of gen/gen_dl.py with its usual small inputs"""
    agg = rng.random() < 0.35
    p = gen_dl.gen_strat_program(rng) if agg else gen_dl.gen_program(rng)
    inputs = [gen_dl.gen_input(rng, p["rels"], style=rng.choice(["mixed", "dense", "sparse_chain", "unequal"]))[0] for _ in range(rng.choice([6, 8]))]
    return dict(kind="dl", macro=macro, prog=p, rels=p["rels"], text=dl.rust_program_text(p), inputs=inputs, shape="random:" + str(p.get("shape")))


LAT_TEXT = {
    # least distance from the sources (Dual: the lattice order is >=), weights 1..3
    "sssp": ("relation edge(i32, i32, i32);\nrelation src(i32);\nlattice dist(i32, ascent::Dual<i32>);\n"
             "dist(x, ascent::Dual(0)) <-- src(x);\ndist(y, ascent::Dual(d.0 + w)) <-- dist(x, d), edge(x, y, w);"),
    # longest number of hops from the sources, capped (cycles reach the cap)
    "hops": ("relation edge(i32, i32, i32);\nrelation src(i32);\nlattice hops(i32, i32);\n"
             "hops(x, 0) <-- src(x);\nhops(y, (*h + 1).min(CAP)) <-- hops(x, h), edge(x, y, _);"),
}


def gen_lattice_type(rng, macro):
    which = rng.choice(["sssp", "hops"])
    cap = rng.choice([6, 12, 20])
    text = LAT_TEXT[which].replace("CAP", str(cap))
    rels = [("edge", 3, "rel"), ("src", 1, "rel"), (("dist", 2, ("lat", "ascent::Dual<i32>")) if which == "sssp" else ("hops", 2, ("lat", "i32")))]
    inputs = []
    for _ in range(rng.choice([6, 8, 10])):
        n = rng.choice([5, 8, 12, 16, 20, 24])
        edges = [(i, i + 1, 1 + rng.randrange(3)) for i in range(n)]
        for _ in range(rng.choice([0, 2, 4, 6])):
            a, b = rng.randrange(n + 1), rng.randrange(n + 1)
            if which == "hops" and b <= a and rng.random() < 0.7:
                a, b = b, a + 1 if a == b else a       # mostly forward chords (a back edge sends a whole cycle to the cap)
            edges.append((a, b, 1 + rng.randrange(3)))
        edges = sorted(set(edges))
        rng.shuffle(edges)
        inputs.append(dict(edge=edges, src=sorted(set((rng.randrange(max(1, n // 2)),) for _ in range(rng.choice([1, 2]))))))
    return dict(kind="lat", which=which, cap=cap, macro=macro, rels=rels, text=text, inputs=inputs, shape="lattice:" + which)


def lattice_spec(ty, inp):
    """least fixpoint of the lattice equations by plain iteration: {rel: (rows, sorted distinct tuples)} in the snapshot's rendering"""
    edges = [tuple(e) for e in inp["edge"]]
    val = {}
    for (s,) in inp["src"]:
        val[s] = 0
    sssp = ty["which"] == "sssp"
    for _ in range(10000):
        ch = False
        for a, b, w in edges:
            if a in val:
                nv = val[a] + w if sssp else min(val[a] + 1, ty["cap"])
                if b not in val or (nv < val[b] if sssp else nv > val[b]):
                    val[b] = nv
                    ch = True
        if not ch:
            break
    else:
        raise lib.Infra("lattice_spec did not converge")
    name = "dist" if sssp else "hops"
    rows = sorted(val.items(), key=repr)       # `{:?}` of ascent::Dual(v) prints v
    return {"edge": (len(set(edges)), sorted(set(edges), key=repr)), "src": (len(inp["src"]), sorted(set(tuple(t) for t in inp["src"]), key=repr)), name: (len(rows), rows)}


def gen_world(rng, wid):
    macros = rng.choice([["ascent_par", "ascent_par", "ascent"], ["ascent_par", "ascent", "ascent_par"], ["ascent_par", "ascent_par", "ascent_par"], ["ascent_par", "ascent", "ascent"]])
    makers = [gen_graph_type, rng.choice([gen_lattice_type, gen_lattice_type, gen_graph_type]), rng.choice([gen_random_type, gen_graph_type, gen_lattice_type])]
    types = [mk(rng, m) for mk, m in zip(makers, macros)]
    ninst = rng.choice([50, 64, 80, 96, 100])
    weights = [3 if t["macro"] == "ascent_par" else 2 for t in types]
    insts = []
    for i in range(ninst):
        t = rng.choices(range(len(types)), weights)[0] if i >= len(types) else i
        insts.append((t, rng.randrange(len(types[t]["inputs"]))))
    return dict(id=wid, types=types, instances=insts)


# ------------------------------------------------------------------ configurations

def gen_config(rng, mode, quick=True):
    c = dict(mode=mode, threads=rng.choice([2, 3, 4, 4, 6, 8]), construct=rng.choice(["job", "job", "before", "pool"]), nested=0)
    if mode != "global" and rng.random() < 0.25:
        c["nested"] = rng.choice([1, 2, 5])
    c["rounds"] = rng.choice([12, 16, 20]) if quick else rng.choice([30, 40, 60])
    return c


def gen_configs(rng, n, quick=True, offset=0):
    order = ["par_iter", "scope", "join", "global", "par_iter_max1", "scope_fifo"]
    return [gen_config(rng, order[(i + offset) % len(order)], quick) for i in range(n)]


def describe(cfg, world=None):
    how = {"par_iter": "pool.install(|| insts.par_iter_mut().for_each(|i| i.run()))",
           "par_iter_max1": "pool.install(|| insts.par_iter_mut().with_max_len(1).for_each(|i| i.run()))",
           "scope": "pool.install(|| rayon::scope(|s| for i in insts { s.spawn(|_| i.run()) }))",
           "scope_fifo": "pool.install(|| rayon::scope_fifo(|s| for i in insts { s.spawn_fifo(|_| i.run()) }))",
           "join": "pool.install(|| a binary tree of rayon::join over the instances, run() at the leaves)",
           "global": "insts.par_iter_mut().for_each(|i| i.run()) from a plain thread: jobs of the GLOBAL pool"}[cfg["mode"]]
    s = "%s, %s of %d threads" % (how, "global pool" if cfg["mode"] == "global" else "one pool", cfg["threads"])
    if cfg.get("nested"):
        s += " installed inside an outer pool of %d" % cfg["nested"]
    s += "; values constructed %s; %d rounds" % ({"job": "inside their job", "before": "on a plain thread before", "pool": "as jobs of the pool in an earlier pass"}[cfg["construct"]], cfg["rounds"])
    if world is not None:
        s = "%d instances of %d program types (%s): %s" % (len(world["instances"]), len(world["types"]), ", ".join("%s %s" % (t["macro"], t["shape"]) for t in world["types"]), s)
    return s


# ------------------------------------------------------------------ the generated driver crate

MAIN_RS = r"""#![allow(warnings)]
// generated by gen/c20_shared.py: a pure driver (nothing is compared here)
use ascent::rayon;
use ascent::rayon::prelude::*;
use std::sync::atomic::{AtomicBool, AtomicU8, AtomicUsize, Ordering::SeqCst};
use std::sync::{Arc, Mutex};
use std::time::{Duration, Instant};

pub trait Inst: Send {
   fn construct(&mut self);
   fn run(&mut self);
   fn snap(&self) -> String;
}
@MODS@
fn new_inst(t: usize, k: usize) -> Box<dyn Inst> {
   match t {
@ARMS@
      _ => panic!("no such type"),
   }
}

static PROGRESS: AtomicUsize = AtomicUsize::new(0);
static RETURNED: AtomicUsize = AtomicUsize::new(0);
static ROUNDS_DONE: AtomicUsize = AtomicUsize::new(0);
static DONE: AtomicBool = AtomicBool::new(false);

fn go(idx: usize, inst: &mut Box<dyn Inst>, construct_here: bool, states: &[AtomicU8]) {
   states[idx].store(1, SeqCst);
   PROGRESS.fetch_add(1, SeqCst);
   if construct_here { inst.construct(); }
   inst.run();
   states[idx].store(2, SeqCst);
   RETURNED.fetch_add(1, SeqCst);
   PROGRESS.fetch_add(1, SeqCst);
}

fn join_tree(base: usize, xs: &mut [Box<dyn Inst>], ch: bool, states: &[AtomicU8]) {
   if xs.len() == 0 { return; }
   if xs.len() == 1 { go(base, &mut xs[0], ch, states); return; }
   let mid = xs.len() / 2;
   let (a, b) = xs.split_at_mut(mid);
   rayon::join(|| join_tree(base, a, ch, states), || join_tree(base + mid, b, ch, states));
}

fn cpu_ticks() -> u64 {
   let s = std::fs::read_to_string("/proc/self/stat").unwrap_or_default();
   let rest = s.rsplit(')').next().unwrap_or("");
   let f: Vec<&str> = rest.split_whitespace().collect();
   if f.len() > 12 { f[11].parse::<u64>().unwrap_or(0) + f[12].parse::<u64>().unwrap_or(0) } else { 0 }
}

fn js(s: &str) -> String { format!("{:?}", s) }

fn main() {
   std::panic::set_hook(Box::new(|_| {}));
   let a: Vec<String> = std::env::args().collect();
   // mode threads construct nested rounds noprog_s total_s  t:k,t:k,...
   let mode = a[1].clone();
   let threads: usize = a[2].parse().unwrap();
   let construct = a[3].clone();
   let nested: usize = a[4].parse().unwrap();
   let rounds: usize = a[5].parse().unwrap();
   let noprog = Duration::from_secs_f64(a[6].parse().unwrap());
   let total = Duration::from_secs_f64(a[7].parse().unwrap());
   let spec: Vec<(usize, usize)> = a[8].split(',').map(|p| { let mut q = p.split(':'); (q.next().unwrap().parse().unwrap(), q.next().unwrap().parse().unwrap()) }).collect();
   if mode == "global" { rayon::ThreadPoolBuilder::new().num_threads(threads).build_global().unwrap(); }

   // every instance ALONE, one after the other, from the main thread
   let mut alone: Vec<String> = vec![];
   for (t, k) in spec.iter() {
      let r = std::panic::catch_unwind(|| { let mut i = new_inst(*t, *k); i.construct(); i.run(); i.snap() });
      alone.push(match r { Ok(s) => s, Err(_) => "\"panic\"".to_string() });
   }

   let n = spec.len();
   let states: Arc<Vec<AtomicU8>> = Arc::new((0..n).map(|_| AtomicU8::new(0)).collect());
   // per instance: distinct snapshots seen (snapshot, how often, first round)
   let obs: Arc<Mutex<Vec<Vec<(String, usize, usize)>>>> = Arc::new(Mutex::new(vec![vec![]; n]));
   let failure: Arc<Mutex<Option<String>>> = Arc::new(Mutex::new(None));
   let (states2, obs2, failure2, spec2, mode2, construct2) = (states.clone(), obs.clone(), failure.clone(), spec.clone(), mode.clone(), construct.clone());
   let t0 = Instant::now();
   std::thread::spawn(move || {
      let states: &[AtomicU8] = &states2;
      let pool = if mode2 == "global" { None } else { Some(rayon::ThreadPoolBuilder::new().num_threads(threads).build().unwrap()) };
      let outer = if nested > 0 { Some(rayon::ThreadPoolBuilder::new().num_threads(nested).build().unwrap()) } else { None };
      for round in 0..rounds {
         let mut insts: Vec<Box<dyn Inst>> = spec2.iter().map(|(t, k)| new_inst(*t, *k)).collect();
         for s in states.iter() { s.store(0, SeqCst); }
         let ch = construct2 == "job";
         let r = std::panic::catch_unwind(std::panic::AssertUnwindSafe(|| {
            if construct2 == "before" { for i in insts.iter_mut() { i.construct(); PROGRESS.fetch_add(1, SeqCst); } }
            let mut body = || {
               if construct2 == "pool" { insts.par_iter_mut().for_each(|i| { i.construct(); PROGRESS.fetch_add(1, SeqCst); }); }
               match mode2.as_str() {
                  "par_iter" | "global" => insts.par_iter_mut().enumerate().for_each(|(i, x)| go(i, x, ch, states)),
                  "par_iter_max1" => insts.par_iter_mut().enumerate().with_max_len(1).for_each(|(i, x)| go(i, x, ch, states)),
                  "scope" => rayon::scope(|s| { for (i, x) in insts.iter_mut().enumerate() { s.spawn(move |_| go(i, x, ch, states)); } }),
                  "scope_fifo" => rayon::scope_fifo(|s| { for (i, x) in insts.iter_mut().enumerate() { s.spawn_fifo(move |_| go(i, x, ch, states)); } }),
                  "join" => join_tree(0, &mut insts[..], ch, states),
                  _ => panic!("mode"),
               }
            };
            match (&outer, &pool) {
               (Some(o), Some(p)) => o.install(|| p.install(body)),
               (None, Some(p)) => p.install(body),
               _ => body(),
            }
         }));
         if let Err(e) = r {
            let msg = if let Some(s) = e.downcast_ref::<&str>() { s.to_string() } else if let Some(s) = e.downcast_ref::<String>() { s.clone() } else { "?".to_string() };
            *failure2.lock().unwrap() = Some(format!("panic in round {}: {}", round, msg));
            break;
         }
         {
            let mut o = obs2.lock().unwrap();
            for (i, x) in insts.iter().enumerate() {
               let s = x.snap();
               PROGRESS.fetch_add(1, SeqCst);
               match o[i].iter_mut().find(|e| e.0 == s) { Some(e) => e.1 += 1, None => o[i].push((s, 1, round)) }
            }
         }
         ROUNDS_DONE.store(round + 1, SeqCst);
         if t0.elapsed() > total { break; }
      }
      DONE.store(true, SeqCst);
   });

   // watchdog
   let mut last = PROGRESS.load(SeqCst);
   let mut last_t = Instant::now();
   let mut cpu0 = cpu_ticks();
   let mut status = "ok".to_string();
   let mut stuck = String::new();
   loop {
      std::thread::sleep(Duration::from_millis(10));
      if DONE.load(SeqCst) { break; }
      let p = PROGRESS.load(SeqCst);
      if p != last { last = p; last_t = Instant::now(); cpu0 = cpu_ticks(); continue; }
      if last_t.elapsed() > noprog {
         status = "hang".to_string();
         let inside: Vec<String> = (0..n).filter(|i| states[*i].load(SeqCst) == 1).map(|i| i.to_string()).collect();
         let notstarted = (0..n).filter(|i| states[*i].load(SeqCst) == 0).count();
         let returned = (0..n).filter(|i| states[*i].load(SeqCst) == 2).count();
         stuck = format!(",\"stuck_round\":{},\"inside_run\":[{}],\"never_started\":{},\"returned_in_round\":{},\"cpu_ticks_while_stuck\":{},\"stuck_seconds\":{:.1}",
            ROUNDS_DONE.load(SeqCst), inside.join(","), notstarted, returned, cpu_ticks() - cpu0, last_t.elapsed().as_secs_f64());
         break;
      }
   }
   if let Some(f) = failure.lock().unwrap().clone() { status = f; }
   let o = obs.lock().unwrap();
   let obs_s: Vec<String> = o.iter().map(|v| format!("[{}]", v.iter().map(|e| format!("{{\"snap\":{},\"count\":{},\"first\":{}}}", e.0, e.1, e.2)).collect::<Vec<_>>().join(","))).collect();
   println!("{{\"status\":{},\"rounds_done\":{},\"returned\":{},\"seconds\":{:.2}{},\"alone\":[{}],\"obs\":[{}]}}",
      js(&status), ROUNDS_DONE.load(SeqCst), RETURNED.load(SeqCst), t0.elapsed().as_secs_f64(), stuck, alone.join(","), obs_s.join(","));
   std::process::exit(0);
}
"""


def type_source(ty):
    par = ty["macro"].endswith("par")
    src = ["#![allow(warnings)]", "ascent::%s! {" % ty["macro"], "   pub struct Prog;", ty["text"], "}", prog.snap_code(ty["rels"], par)]
    src.append("fn set_input(p: &mut Prog, k: usize) {")
    src.append("   match k {")
    for k, inp in enumerate(ty["inputs"]):
        body = []
        for rel, tuples in inp.items():
            body.append("p.%s = vec![%s].into_iter().collect();" % (rel, ", ".join(prog.rust_tuple(tuple(t)) for t in tuples)))
        src.append("      %d => { %s }" % (k, " ".join(body)))
    src.append("      _ => panic!(\"no such input\"),")
    src.append("   }")
    src.append("}")
    src.append("pub struct H { k: usize, p: Option<Prog> }")
    src.append("impl crate::Inst for H {")
    src.append("   fn construct(&mut self) { let mut p = Prog::default(); set_input(&mut p, self.k); self.p = Some(p); }")
    src.append("   fn run(&mut self) { self.p.as_mut().unwrap().run(); }")
    src.append("   fn snap(&self) -> String { snap(self.p.as_ref().unwrap()) }")
    src.append("}")
    src.append("pub fn new_inst(k: usize) -> Box<dyn crate::Inst> { Box::new(H { k, p: None }) }")
    return "\n".join(src)


def _target_dir():
    return os.path.join(lib.BUILD, "target_c20sh")


def write_crate(tag, worlds):
    d = os.path.join(prog.PROG_DIR, tag)
    if os.path.exists(d):
        shutil.rmtree(d)
    os.makedirs(os.path.join(d, "src", "bin"))
    os.makedirs(os.path.join(d, ".cargo"))
    open(os.path.join(d, ".cargo", "config.toml"), "w").write('[net]\noffline = true\n[build]\ntarget-dir = "%s"\n' % _target_dir())
    shutil.copy(os.path.join(lib.REPO, "Cargo.lock"), os.path.join(d, "Cargo.lock"))
    bins, names = [], {}
    for w in worlds:
        bname = "%s_%s" % (tag, re.sub(r"\W", "_", w["id"]))
        names[w["id"]] = bname
        bins.append('[[bin]]\nname = "%s"\npath = "src/bin/%s.rs"\n' % (bname, bname))
        os.makedirs(os.path.join(d, "src", "bin", bname))
        mods, arms = [], []
        for t, ty in enumerate(w["types"]):
            open(os.path.join(d, "src", "bin", bname, "m_t%d.rs" % t), "w").write(type_source(ty))
            mods.append('#[path = "%s/m_t%d.rs"] mod m_t%d;' % (bname, t, t))
            arms.append("      %d => m_t%d::new_inst(k)," % (t, t))
        open(os.path.join(d, "src", "bin", bname + ".rs"), "w").write(MAIN_RS.replace("@MODS@", "\n".join(mods)).replace("@ARMS@", "\n".join(arms)))
    open(os.path.join(d, "Cargo.toml"), "w").write(prog.CARGO_TOML % dict(name=tag, features="", bins="\n".join(bins), repo=lib.REPO))
    return d, names


def build(tag, worlds):
    d, names = write_crate(tag, worlds)
    with lib.Lock("cargo_c20sh"):
        rc, out = lib.sh(["cargo", "build", "--offline", "--bins", "--message-format=short", "-j", "8"], cwd=d, timeout=1500)
        if rc != 0:
            rc, out = lib.sh(["cargo", "build", "--offline", "--bins", "--message-format=short", "-j", "4"], cwd=d, timeout=1500)
    if rc != 0:
        raise lib.Infra("gen/c20_shared.py: the generated driver crate does not build:\n" + out[-3000:])
    return {wid: os.path.join(_target_dir(), "debug", b) for wid, b in names.items()}


# ------------------------------------------------------------------ oracle

def _oracle_one(args):
    ty, k = args
    inp = ty["inputs"][k]
    if ty["kind"] == "lat":
        return lattice_spec(ty, inp)
    p = dict(ty["prog"], rels=[tuple(r) for r in ty["prog"]["rels"]])
    try:
        return c20_spec.grouped(c20_spec.least_model(p, {r: [tuple(t) for t in ts] for r, ts in inp.items()}, budget=4_000_000), p["rels"])
    except c20_spec.Budget:
        return None


def _canon(snap):
    return prog.canon_snap(snap)


def _differs(ty, got, want):
    """name of the first relation of a canonical snapshot that is not the specification's (rows counted: no duplicates)"""
    for r in ty["rels"]:
        name = r[0]
        if name not in got or got[name][0] != len(got[name][1]) or [tuple(t) for t in got[name][1]] != [tuple(t) for t in want[name][1]]:
            return name
    return None


# ------------------------------------------------------------------ run + compare

def _slim_world(w):
    return dict(id=w["id"], instances=[list(i) for i in w["instances"]],
                types=[{k: v for k, v in t.items() if k != "text" or t["kind"] == "lat"} for t in w["types"]])


def world_from_json(d):
    w = dict(id=d.get("id", "replay"), instances=[tuple(i) for i in d["instances"]], types=[])
    for t in d["types"]:
        t = dict(t)
        t["rels"] = [(r[0], r[1], tuple(r[2]) if isinstance(r[2], list) else r[2]) for r in t["rels"]]
        t["inputs"] = [{r: [tuple(x) for x in ts] for r, ts in inp.items()} for inp in t["inputs"]]
        if t["kind"] == "dl":
            t["prog"] = dict(t["prog"], rels=[tuple(r) for r in t["prog"]["rels"]])
            t["text"] = dl.rust_program_text(t["prog"])
        w["types"].append(t)
    return w


def _run_one(args):
    binary, w, cfg, noprog, total = args
    spec = ",".join("%d:%d" % (t, k) for t, k in w["instances"])
    cmd = [binary, cfg["mode"], str(cfg["threads"]), cfg["construct"], str(cfg.get("nested", 0)), str(cfg["rounds"]), str(noprog), str(total), spec]
    t0 = time.time()
    try:
        p = subprocess.run(cmd, stdout=subprocess.PIPE, stderr=subprocess.PIPE, text=True, timeout=total + 4 * noprog + 60)
        out, rc = p.stdout, p.returncode
    except subprocess.TimeoutExpired:
        return dict(status="the driver's own watchdog did not fire: killed after %d s" % (total + 4 * noprog + 60), rounds_done=0, returned=0, alone=[], obs=[], wall=time.time() - t0)
    try:
        o = json.loads(out.splitlines()[-1])
    except (ValueError, IndexError):
        return dict(status="crash rc=%s: %s" % (rc, (p.stderr or "")[-300:]), rounds_done=0, returned=0, alone=[], obs=[], wall=time.time() - t0)
    o["wall"] = time.time() - t0
    return o


def check(worlds, configs_of, tag, noprog=10.0, total=25.0, parallel=4):
    """worlds: list of world dicts; configs_of: {world id: [cfg]}"""
    t0 = time.time()
    todo = sorted({(wi, t, k) for wi, w in enumerate(worlds) for t, k in w["instances"]})
    with cf.ProcessPoolExecutor(min(8, lib.NCPU)) as ex:
        fut = ex.map(_oracle_one, [(worlds[wi]["types"][t], k) for wi, t, k in todo], chunksize=4)
        binaries = build(tag, worlds)          # the oracle is computed while cargo works
        oracle = dict(zip(todo, fut))
    t1 = time.time()
    runs = [(binaries[w["id"]], w, cfg, noprog, total) for w in worlds for cfg in configs_of[w["id"]]]
    with cf.ThreadPoolExecutor(parallel) as ex:
        outs = list(ex.map(_run_one, runs))
    t2 = time.time()
    mism, evals, distinct = [], 0, set()
    dist = dict(worlds=len(worlds), configurations=len(runs), by_mode={}, by_threads={}, by_construct={}, types={}, instances=0, instance_runs=0, rounds=0, hangs=0,
                oracle_and_build_seconds=round(t1 - t0, 1), run_seconds=round(t2 - t1, 1), no_oracle=0, per_configuration=[])
    wi_of = {w["id"]: i for i, w in enumerate(worlds)}
    for (binary, w, cfg, _, _), o in zip(runs, outs):
        wi = wi_of[w["id"]]
        dist["by_mode"][cfg["mode"]] = dist["by_mode"].get(cfg["mode"], 0) + 1
        dist["by_threads"][str(cfg["threads"])] = dist["by_threads"].get(str(cfg["threads"]), 0) + 1
        dist["by_construct"][cfg["construct"]] = dist["by_construct"].get(cfg["construct"], 0) + 1
        for t in w["types"]:
            key = "%s %s" % (t["macro"], t["shape"])
            dist["types"][key] = dist["types"].get(key, 0) + 1
        text = describe(cfg, w)
        cs = dict(family=FAMILY, world=_slim_world(w), configuration=cfg, configuration_text=text,
                  note="a concurrent schedule is not reproducible: the replay repeats the configuration 6 times")
        dist["per_configuration"].append(dict(world=w["id"], mode=cfg["mode"], threads=cfg["threads"], status=o["status"], rounds_done=o.get("rounds_done"), runs_returned=o.get("returned"), seconds=round(o.get("wall", 0), 2)))
        dist["rounds"] += o.get("rounds_done", 0)
        dist["instance_runs"] += o.get("returned", 0)
        dist["instances"] += len(w["instances"])
        # every instance alone (not an isolation matter: reported as such)
        for i, snap in enumerate(o.get("alone", [])):
            t, k = w["instances"][i]
            want = oracle[(wi, t, k)]
            if want is None:
                dist["no_oracle"] += 1
                continue
            bad = "panic" if snap == "panic" else _differs(w["types"][t], _canon(snap), want)
            if bad:
                mism.append(dict(case=dict(cs, instance=i, type=t, input=w["types"][t]["inputs"][k]), impl=snap if snap == "panic" else {bad: _canon(snap).get(bad)}, model=None, spec={bad: want.get(bad)},
                                 kind="impl_violates_spec", known=None,
                                 what="instance %d (%s, type %d input %d) run ALONE from the main thread: relation %s is not the least model (not an isolation failure: the engine is wrong on this program)" % (i, w["types"][t]["macro"], t, k, bad)))
                break
        if o["status"] == "hang":
            dist["hangs"] += 1
            inside = o.get("inside_run", [])
            who = ", ".join("#%d %s" % (i, w["types"][w["instances"][i][0]]["macro"]) for i in inside[:8])
            cpu = o.get("cpu_ticks_while_stuck", 0) / 100.0
            mism.append(dict(case=dict(cs, failing_input="hang"),
                             impl=dict(status="hang", round=o.get("stuck_round"), runs_returned_before=o.get("returned"), inside_run_never_returned=inside, never_started=o.get("never_started"),
                                       returned_in_round=o.get("returned_in_round"), cpu_seconds_while_stuck=cpu, stuck_seconds=o.get("stuck_seconds")),
                             model=None, spec="every run() returns (each instance finishes in milliseconds when run alone) with the least model of its program",
                             kind="impl_violates_spec", known=None,
                             what="HANG: %s: in round %d no job made progress for %.0f s (%d run() calls had returned before; %d instances are inside run() and never return: %s; %d never started; "
                                  "the process used %.2f s of CPU while stuck%s); every one of these instances returns in milliseconds when run alone"
                                  % (text, o.get("stuck_round", 0), o.get("stuck_seconds", noprog), o.get("returned", 0), len(inside), who, o.get("never_started", 0), cpu,
                                     ": everybody is blocked, a deadlock" if cpu < 0.2 else "")))
            continue
        if o["status"] != "ok":
            mism.append(dict(case=cs, impl=o["status"], model=None, spec="every run() returns", kind="impl_violates_spec", known=None,
                             what="shared-pool configuration did not complete (%s): %s" % (o["status"][:200], text)))
            continue
        evals += 1
        distinct.add((w["id"], json.dumps(cfg, sort_keys=True)))
        reported = False
        for i, seen in enumerate(o.get("obs", [])):
            t, k = w["instances"][i]
            want = oracle[(wi, t, k)]
            if want is None or reported:
                continue
            for e in seen:
                got = _canon(e["snap"])
                bad = _differs(w["types"][t], got, want)
                if bad:
                    reported = True
                    wt = [tuple(x) for x in want[bad][1]]
                    miss = [x for x in wt if x not in set(got.get(bad, (0, []))[1])]
                    extra = [x for x in got.get(bad, (0, []))[1] if x not in set(wt)]
                    mism.append(dict(case=dict(cs, instance=i, type=t, input=w["types"][t]["inputs"][k], first_round=e["first"], times=e["count"]),
                                     impl={bad: got.get(bad)}, model=None, spec={bad: want[bad]}, kind="impl_violates_spec", known=None,
                                     what="instance %d (%s, type %d input %d) run as a job of the shared pool among the others: relation %s differs from the least model in %d of %d rounds "
                                          "(first in round %d; %d rows, %d distinct, specification %d; missing e.g. %s, not derivable e.g. %s): %s"
                                          % (i, w["types"][t]["macro"], t, k, bad, e["count"], o.get("rounds_done", 0), e["first"], got.get(bad, (0, []))[0], len(got.get(bad, (0, []))[1]), len(wt), miss[:3], extra[:3], text)))
                    break
    return dict(mismatches=mism, evaluations=evals, distinct=len(distinct), distribution=dist)


def run(tier, seed, corpus=(), tag="c20sh"):
    rng = lib.rng_for(seed, "C20", FAMILY)
    quick = tier == "quick"
    nworlds, nconf = (3, 5) if quick else (8, 8)
    worlds, configs_of = [], {}
    for k, e in enumerate(corpus):
        w = world_from_json(e["world"])
        w["id"] = "corpus%d" % k
        worlds.append(w)
        configs_of[w["id"]] = [dict(e["configuration"]) for _ in range(2 if quick else 6)]
    for i in range(nworlds):
        w = gen_world(rng, "w%d" % i)
        worlds.append(w)
        configs_of[w["id"]] = gen_configs(rng, nconf, quick, offset=2 * i)
    return check(worlds, configs_of, tag + ("" if lib.REPO == "/repo" else "_alt"), noprog=10.0, total=20.0 if quick else 60.0, parallel=5 if quick else 6)


def replay(case, tag="c20shr"):
    w = world_from_json(case["world"])
    w["id"] = "replay"
    cfg = dict(case["configuration"])
    return check([w], {"replay": [dict(cfg) for _ in range(6)]}, tag + ("" if lib.REPO == "/repo" else "_alt"), noprog=10.0, total=40.0, parallel=3)
