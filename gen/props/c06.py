"""C06 — results are invariant under reordering and consistent renaming."""
import copy
import json
import os

from .. import c07_gen, dl, engine_tie, gen_dl, lib, prog, scc_shapes

PROP = "C06"
PROP_FILE = "Props/C06.v"


def item_vars(it):
    vs = set()
    if it[0] == "clause":
        for t in it[2]:
            if t[0] == "v":
                vs.add(t[1])
            elif t[0] == "f":
                vs |= set(t[2])
        for c in it[3]:
            vs |= cond_vars(c)
    elif it[0] == "cond":
        vs |= cond_vars(it[1])
    elif it[0] == "gen":
        vs |= {it[1]} | set(it[3])
    return vs


def cond_vars(c):
    if c[0] == "if":
        return set(c[2])
    if c[0] == "letc":
        return {c[1]}
    return {c[1]} | set(c[3])


def rename_rule(r, vmap, rmap):
    def tm(t):
        if t[0] == "v":
            return ("v", vmap(t[1]))
        if t[0] == "f":
            return ("f", t[1], [vmap(x) for x in t[2]])
        return t

    def cd(c):
        if c[0] == "if":
            return ("if", c[1], [vmap(x) for x in c[2]])
        if c[0] == "letc":
            return ("letc", vmap(c[1]), c[2])
        return (c[0], vmap(c[1]), c[2], [vmap(x) for x in c[3]])

    def it(i):
        if i[0] == "clause":
            return ("clause", rmap(i[1]), [tm(t) for t in i[2]], [cd(c) for c in i[3]])
        if i[0] == "cond":
            return ("cond", cd(i[1]))
        if i[0] == "gen":
            return ("gen", vmap(i[1]), i[2], [vmap(x) for x in i[3]])
        raise ValueError(i)
    return dict(heads=[(rmap(h), [tm(t) for t in a]) for h, a in r["heads"]], body=[it(i) for i in r["body"]])


def variants(rng, p, inputs, pure):
    """list of (kind, program, inputs, ty, cmap(python value->rust), fmap(python value -> expected printed value), relmap)"""
    out = []
    ident = (lambda v: v)
    # rule / declaration / head / input permutations
    q = copy.deepcopy(p)
    rng.shuffle(q["rules"])
    rng.shuffle(q["rels"])
    for r in q["rules"]:
        rng.shuffle(r["heads"])
    inp2 = [{k: rng.sample(v, len(v)) for k, v in inp.items()} for inp in inputs]
    out.append(("permute rules/decls/heads/inputs", q, inp2, "i32", None, ident, ident))
    # swap adjacent independent body items
    q = copy.deepcopy(p)
    swapped = 0
    for r in q["rules"]:
        b = r["body"]
        for i in range(len(b) - 1):
            if b[i][0] == "clause" and b[i + 1][0] == "clause" and not (item_vars(b[i]) & item_vars(b[i + 1])) and not b[i][3] and not b[i + 1][3]:
                b[i], b[i + 1] = b[i + 1], b[i]
                swapped += 1
                break
    if swapped:
        out.append(("swap independent body clauses", q, inputs, "i32", None, ident, ident))
    # alpha renaming of variables and relations
    vm = lambda x: "v_" + x[::-1] + "_q"      # noqa: E731
    rm = lambda r: "rel_" + r + "_z"          # noqa: E731
    q = dict(rels=[(rm(n), a, k) for n, a, k in p["rels"]], rules=[rename_rule(r, vm, rm) for r in p["rules"]])
    out.append(("rename variables and relations", q, [{rm(k): v for k, v in inp.items()} for inp in inputs], "i32", None, ident, rm))
    if pure:
        big = lambda c: c * 1000003 + 17      # noqa: E731
        q = copy.deepcopy(p)
        out.append(("constants i32 -> large i64", q, [{k: [tuple(big(x) for x in t) for t in v] for k, v in inp.items()} for inp in inputs],
                    "i64", (lambda c: str(big(c))), big, ident))
        out.append(("constants i32 -> String", copy.deepcopy(p), inputs, "String", (lambda c: 'String::from("s%d")' % c), (lambda c: '"s%d"' % c), ident))
    return out


def gen_cases(tier, seed):
    rng = lib.rng_for(seed, PROP)
    n = 24 if tier == "quick" else 300
    cases = []
    for i in range(n):
        pure = (i % 2 == 0)
        opts = dict(exprs=False, p_clause=1.0, p_clause_cond=0.0, p_leading_binder=0.0, p_binder_join=0.0) if pure else {}
        p = gen_dl.gen_program(rng, opts)
        inputs = [gen_dl.gen_input(rng, p["rels"], style=rng.choice(["small", "mixed", "sparse_chain"]))[0] for _ in range(2)]
        if i % 3 == 1:
            # a variable of the first clause repeated (adjacent or not) inside the second clause, with the two relations very unequal in
            # size both ways: the result must not depend on which of the two clauses the generated code iterates (clause order, sizes)
            jr = c07_gen.add_join_repeat(rng, p)
            if jr:
                inputs = c07_gen.join_repeat_inputs(rng, p, jr)[:2]
        cases.append(dict(id="c06_%d" % i, prog=p, inputs=inputs, pure=pure, variants=variants(rng, p, inputs, pure)))
    return cases + gen_scc_cases(tier, seed)


SCC_OPTS = dict(p_rec=0.6, p_rec_union=0.7, rec_kinds=["lin", "nonlin", "symtrans", "symtrans", "mutual", "mutual"],
                families=["random", "random", "fanin", "braid", "diamond", "skipchain"])


def scc_variants(rng, p, inputs):
    """rule-ORDER variants of a program with a deep stratum DAG: the same rules with consumers first, shuffled, consumers directly
    before their last producer, the rules of a relation spread over the text, reversed; one of them also alpha-renamed.  The order
    in which the strata are evaluated is recomputed by the macro for every variant and must not show in the relations."""
    ident = (lambda v: v)
    out = []
    for st, q in scc_shapes.all_orders(rng, p, 5):
        inp2 = [{k: rng.sample(v, len(v)) for k, v in inp.items()} for inp in inputs]
        out.append(("rule order: " + st, dict(rels=q["rels"], rules=q["rules"]), inp2, "i32", None, ident, ident))
    if out:
        # the first reordering once more under a renaming that reverses the alphabetical order of the relation names
        q = out[0][1]
        names = sorted(n for n, _, _ in q["rels"])
        ren = {n: "z%02d_%s" % (len(names) - k, n) for k, n in enumerate(names)}
        rm = lambda r: ren[r]                       # noqa: E731
        vm = lambda x: "w_" + x                     # noqa: E731
        q2 = dict(rels=[(rm(n), a, k) for n, a, k in q["rels"]], rules=[rename_rule(r, vm, rm) for r in q["rules"]])
        out.append((out[0][0] + " + relations renamed in reverse alphabetical order", q2, [{rm(k): v for k, v in inp.items()} for inp in inputs], "i32", None, ident, rm))
    return out


def gen_scc_cases(tier, seed):
    """base programs with deep / irregular stratum DAGs (gen/scc_shapes.py) whose rule-order variants matter: multi-rule recursive
    strata feeding one consumer through several rule-level edges, consumers written before their producers, producers of one
    consumer far apart in the text.  Own random stream."""
    rng = lib.rng_for(seed, PROP, "scc_shapes")
    n = 14 if tier == "quick" else 100
    cases = []
    for i in range(n):
        c = scc_shapes.gen_case(rng, SCC_OPTS if i % 3 else None, ninputs=2)
        if c:
            p, inputs, _ = c
            cases.append(dict(id="c06_scc_%d" % i, prog=p, inputs=inputs, pure=True, variants=scc_variants(rng, p, inputs)))
    return cases


def load_corpus():
    """corpus/C06.jsonl: base program + inputs + rule-order variants stored as permutations of the base program's rules"""
    path = os.path.join(lib.VERIF, "corpus", PROP + ".jsonl")
    out = []
    if not os.path.exists(path):
        return out
    ident = (lambda v: v)
    for k, l in enumerate(open(path)):
        if l.strip():
            c = scc_shapes.decode_case(json.loads(l), "corpus_%d" % k)
            p = c["prog"]
            c["pure"] = True
            c["variants"] = [(kind, dict(rels=p["rels"], rules=[p["rules"][j] for j in perm]), c["inputs"], "i32", None, ident, ident) for kind, perm in c.get("orders", [])]
            out.append(c)
    return out


def par_ok(q):
    """ascent_par! accepts the program as rendered (no lattices here; every column type is Send + Sync + Hash)"""
    return all(k == "rel" for _, _, k in q["rels"])


def tie(tier, seed, replay):
    cases = load_corpus() + gen_cases(tier, seed)
    results = engine_tie.run(PROP, cases, tag="c06")
    nskipped = sum(1 for r in results if r.get("skipped"))
    results = [r for r in results if not r.get("skipped")]
    mism = []
    # the planner model (Plan/PlanModel.v, c06_planned_runs_invariant) vs the dumped plan of every base program
    if not replay:
        from .. import plan_model
        mism += plan_model.check_cases([c for c in cases if not str(c["id"]).startswith("corpus_")], tag="plan_c06")
    scc_cov = dict(base_programs=0, strata=0, max_strata=0, depth=0, stratum_edges=0, sensitive_edges=0, uneven_fanin=0, double_edge_fanin=0, looping=0)
    for r in results:
        mism += engine_tie.compare_case(r)
        st = r["case"]["prog"].get("scc", {}).get("stats")
        if st:
            scc_cov["base_programs"] += 1
            scc_cov["max_strata"] = max(scc_cov["max_strata"], st["strata"])
            for a, b in (("strata", "strata"), ("depth", "depth"), ("stratum_edges", "edges"), ("sensitive_edges", "sensitive"), ("uneven_fanin", "uneven"), ("double_edge_fanin", "double_fanin"), ("looping", "looping")):
                scc_cov[a] += st[b]
    # the variants: real macro + rustc only; expected = the base program's specification answer, mapped
    jobs, meta = [], {}
    for r in results:
        c = r["case"]
        for k, (kind, q, inps, ty, cmap, fmap, rmap) in enumerate(c["variants"]):
            jid = "%s_v%d" % (c["id"], k)
            text = dl.rust_program_text(q, ty, cmap)
            jobs.append(dict(id=jid, text=text, macro="ascent", rels=q["rels"], ty=ty, scripts=[[("set", inp), ("run",), ("snap",)] for inp in inps]))
            meta[jid] = (r, kind, fmap, rmap, text, inps)
            # the same variant through the parallel macro (sharded concurrent indices: bucket merges depend on where the
            # hashes of the renamed constants fall); the expected answer stays the base program's least model, mapped
            if par_ok(q):
                jobs.append(dict(id=jid + "_par", text=text, macro="ascent_par", rels=q["rels"], ty=ty, scripts=[[("set", inp), ("run",), ("snap",)] for inp in inps]))
                meta[jid + "_par"] = (r, kind + " [ascent_par]", fmap, rmap, text, inps)
    impl = prog.build_and_run("c06v", jobs) if jobs else {}
    kinds, distinct = {}, set()
    for jid, (r, kind, fmap, rmap, text, inps) in meta.items():
        kinds[kind] = kinds.get(kind, 0) + 1
        c = r["case"]
        for k in range(len(c["inputs"])):
            spec = r["spec"][k]
            if spec is None:
                continue
            sg = engine_tie.group_facts(spec, c["prog"]["rels"])
            iv = impl.get(jid, [None] * len(c["inputs"]))[k]
            cs = dict(base_program=r["text"], variant=kind, variant_program=text, input=inps[k])
            if iv is None or "snaps" not in iv:
                mism.append(dict(case=cs, impl=iv, model=None, spec=None, kind="impl_violates_spec", known=None,
                                 what="variant (%s) did not produce a result: %s" % (kind, json.dumps(iv)[:300])))
                continue
            isnap = prog.canon_snap(iv["snaps"][-1])
            distinct.add((jid, k))
            for name, _, _ in c["prog"]["rels"]:
                exp = sorted({tuple(fmap(x) for x in t) for t in sg[name][1]}, key=repr)
                got = isnap[rmap(name)][1]
                if got != exp:
                    mism.append(dict(case=cs, impl={rmap(name): got}, model=None, spec={name: exp}, kind="impl_violates_spec", known=None,
                                     what="variant (%s) of the program computes a different relation %s than the original (mapped through the renaming)" % (kind, name)))
                    break
    return dict(evaluations=sum(len(r["case"]["inputs"]) for r in results) + len(distinct), distinct_nontrivial=len(distinct),
                rule="random base programs (half without interpreted functions) x 2 inputs, each with 3-5 syntactic variants: permuted rules / declarations / heads / input tuples, swapped independent body clauses, alpha-renamed variables and relations, constants mapped injectively to large i64 and to Strings; PLUS base programs with deep / irregular stratum DAGs (gen/scc_shapes.py: 4-13 strata, fan-in of producers at different depths, multi-rule recursive strata feeding a consumer through several rule-level edges) x 2 inputs on which the stratum edges are sensitive, each with 5-6 rule-ORDER variants (consumers first, shuffled, consumer directly before its last producer, rules of a relation spread over the text, reversed, renamed in reverse alphabetical order); every variant through the real macro and rustc; expected = the base program's least model mapped through the renaming; non-trivial/distinct = (variant, input) pairs that produced a result",
                samples=[dict(base=r["text"], variants=[(v[0], dl.rust_program_text(v[1], v[3], v[4])) for v in r["case"]["variants"]][:3]) for r in results[:2]],
                distribution=dict(base_programs=len(results), variant_kinds=kinds), mismatches=mism,
                trusted_base=["gen/props/c06.py variant generator (a wrong variant shows as a false alarm, not a silent pass)", "FRONT hook + plan translation for the base programs; generated crates for all"],
                assumptions=["the injective constant maps keep values inside the column types"],
                extra=dict(cases_skipped_model_too_slow=nskipped, stratum_order_family=scc_cov))
