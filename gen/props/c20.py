"""C20 — program instances are isolated and independent of the rayon pool they run in.

Parts of the tie: (0) source scan for process-wide state; (1) random programs under pool assignments (construction / run / re-run /
nested), two of them with update_indices() called in the construction pool; (2) concurrent instances; (3) index level
(gen/props/c20_index.py: CRelNoIndex protocol vs Index/NoIndexPools.v, Index/NoIndexLife.v); (4) gen/c20_pools.py: indices that
exist BEFORE run() (initial values / update_indices()) built in another pool, relations of hundreds of rows read with no bound
column, vs the python least-model oracle gen/c20_spec.py and the life model Index/NoIndexLife.v; (5) gen/c20_contention.py: BIG
ascent_par! programs (lattice and plain relations, 10^4-10^5 keys each derived several times in one iteration) constructed under one
pool (1..16 threads, nested, or the main thread with a global pool of 1 / 2 / default threads) and run - also in stages, and twice -
under another, vs the python specification of gen/par_contention.py (one row per key with the least upper bound; one row per
tuple); the key mutex of the lattice head update as an explicit requirement: Engine/ParLatLocks*.v; (6) gen/c20_shared.py: 50-100
instances of 3 generated program types (parallel and serial mixed) whose run() calls are themselves rayon JOBS OF ONE POOL of 2-8
threads (par_iter / scope / scope_fifo / join tree / the global pool / nested install), several rounds, each instance vs the least
model of its program, with a no-progress watchdog (a configuration that stops making progress is the failing input `hang`).
corpus/C20.jsonl runs first."""
import json
import os
import re

from .. import c20_contention, c20_pools, c20_shared, c20_spec, dl, engine_tie, gen_dl, lib, prog

PROP = "C20"
PROP_FILE = "Props/C20.v"

# every process-wide / thread-wide piece of state in the four crates must be on this list (none influences results)
STATIC_ALLOW = {
    "ascent/src/internal.rs": ["MOVE_REL_INDEX_CONTENTS_TOTAL_TIME", "INDEX_INSERT_TOTAL_TIME", "MOVE_FULL_INDEX_CONTENTS_TOTAL_TIME", "MOVE_NO_INDEX_CONTENTS_TOTAL_TIME"],
    "ascent/src/c_rel_index.rs": ["shards_count", "RES"],
    "ascent/src/verif_hooks.rs": ["CLOCK_ARMED", "PERTURB_SEED", "PERTURB_COUNTER"],
    "ascent_macro/src/ascent_syntax.rs": ["IDENT_COUNTERS"],
    "byods/ascent-byods-rels/src/trrel_binary_ind.rs": ["MERGE_TIME", "MERGE_COUNT"],
    "byods/ascent-byods-rels/src/trrel_union_find.rs": ["DEPTH_COUNT", "DEPTH_SUM", "MERGE_MULTIPLE_TIME", "ADD_SET_CONNECTION_TIME"],
    "byods/ascent-byods-rels/src/trrel_union_find_binary_ind.rs": ["MERGE_TIME", "MERGE_DELTA_CONSTRUCTION_TIME", "MERGE_TOTAL_UPDATE_TIME", "MERGE_COUNT"],
}
# statistics counters: allowed only while they are WRITE-ONLY (every use is `NAME += ..` or the declaration)
WRITE_ONLY = {"MOVE_REL_INDEX_CONTENTS_TOTAL_TIME", "INDEX_INSERT_TOTAL_TIME", "MOVE_FULL_INDEX_CONTENTS_TOTAL_TIME", "MOVE_NO_INDEX_CONTENTS_TOTAL_TIME",
              "MERGE_TIME", "MERGE_COUNT", "DEPTH_COUNT", "DEPTH_SUM", "MERGE_MULTIPLE_TIME", "ADD_SET_CONNECTION_TIME", "MERGE_DELTA_CONSTRUCTION_TIME", "MERGE_TOTAL_UPDATE_TIME"}


def scan_statics():
    found, unknown = [], []
    for crate in ("ascent/src", "ascent_base/src", "ascent_macro/src", "byods/ascent-byods-rels/src"):
        for root, _, files in os.walk(os.path.join(lib.REPO, crate)):
            for fn in files:
                if not fn.endswith(".rs"):
                    continue
                rel = os.path.relpath(os.path.join(root, fn), lib.REPO)
                if rel.endswith("exps.rs") or rel.endswith("tests.rs") or rel.endswith("test.rs") or "/examples/" in rel:
                    continue
                src = open(os.path.join(root, fn)).read()
                src = re.sub(r"//[^\n]*", "", src)
                for m in re.finditer(r"\b(static\s+(?:mut\s+)?(?:ref\s+)?([A-Za-z_]\w*)\s*:|thread_local!|lazy_static!|OnceCell|once_cell::sync::Lazy|OnceLock)", src):
                    name = m.group(2) or m.group(1)
                    if m.group(2) is None:
                        continue      # the macro / type itself; the `static NAME:` inside is matched separately
                    found.append((rel, name))
                    if name not in STATIC_ALLOW.get(rel, []):
                        unknown.append((rel, name))
                    elif name in WRITE_ONLY:
                        # any read of a statistics counter (other crates included) would make it shared state
                        for root2, _, files2 in os.walk(lib.REPO):
                            if "/target" in root2 or "/.git" in root2:
                                continue
                            for fn2 in files2:
                                if fn2.endswith(".rs"):
                                    txt = re.sub(r"//[^\n]*", "", open(os.path.join(root2, fn2), errors="replace").read())
                                    for mm in re.finditer(r"\b%s\b(?!\s*(\+=|:))" % name, txt):
                                        ctx = txt[max(0, mm.start() - 40):mm.end() + 20]
                                        if "println" in ctx or "eprintln" in ctx or "dbg!" in ctx or "{:?}" in ctx:
                                            continue      # printing statistics does not feed back into evaluation
                                        unknown.append((os.path.relpath(os.path.join(root2, fn2), lib.REPO), name + " (read)"))
    return found, unknown


def gen_cases(tier, seed):
    rng = lib.rng_for(seed, PROP)
    n = 12 if tier == "quick" else 120
    cases = []
    for i in range(n):
        agg = (i % 3 == 2)
        p = gen_dl.gen_strat_program(rng) if agg else gen_dl.gen_program(rng)
        inputs = [gen_dl.gen_input(rng, p["rels"], style=rng.choice(["mixed", "dense", "sparse_chain"]))[0]]
        cases.append(dict(id="c20_%d" % i, prog=p, inputs=inputs, agg=agg))
    return cases


def pool_script(inp, a, b, c, prebuild=False):
    """construct in a pool of a threads, run in a pool of b, run again in a pool of c;
    prebuild: the (deprecated, public) update_indices() is called in the construction pool after the rows are assigned, so that
    run() meets indices that are current but were built in another pool"""
    def pool(n):
        return "ascent::rayon::ThreadPoolBuilder::new().num_threads(%d).build().unwrap()" % n
    st = [("raw", "let pa = %s; let pb = %s; let pc = %s;" % (pool(a), pool(b), pool(c))),
          ("raw", "let mut p = pa.install(|| Prog::default());"), ("set", inp)]
    if prebuild:
        st.append(("raw", "pa.install(|| p.update_indices());"))
    st += [("raw", "pb.install(|| p.run());"), ("snap",),
          ("raw", "pc.install(|| p.run());"), ("snap",),
            ("raw", "pa.install(|| pb.install(|| p.run()));"), ("snap",)]
    return st


CORPUS = os.path.join(lib.VERIF, "corpus", "C20.jsonl")


def corpus_cases():
    if not os.path.exists(CORPUS):
        return []
    return [json.loads(l) for l in open(CORPUS) if l.strip()]


def replay_case(path):
    r = json.load(open(path))
    cs = r.get("case") or {}
    if cs.get("family") == "prebuilt":
        pb = c20_pools.replay(cs)
        return dict(evaluations=pb["evaluations"], distinct_nontrivial=pb["distinct"], rule="replay of one prebuilt-index history (5 repetitions: the placement of rows on workers is up to rayon)",
                    samples=[], distribution=pb["kinds"], mismatches=pb["mismatches"])
    if cs.get("family") == c20_contention.FAMILY:
        pc = c20_contention.replay(cs)
        return dict(evaluations=pc["evaluations"], distinct_nontrivial=pc["distinct"], rule="replay of one pool-contention configuration (12 repetitions, + 12 unperturbed: a concurrent schedule is not reproducible)",
                    samples=[], distribution=pc["distribution"], mismatches=pc["mismatches"])
    if cs.get("family") == c20_shared.FAMILY:
        ps = c20_shared.replay(cs)
        return dict(evaluations=ps["evaluations"], distinct_nontrivial=ps["distinct"], rule="replay of one shared-pool configuration (6 repetitions: a work-stealing schedule is not reproducible)",
                    samples=[], distribution=ps["distribution"], mismatches=ps["mismatches"])
    if cs.get("family") == "pools" and cs.get("prog"):
        p = dict(cs["prog"], rels=[tuple(x) for x in cs["prog"]["rels"]])
        inp = {k: [tuple(t) for t in v] for k, v in cs["input"].items()}
        cf = cs["configuration"]
        try:
            spec = c20_spec.grouped(c20_spec.least_model(p, inp), p["rels"])
        except c20_spec.Budget:
            return None
        text = dl.rust_program_text(p)
        scripts = [pool_script(inp, cf["construct_pool"], cf["run_pool"], cf["rerun_pool"], prebuild=cf.get("update_indices_called_in_construct_pool", False)) for _ in range(5)]
        res = prog.build_and_run("c20pr", [dict(id="c20_replay", text=text, macro="ascent_par", rels=p["rels"], scripts=scripts)], nbins=1, run_timeout=300)["c20_replay"]
        mism = []
        for k, iv in enumerate(res):
            if "snaps" not in iv:
                mism.append(dict(case=cs, impl=iv, model=None, spec=None, kind="impl_violates_spec", known=None, what="pools configuration did not complete: %s" % json.dumps(iv)[:300]))
                continue
            for j, snap in enumerate(iv["snaps"]):
                isnap = prog.canon_snap(snap)
                bad = [n for n, _, _ in p["rels"] if isnap[n][1] != spec[n][1] or isnap[n][0] != len(isnap[n][1])]
                if bad:
                    mism.append(dict(case=dict(cs, snapshot=j), impl={bad[0]: isnap[bad[0]]}, model=None, spec={bad[0]: spec[bad[0]][1]}, kind="impl_violates_spec", known=None,
                                     what="pools configuration (repetition %d): relation %s differs from the instance run alone (snapshot %d)" % (k, bad[0], j)))
                    break
        return dict(evaluations=len(res), distinct_nontrivial=len(res), rule="replay of one pool configuration of one program (5 repetitions)", samples=[], distribution={}, mismatches=mism)
    return None


def tie(tier, seed, replay):
    if replay:
        t = replay_case(replay)
        if t is not None:
            return t
    rng = lib.rng_for(seed, PROP, "cfg")
    found, unknown = scan_statics()
    mism = []
    for rel, name in unknown:
        mism.append(dict(case=dict(file=rel, static=name), impl="shared state in the source", model="Engine model has no state shared between instances", spec=None,
                         kind="model_differs", known=None, what="isolation assumption of the model: process-wide state `%s` in %s is not on the reviewed allow-list (gen/props/c20.py STATIC_ALLOW)" % (name, rel)))
    cases = gen_cases(tier, seed)
    noracle = 0
    results = engine_tie.run(PROP, cases, tag="c20s", spec="strat")
    nskipped = sum(1 for r in results if r.get("skipped"))
    results = [r for r in results if not r.get("skipped")]
    for r in results:
        mism += engine_tie.compare_case(r)
        # the python specification oracle used for the big inputs below, compared with the Coq specification semantics (Engine/Sem.v) here
        if r.get("spec") and r["spec"][0] is not None:
            try:
                mine = c20_spec.grouped(c20_spec.least_model(r["case"]["prog"], r["case"]["inputs"][0], budget=3_000_000), r["case"]["prog"]["rels"])
            except c20_spec.Budget:
                continue
            coq = engine_tie.group_facts(r["spec"][0], r["case"]["prog"]["rels"])
            if any(mine[n][1] != coq[n][1] for n, _, _ in r["case"]["prog"]["rels"]):
                raise lib.Infra("gen/c20_spec.py (python oracle) and Engine/Sem.v strat_fix disagree on %s\n%s\n%r" % (r["case"]["id"], r["text"], r["case"]["inputs"][0]))
            noracle += 1
    # (1) pool assignments: construction pool / run pool / re-run pool all different, nested install
    sizes = [1, 2, 3, 5, 8, 16]
    jobs, meta = [], {}
    npool = 3 if tier == "quick" else 8
    for r in results:
        c = r["case"]
        scripts, cfgs = [], []
        for q in range(npool + 2):
            a, b, cc = rng.choice(sizes), rng.choice(sizes), rng.choice(sizes)
            pre = q >= npool
            if pre and a <= b:
                a, b = max(sizes), min(b, 2)
            cfgs.append((a, b, cc, pre))
            scripts.append(pool_script(c["inputs"][0], a, b, cc, prebuild=pre))
        jid = c["id"] + "_pools"
        jobs.append(dict(id=jid, text=dl.rust_program_text(c["prog"]), macro="ascent_par", rels=c["prog"]["rels"], scripts=scripts))
        meta[jid] = (r, "pools", cfgs)
    impl = prog.build_and_run("c20p", jobs, run_timeout=300) if jobs else {}
    # (2) concurrent instances of different generated types, serial and parallel, all running at the same time
    cjobs = []
    for r in results:
        c = r["case"]
        for macro in ("ascent", "ascent_par"):
            jid = "%s_conc_%s" % (c["id"], macro)
            scripts = [[("set", c["inputs"][0]), ("run",), ("snap",)] for _ in range(3)]
            # two instances of the SAME type racing inside one job
            scripts.append([("raw", "let mut q = Prog::default();"), ("set", c["inputs"][0]),
                            ("raw", "%s" % "".join("q.%s = p.%s.iter().cloned().collect();" % (n, n) for n, _, _ in c["prog"]["rels"])),
                            ("raw", "std::thread::scope(|s| { s.spawn(|| q.run()); p.run(); });"), ("snap",),
                            ("raw", "std::mem::swap(&mut p, &mut q);"), ("snap",)])
            cjobs.append(dict(id=jid, text=dl.rust_program_text(c["prog"]), macro=macro, rels=c["prog"]["rels"], scripts=scripts, threads=(3 if macro == "ascent_par" else None)))
            meta[jid] = (r, "concurrent", macro)
    cimpl = prog.build_and_run("c20c", cjobs, nbins=2, run_timeout=300, main_mode="threads") if cjobs else {}
    # (3) index level: the CRelNoIndex pool protocol on the real type vs the Coq protocol model (gen/props/c20_index.py)
    from . import c20_index
    ix = c20_index.run(tier, seed)
    mism += ix.get("mismatches", [])
    # (4) indices built BEFORE run() in another pool (initial values / update_indices()), relations of hundreds of rows read with no
    #     bound column: gen/c20_pools.py (corpus cases first)
    pb = c20_pools.run(tier, seed, corpus=[e for e in corpus_cases() if e.get("family") == "prebuilt"])
    mism = pb["mismatches"] + mism
    # (6) many instances whose run() calls are rayon jobs of ONE pool (par_iter / scope / join / global pool), with a hang watchdog:
    #     gen/c20_shared.py (before (5): it takes a few seconds)
    psh = c20_shared.run(tier, seed, corpus=[e for e in corpus_cases() if e.get("family") == c20_shared.FAMILY])
    mism = psh["mismatches"] + mism
    # (5) big contended programs (lattice and plain relations) constructed under one pool and run under another: gen/c20_contention.py
    #     (last: the real runs want the cores to themselves)
    pcn = c20_contention.run(tier, seed, corpus=[e for e in corpus_cases() if e.get("family") == c20_contention.FAMILY])
    mism = pcn["mismatches"] + mism
    distinct, kinds = set(), {}
    for jid, m in meta.items():
        r = m[0]
        c = r["case"]
        spec = r["spec"][0]
        if spec is None:
            continue
        sg = engine_tie.group_facts(spec, c["prog"]["rels"])
        res = (impl if m[1] == "pools" else cimpl).get(jid)
        for k, iv in enumerate(res or [None]):
            cfg = (dict(construct_pool=m[2][k][0], run_pool=m[2][k][1], rerun_pool=m[2][k][2], update_indices_called_in_construct_pool=m[2][k][3]) if m[1] == "pools" else dict(macro=m[2], concurrent_with="all other jobs of the binary", script=k))
            cs = dict(program=r["text"], input=c["inputs"][0], configuration=cfg, family=m[1], prog=dict(rels=c["prog"]["rels"], rules=c["prog"]["rules"]))
            if iv is None or "snaps" not in iv:
                mism.append(dict(case=cs, impl=iv, model=None, spec=None, kind="impl_violates_spec", known=None,
                                 what="%s configuration did not complete (panic / timeout): %s" % (m[1], json.dumps(iv)[:300])))
                continue
            distinct.add((jid, k))
            kinds[m[1]] = kinds.get(m[1], 0) + 1
            for j, snap in enumerate(iv["snaps"]):
                isnap = prog.canon_snap(snap)
                bad = [n for n, _, _ in c["prog"]["rels"] if isnap[n][1] != sg[n][1] or isnap[n][0] != len(isnap[n][1])]
                if bad:
                    mism.append(dict(case=dict(cs, snapshot=j), impl={bad[0]: isnap[bad[0]]}, model=None, spec={bad[0]: sg[bad[0]][1]}, kind="impl_violates_spec", known=None,
                                     what="%s configuration: relation %s differs from the instance run alone (snapshot %d)" % (m[1], bad[0], j)))
                    break
    kinds["prebuilt_index_histories"] = pb["kinds"]
    kinds["pool_contention"] = pcn["distribution"]["by_kind"]
    kinds["shared_pool"] = psh["distribution"]["by_mode"]
    return dict(evaluations=len(results) + len(distinct) + ix.get("evaluations", 0) + pb["evaluations"] + pcn["evaluations"] + psh["evaluations"], distinct_nontrivial=len(distinct) + pb["distinct"] + pcn["distinct"] + psh["distinct"],
                rule="shared pool: worlds of 50-100 instances of 3 generated program types (graph programs with fixpoints of 4-18 iterations: transitive closure left / right / non-linear, reachability, later strata with "
                     "count / negation / projection; lattice programs: least distances Dual<i32>, capped longest hops; random gen_dl programs), ascent_par! and ascent! mixed, whose run() calls are rayon JOBS OF ONE POOL of "
                     "2-8 threads (par_iter_mut, with_max_len(1), scope + spawn, scope_fifo + spawn_fifo, a binary rayon::join tree, the global pool from a plain thread, the pool installed inside an outer pool), values "
                     "constructed inside their job / on a plain thread / as jobs of the pool in an earlier pass, 12-20 rounds (quick) with fresh values; every instance must RETURN (watchdog: no job made progress for 10 s = "
                     "failing input `hang`, with the instances inside run() and the CPU time used while stuck) and hold the least model of its program (gen/c20_spec.py; plain iteration of the lattice equations) in "
                     "every round; distinct = (world, configuration) that completed; "
                     "pool contention: five big ascent_par! programs (lattices of integers / Dual / Set / Product with one- and two-column keys, recursion through a lattice, plain relations with projections and a join; "
                     "10^3-10^5 keys or tuples, each derived 3-48 times in one iteration) whose value is constructed under a pool of a threads (1..16), nested pools, or the main thread with a global pool of 1 / 2 / default "
                     "threads, and run under another pool of b threads (1 -> many, many -> 1, a <> b, nested, the main thread, the same pools as control), also in two stages (a part of the rows run under one pool, then all "
                     "rows under another) and twice; after every full run a lattice relation must hold one row per key with the least upper bound of the derivable values and a plain relation one row per derivable tuple "
                     "(python specification gen/par_contention.spec); distinct = (input, configuration); "
                     "prebuilt indices: randomised ascent_par! programs around a relation of 150-700 rows that is dynamic (fed / linear / non-linear recursion) and read with no bound column "
                     "(count, sum, min / max, wildcard negation, cross product, first clause of a later stratum), its rows given as INITIAL VALUES (indexed in Default::default()) or assigned and "
                     "indexed by update_indices(), in a pool of a threads or on the main thread, then run in a pool of b (a > b in most), run again in a pool of c; every relation must equal the least "
                     "model (python oracle gen/c20_spec.py) with every row once, and the count() must be what Index/NoIndexLife.v life AlwaysRebuild reads; "
                     "random programs: (1) ascent_par! instance constructed in a pool of a threads, run in a pool of b, run again in a pool of c, then under a nested install (a, b, c from {1,2,3,5,8,16}; two more with update_indices() called in the construction pool, a > b); (2) every job of a binary (different generated types, serial and parallel) runs at the same time on its own OS thread, plus two instances of the same type racing; each result must equal the instance run alone (= specification); plus a source scan listing every static / thread_local / lazy_static of the four crates against a reviewed allow-list; distinct = (program, configuration)",
                samples=[dict(program=r["text"], input=r["case"]["inputs"][0]) for r in results[:2]],
                distribution=dict(programs=len(results), configurations=kinds, statics_found=["%s:%s" % f for f in found]), mismatches=mism,
                trusted_base=["source scan for shared state (regular expressions over the .rs files)", "FRONT hook; generated crates",
                              "gen/c20_spec.py (python least-model evaluator, the oracle for inputs of hundreds of rows): compared with Engine/Sem.v strat_fix on the small random cases of every run",
                              "Index/NoIndexLife.v vs generated code: the history translation of gen/c20_pools.py (rows = ids, round-robin workers, one SCC visit of the big relation); the theorem covers every worker assignment and split into rounds",
                              "gen/par_contention.spec (python specification of the five big programs) and the two drivers harness/par_contention, harness/c20_contention holding the same ascent_par! blocks (compared on every run); a concurrent schedule is not reproducible: a violation in the pool-contention family is a sampled one (measured on seed C20_lattice_insertion_locks_sized_at_construction: every lattice case fails in every run)",
                              "gen/c20_shared.py: the generated driver (src of MAIN_RS: a pure driver with a no-progress watchdog), the python fixpoint of the two lattice program shapes; a work-stealing schedule is not "
                              "reproducible: a violation of the shared-pool family is a sampled one (measured on seed C20_timing_counter_mutex_held_across_rayon: 8-11 of the 15 quick configurations hang in each of 8 runs of the family (seeds 0-7), the corpus configuration in 6 of 6 repetitions, "
                              "every configuration with >= 3 threads and scope / scope_fifo in round 0-3)",
                              "NO LOCK MODEL in Coq: Index/* and Engine/* model one instance; the process-wide statistics statics (STATIC_ALLOW / WRITE_ONLY) are outside the model, their not taking part in synchronisation "
                              "(no lock, no wait) is checked by the source scan (any use other than `NAME += ..` is reported) and, dynamically, by the shared-pool family only",
                              "RESIDUE: data races on the `static mut` timing statistics are UB in principle; they are not observable in results"],
                assumptions=["rayon::current_thread_index() < number of threads of the pool the call runs in"],
                extra=dict(cases_skipped_model_too_slow=nskipped, python_oracle_checked_against_coq_spec=noracle,
                           prebuilt_index_family={k: v for k, v in pb.items() if k != "mismatches"},
                           pool_contention_family={k: v for k, v in pcn.items() if k != "mismatches"},
                           shared_pool_family={k: v for k, v in psh.items() if k != "mismatches"}, index_level=ix.get("extra", {}).get("index_level", {k: v for k, v in ix.items() if k in ("evaluations", "distinct_nontrivial")})))
