"""C07 — every surface form means exactly its documented core expansion.

Per generated SUGARED program (disjunctions, nested disjunctions, ?patterns, wildcards, repeated variables,
same-clause expressions, negation, several heads, facts, attached conditions, adversarial names) x inputs:

  (1) the sugared text through the real macro + rustc                         (PROG)
  (2) the python HAND EXPANSION of the program through the real macro + rustc (PROG, same build)
  (3) Coq: the direct denotation of Syntax/Surface.v on the surface program (sstrat_fix) and Engine/Sem.v on
      core_of_prog (desugar_prog [] P) (strat_fix), both under Syntax/C07Vocab.v c07_interp
  (4) structure: the rules the macro's desugaring produced (FRONT dump) = Syntax/Desugar.v desugar_prog run
      from the counter state the dump started in (exact), and = desugar_prog [] up to a constant renumbering.

Packagings (a sugared form must mean its expansion whatever index types the generated code is compiled against):
  * macro: `ascent!` and, for a slice of the general programs and half of the family `negfam`, `ascent_par!`
    (sugared text and hand expansion under the same macro);
  * relations: default ones, column-less ones, and (family `negfam`, gen/c07_neg.py) relations tagged
    `#[ds(ascent_byods_rels::eqrel | trrel | trrel_uf)]`; the specification of a program with a tagged relation is the
    program over plain relations plus the provider's explicit closure rules (sides (3) evaluate that program; sides (1),
    (2) and (4) keep the tag);
  * family `negfam`: negations with every subset of their arguments wildcarded (ALL wildcards = emptiness test, and `!r()`
    of a column-less relation included), first / last / sole body item, with inputs in which the negated relation is
    completely empty and inputs in which it is not;
  * family `permjoin` (gen/c07_perm.py): a variable repeated ACROSS the first two clauses of a rule (`mutual(x, y) <--
    link(x, y), link(y, x)`), every column of the first clause repeated in the second in every order (arity 2 and 3;
    same-order and partial-join controls), the first relation derived (copy / permuting copy / recursive rule / facts /
    the joining rule writing back) and, per input, also loaded or not; relative sizes both ways.  For these cases the hand
    expansion writes the cross-clause repeats out as well (`link(x, y), link(zc1, zc2) if zc1 == y if zc2 == x`: no shared
    variable, no join index), and (5) the plan the macro dumped is compared with Plan/PlanModel.v compile_model
    (gen/plan_model.py: index column lists compared as LISTS; Syntax/JoinIndexOrder.v proves what depends on their order).
  * family `bindjoin` (gen/c07_bind.py): a variable bound by a body item BEFORE the first clause — `agg` with a min / max /
    sum result, `agg .. count()` through `let m = c as i32`, `let`, `if let`, `for` — repeated inside the first / the second /
    both clauses of the two-clause join that follows (`res(x, m) <-- agg m = min(v) in w(v), foo(x, y), bar(y, m)`), with inputs
    whose first join index has more keys than the second relation has rows and the reverse, and rows whose join columns match
    while the repeated column differs from the bound value.  Hand expansion and plan comparison as for permjoin.
"""
import concurrent.futures as cf
import json
import os
import time
from collections import Counter

from .. import c07_bind as B
from .. import c07_gen as G
from .. import c07_hir as H
from .. import c07_neg as N
from .. import c07_oracle as O
from .. import c07_perm as P
from .. import dl, engine_tie, gen_dl, lib, plan_model, prog

PROP = "C07"
PROP_FILE = "Props/C07.v"
KEY = "generated_names_capture_user_identifiers"
KEY_A = "repeated_var_of_attached_binding_does_not_compile"
FUEL = 200
CORPUS = os.path.join(lib.VERIF, "corpus", "C07.jsonl")

PRELUDE = ("From Coq Require Import List ZArith Bool String Ascii.\n"
           "From AV Require Import Engine.Core.\n"
           "From AV Require Import Engine.Sem.\n"
           "From AV Require Import Engine.Strat.\n"
           "From AV Require Import Engine.Vocab.\n"
           "From AV Require Import Syntax.Surface.\n"
           "From AV Require Import Syntax.Desugar.\n"
           "From AV Require Import Syntax.ToCore.\n"
           "From AV Require Import Syntax.Show.\n"
           "From AV Require Import Syntax.C07Vocab.\n"
           "From AV Require Import Syntax.NegIndexModel.\n"
           "Import ListNotations.\nOpen Scope Z_scope.\nOpen Scope string_scope.\n")
TIMING = {}
ALT_COUNTERS = '[(i "x1", 3%nat); (i "expr_replaced", 2%nat); (i "x2", 1%nat); (i "x3", 7%nat)]'


# ------------------------------------------------------------------ cases

def load_corpus():
    out = []
    if os.path.exists(CORPUS):
        for line in open(CORPUS):
            line = line.strip()
            if line:
                o = json.loads(line)
                out.append(dict(id="c07_" + o["id"], prog=norm_prog(o["prog"]), inputs=o["inputs"], corpus=True, adversarial=o.get("names", []),
                                macro=o.get("macro", "ascent"), cross=bool(o.get("cross"))))
    return out


def norm_prog(p):
    p = G.norm_prog(p)
    p["rels"] = N.norm_rels(p["rels"])
    return p


def gen_neg_cases(tier, seed):
    """family `negfam` (gen/c07_neg.py): every second program under ascent_par!"""
    n = 32 if tier == "quick" else 240
    cases = []
    for k in range(n):
        rng = lib.rng_for(seed, PROP, "negfam%d" % k)
        par = k % 2 == 1
        p = N.gen_neg_program(rng, k, par)
        cases.append(dict(id="c07_n%d" % k, prog=p, inputs=N.neg_inputs(rng, p), adversarial=[], macro="ascent_par" if par else "ascent", family="negfam"))
    return cases


def gen_perm_cases(tier, seed):
    """family `permjoin` (gen/c07_perm.py): a variable repeated ACROSS the first two clauses, every column of the first
    clause in every order, the first relation derived by rules / facts and loaded; every third program under ascent_par!;
    the hand expansion writes every cross-clause repeat out as a fresh variable + equality test"""
    n = 36 if tier == "quick" else 240
    cases = []
    for k in range(n):
        rng = lib.rng_for(seed, PROP, "permjoin%d" % k)
        p, info = P.gen_perm_program(rng, k)
        cases.append(dict(id="c07_p%d" % k, prog=p, inputs=P.perm_inputs(rng, p, info), adversarial=[], macro="ascent_par" if (k + k // 12) % 3 == 2 else "ascent",
                          family="permjoin", cross=True, perm_info=info))
    return cases


def gen_bind_cases(tier, seed):
    """family `bindjoin` (gen/c07_bind.py): a variable bound BEFORE the first clause (agg min / max / sum / count, let, if let,
    for) repeated in the first / second / both clauses of the two-clause join that follows; relative index sizes both ways;
    every third program under ascent_par!; hand expansion = every repeat of a bound variable written as fresh variable + test"""
    n = 28 if tier == "quick" else 210
    cases = []
    for k in range(n):
        rng = lib.rng_for(seed, PROP, "bindjoin%d" % k)
        p, info = B.gen_bind_program(rng, k, tier)
        cases.append(dict(id="c07_b%d" % k, prog=p, inputs=B.bind_inputs(rng, p, info), adversarial=[], macro="ascent_par" if (k + k // 7) % 3 == 2 else "ascent",
                          family="bindjoin", cross=True, bind_info=info))
    return cases


def gen_cases(tier, seed):
    rng = lib.rng_for(seed, PROP)
    n = 66 if tier == "quick" else 1000
    cases = []
    for k in range(n):
        p = G.gen_program(rng)
        names = []
        if rng.random() < 0.16:
            names = G.adversarialize(rng, p, k)
        ninp = rng.choice([2, 2, 3])
        inputs = [gen_dl.gen_input(rng, p["rels"], style=rng.choice(["small", "small", "mixed", "mixed", "sparse_chain", "dense"]))[0] for _ in range(ninp)]
        # every 5th program: a rule whose SECOND clause repeats a variable bound by the FIRST (both occurrences are index
        # columns, nothing is desugared), with inputs where the two columns differ and the relative sizes go both ways
        jr = None
        if k % 5 == 2 and not names:
            rng2 = lib.rng_for(seed, PROP, "joinrepeat%d" % k)
            jr = G.add_join_repeat(rng2, p)
            if jr:
                inputs = G.join_repeat_inputs(rng2, p, jr)
        # every 4th program through the parallel macro (sugared text and hand expansion alike)
        cases.append(dict(id="c07_%d" % k, prog=p, inputs=inputs, adversarial=names, join_repeat=jr, macro="ascent_par" if k % 4 == 3 else "ascent"))
    return cases + gen_neg_cases(tier, seed) + gen_perm_cases(tier, seed) + gen_bind_cases(tier, seed)


def has_strata_items(p):
    def walk(items):
        for it in items:
            if it[0] in ("neg", "agg"):
                return True
            if it[0] == "disj" and any(walk(alt) for alt in it[1]):
                return True
        return False
    return any(walk(r["body"]) for r in p["rules"])


def coq_group(c, cs):
    """Coq expressions of one program: wf, printed desugarings, per input (surface, desugared [], desugared ALT)"""
    p = c["prog"]            # the program as written (structure: what the macro desugars)
    sp = c["spec"]           # its specification: tagged relations replaced by plain ones + explicit closure rules (= p without tags)
    R = dl.Names()
    for name, _, _ in p["rels"]:
        R(name)
    P = G.c_prog(p["rules"], R)
    SP = P if sp is p else G.c_prog(sp["rules"], R)
    if has_strata_items(sp) or sp is not p or c["idx"] % 2 == 0:
        strata = engine_tie.stratify(sp["rules"])
    else:
        strata = [list(range(len(sp["rules"])))]       # one stratum = snaive_fix / naive_fix of the whole program
    offs, o = [], 0
    for r in sp["rules"]:
        n = G.count_expansions(r["body"])
        offs.append(list(range(o, o + n)))
        o += n
    s_strata = dl.coq_list(G.c_prog([sp["rules"][j] for j in comp], R) for comp in strata)
    d_idx = dl.coq_list(dl.cnats([k for j in comp for k in offs[j]]) for comp in strata)
    exprs = ["wf_surface %s" % SP,
             "show_prog (desugar_prog %s %s)" % (H.coq_counters(cs), P),
             "show_prog (desugar_prog [] %s)" % P,
             "(List.length (desugar_prog [] %s), match core_of_prog (desugar_prog [] %s) with Some _ => true | None => false end)" % (SP, SP)]
    dummy = "{| heads := []; body := [] |}"

    def desugared(counters, f0):
        return ("match core_of_prog (desugar_prog %s %s) with Some C => strat_fix c07_interp %d%%nat (map (map (fun k => nth k C %s)) %s) %s | None => None end"
                % (counters, SP, FUEL, dummy, d_idx, f0))
    for inp in c["inputs"]:
        f0 = dl.coq_facts(engine_tie.facts_of_input(inp, sp["rels"]), R)
        alt = desugared(ALT_COUNTERS, f0) if c["idx"] % 3 == 0 else "@None (list fact)"
        exprs.append("(sstrat_fix c07_interp %d%%nat %s %s, %s, %s)" % (FUEL, s_strata, f0, desugared("[]", f0), alt))
    inv = {v: k for k, v in R.d.items()}
    return exprs, inv, R, o


def ensure_coq():
    """the modules the evaluation imports (Show.v is not in the closure of the property file)"""
    with lib.Lock("coq"):
        lib.coq_makefile()
        rc, out = lib.sh(["timeout", "1500", "make", "-j%d" % lib.NCPU, "Syntax/Show.vo", "Syntax/C07Vocab.vo", "Syntax/NegIndexModel.vo", "Syntax/ToCore.vo", "Engine/Strat.vo", "Engine/Vocab.vo",
                          "Plan/PlanShow.vo", "Plan/PlanWf.vo"], cwd=lib.COQ, timeout=1600)
    if rc:
        raise lib.Infra("cannot build the Coq modules of the C07 tie:\n" + out[-3000:])


def run_cases(cases, tag="c07", coq_timeout=50, probes=()):
    ensure_coq()
    for k, c in enumerate(cases):
        c["idx"] = k
        c.setdefault("macro", "ascent")
        c["spec"] = N.spec_program(c["prog"])
        c["obs"] = N.observed_rels(c["prog"])
        c["text"] = G.program_text(c["prog"])
        # (cases flagged `cross`: cross-clause repeated variables are written out as well: fresh variable + equality test)
        c["expanded"] = P.expand_program_cross(c["prog"]) if c.get("cross") else G.expand_program(c["prog"])
        c["expanded_text"] = G.program_text(c["expanded"])
        c["feats"] = G.program_features(c["prog"])
        if c.get("cross") and P.cross_features(c["prog"]):
            c["feats"]["cross_clause_repeated_var"] = P.cross_features(c["prog"])
    t0 = time.time()
    dumps = prog.front_run([(c["id"], c["macro"], c["text"]) for c in cases])
    timing = dict(front=round(time.time() - t0, 1))
    jobs, adv_jobs = [], []
    for c in cases:
        scripts = [[("set", inp), ("run",), ("snap",)] for inp in c["inputs"]]
        d = dumps.get(c["id"], {})
        c["front"] = d
        if d.get("status") == "ok":       # a program the front end rejects / panics on is not handed to rustc
            # programs with adversarial names (and those hitting the known compile-time defect) may fail to compile:
            # their own crate, so that blaming them does not rebuild everything else
            risky = c.get("adversarial") or c.get("corpus") or G.shape_attached_repeat(c["prog"])
            (adv_jobs if risky else jobs).append(dict(id=c["id"] + "_s", text=c["text"], macro=c["macro"], rels=c["prog"]["rels"], scripts=scripts))
        jobs.append(dict(id=c["id"] + "_e", text=c["expanded_text"], macro=c["macro"], rels=c["prog"]["rels"], scripts=scripts))
    groups, meta = [], []
    for c in cases:
        cs = H.infer_counters(c["front"])
        c["counters"] = cs
        ex, inv, R, nd = coq_group(c, cs)
        c["inv"], c["R"], c["n_desugared"] = inv, R, nd
        groups.append(ex)
        meta.append(c)
    for pr in probes:
        jobs.append(pr["job"])
        groups.append(pr["exprs"])

    def build():
        t1 = time.time()
        out = prog.build_and_run(tag, jobs, nbins=min(2 * lib.NCPU, max(1, len(jobs) // 4)), run_timeout=240)
        timing["prog_main"] = round(time.time() - t1, 1)
        if adv_jobs:
            t1 = time.time()
            out.update(prog.build_and_run(tag + "a", adv_jobs, nbins=min(lib.NCPU, len(adv_jobs)), run_timeout=240))
            timing["prog_adversarial"] = round(time.time() - t1, 1)
        # a binary that exceeds its time budget loses the results of all its programs: run those again, one binary each
        again = [j for j in jobs + adv_jobs if any(isinstance(r, dict) and r.get("timeout") for r in out.get(j["id"], []))]
        if again:
            t1 = time.time()
            out.update(prog.build_and_run(tag + "r", again, nbins=min(4 * lib.NCPU, len(again)), run_timeout=240))
            timing["prog_rerun_after_timeout"] = round(time.time() - t1, 1)
            timing["prog_rerun_jobs"] = len(again)
        return out
    with cf.ThreadPoolExecutor(2) as ex:
        fut = ex.submit(build)
        t1 = time.time()
        vals = lib.coq_eval_groups(tag, PRELUDE, groups, timeout=coq_timeout)
        timing["coq"] = round(time.time() - t1, 1)
        impl = fut.result()
    TIMING.update(timing)
    for pr, v in zip(probes, vals[len(meta):]):
        pr["coq"] = v
        pr["impl"] = impl.get(pr["id"])
    for c, v in zip(meta, vals):
        c["coq"] = v
        c["impl_s"] = impl.get(c["id"] + "_s")
        c["impl_e"] = impl.get(c["id"] + "_e")
    return cases


# ------------------------------------------------------------------ comparison

def sets_of(facts, rels):
    g = engine_tie.group_facts(facts, rels)
    return {name: g[name][1] for name, _, _ in rels}


def impl_sets(iv, rels):
    if iv is None or "snaps" not in iv:
        return None
    s = prog.canon_snap(iv["snaps"][-1])
    return {name: s[name][1] for name, _, _ in rels}


def first_diff(a, b, rels):
    for name, _, _ in rels:
        if a[name] != b[name]:
            return "relation %s: missing %s; extra %s" % (name, [t for t in b[name] if t not in a[name]][:5], [t for t in a[name] if t not in b[name]][:5])
    return None


def model_captures(p, drules):
    """does a name generated by Desugar.v coincide with an identifier written in the same (desugared) rule?
    generated names sit at the clause argument positions whose argument the desugaring replaced"""
    k = 0
    for r in p["rules"]:
        for conj in G.disj_product(r["body"]):
            d = drules[k]
            k += 1
            user = set(G.rule_vars(dict(heads=r["heads"], body=conj)))
            gen = set()
            if len(d[2]) != len(conj):
                raise lib.Infra("desugared rule does not align with its source conjunction")
            for it, dit in zip(conj, d[2]):
                if it[0] != "clause":
                    continue
                for a, da in zip(it[2], dit[2]):
                    if a[0] in ("w", "p") or H.n_term(a) != da:
                        if da[0] != "v":
                            raise lib.Infra("replaced argument is not a variable: %r" % (da,))
                        gen.add(da[1][1])
            if gen & user:
                return True
    return False


def compile_defect(c, iv_s, i2, spec):
    """known defect A (regression of the repeated-variable fix 9ade31e): the sugared program does not compile with
    E0277 `&i32 == i32`, the program has a variable bound by a condition attached to an earlier clause that is repeated
    inside a later clause, and the hand expansion compiles and computes the relations of the Coq surface denotation"""
    es = iv_s.get("compile_error", "") if isinstance(iv_s, dict) else ""
    if "E0277" in es and "can't compare `&i32` with `i32`" in es and G.shape_attached_repeat(c["prog"]) and i2 is not None and i2 == spec:
        return KEY_A
    return None


def compare_probe(pr, stats):
    """the answers of the real indices for a key (without / with rows) vs Syntax/NegIndexModel.v index_get"""
    mism = []
    if pr.get("coq") is None:
        raise lib.Infra("index probe %s: no Coq value" % pr["id"])
    for k, rows in enumerate(N.PROBE_ROWS):
        iv = pr["impl"][k] if pr.get("impl") else None
        cs = dict(id=pr["id"], macro=pr["macro"], program=pr["program"], input=dict(f=rows), probe="index_get(&()).is_some() of a_indices_none, index_get(&(%d,)).is_some() of a_indices_0, after run()" % N.PROBE_KEY)
        if not isinstance(iv, dict) or "snaps" not in iv:
            mism.append(dict(case=cs, impl=iv, model=dict(kind=pr["model_kind"]), spec=None, kind="model_differs", known=None,
                             what="index probe (%s) did not run: the index fields / traits named by Syntax/NegIndexModel.v changed? %s" % (pr["packaging"], json.dumps(iv)[:300])))
            break
        s = prog.canon_snap(iv["snaps"][-1])
        got = (s["keyless"][1][0][0], s["keyed"][1][0][0])
        want = tuple(pr["coq"][k])
        stats["index_probe_answers"] += 1
        if got != want:
            mism.append(dict(case=cs, impl=dict(keyless_is_some=got[0], keyed_is_some=got[1]), model=dict(kind=pr["model_kind"], keyless_is_some=want[0], keyed_is_some=want[1]), spec=None,
                             kind="model_differs", known=None,
                             what="Syntax/NegIndexModel.v index_get no longer mirrors the real index (%s, relation a = %s): is_some() of ([] index, [0] index on key %d) = %s, model %s"
                                  % (pr["packaging"], rows, N.PROBE_KEY, got, want)))
    return mism


def note_neg_reads(c, spec_sets, stats):
    """coverage counters: negations evaluated while the negated relation is completely empty / not (per (program, input));
    the contents of the negated relation are those of the specification (it lies in a lower stratum: final = at run time)"""
    kinds = {n: k for n, _, k in c["prog"]["rels"]}
    for it in N.negations(c["prog"]):
        state = "empty" if not spec_sets[it[1]] else "nonempty"
        rk = N.PATH_TO_PROVIDER[kinds[it[1]][1]] if N.is_ds(kinds[it[1]]) else "default"
        stats["negread:%s:%s:%s:%s" % (N.mask_kind(it[2]), rk, c["macro"], state)] += 1


def note_perm(c, inp, spec_sets, stats):
    """coverage counters of family permjoin, per (program, input) pair evaluated on all sides: shape of the join : how the
    first clause's relation got its rows in that run : did the joining rule derive anything (specification's result)"""
    info = c.get("perm_info")
    if not info:
        return
    d = info["d"]
    derived = len(spec_sets[d]) > len(inp.get(d, []))
    how = ("derived+loaded" if inp.get(d) else "derived_only") if derived else ("loaded_only" if inp.get(d) else "empty")
    joined = "join_nonempty" if len(spec_sets["h"]) > len(inp.get("h", [])) else "join_empty"
    stats["permjoin:%s:%s:%s" % (info["kind"], how, joined)] += 1
    if info["kind"] == "full_permuted":
        stats["permorder:%d:%s:%s" % (info["a1"], "".join(str(j) for j in info["perm"]), joined)] += 1


def plan_tie(cases, stats):
    """the planner model (Plan/PlanModel.v compile_model, gen/plan_model.py) against the plan the macro dumped for the programs
    whose cross-clause repeats are served by indices: index COLUMN LISTS are compared as lists (order included)"""
    todo = [c for c in cases if c.get("cross") and c.get("front", {}).get("status") == "ok"]
    if not todo:
        return []
    t1 = time.time()
    ps = {}
    mm = plan_model.check([(c["id"], c["macro"], c["text"]) for c in todo], {c["id"]: c["front"] for c in todo}, stats=ps, tag="c07plan")
    by = {c["id"]: c for c in todo}
    for m in mm:
        c = by[m["case"]["id"]]
        m["case"] = dict(m["case"], macro=c["macro"], prog=c["prog"], inputs=c["inputs"], cross=True)
    stats["plan_model_compared"] += ps.get("evaluations", 0)
    stats["plan_model_untranslatable"] += ps.get("untranslatable", 0)
    TIMING["plan_model"] = round(time.time() - t1, 1)
    return mm


def compare(c, stats):
    """mismatch dicts of one program"""
    mism = []
    p = c["prog"]
    rels = c["spec"]["rels"]          # the Coq sides are compared on every relation,
    obs = c["obs"]                    # the compiled programs on the relations that can be observed (a tagged relation's field is a FakeVec)

    def seen(sets):
        return None if sets is None else {name: sets[name] for name, _, _ in obs}
    base = dict(id=c["id"], macro=c["macro"], program=c["text"], expanded=c["expanded_text"], prog=p, adversarial_names=c.get("adversarial", []))
    if c.get("cross"):
        base["cross"] = True
    if c["spec"] is not p:
        base["specification_program"] = G.program_text(c["spec"])
    v = c["coq"]
    if v is None:
        stats["skipped_coq_timeout"] += 1
        return mism
    wf = v[0]
    stats["wf_true" if wf else "wf_false"] += 1
    front = c["front"]
    status = front.get("status")
    stats["front_" + str(status)] += 1
    nd, core_ok = v[3]
    if nd != c["n_desugared"]:
        raise lib.Infra("expansion count of %s: python %d, Coq %d" % (c["id"], c["n_desugared"], nd))
    S, D, D2 = [], [], []
    for k in range(len(c["inputs"])):
        s, d, d2 = v[4 + k]
        S.append(None if s == "None" else sets_of(engine_tie.decode_facts(s, c["inv"]), rels))
        D.append(None if d == "None" else sets_of(engine_tie.decode_facts(d, c["inv"]), rels))
        D2.append(None if d2 == "None" else sets_of(engine_tie.decode_facts(d2, c["inv"]), rels))
    if any(s is None for s in S):
        stats["skipped_out_of_fuel"] += 1
        return mism
    # the known defect: a generated name coincides with a user identifier (under the initial counter state, or under
    # the state the dumped desugaring started in), or the model's desugared program visibly means something else
    model_capture = any(D[k] != S[k] for k in range(len(S)))
    capture = (wf is False) and (model_captures(p, H.coq_rules(v[2])) or model_captures(p, H.coq_rules(v[1])) or model_capture)
    if capture:
        stats["capture_programs"] += 1
    known = KEY if capture else None
    # ---- the theorem's instance
    if wf:
        if not core_ok:
            mism.append(dict(case=dict(base), impl=None, model="core_of_prog (desugar_prog [] P) = None", spec=None, kind="model_differs", known=None,
                             what="theorem c07_desugar_correct contradicted on a wf program: the desugared program has no core translation"))
        for k, inp in enumerate(c["inputs"]):
            for tag, dd in (("[]", D[k]), ("a non-empty counter state", D2[k] if c["idx"] % 3 == 0 else S[k])):
                if dd != S[k]:
                    mism.append(dict(case=dict(base, input=inp), impl=None, model=dict(desugared=dd, counters=tag), spec=dict(surface=S[k]), kind="model_differs", known=None,
                                     what="theorem c07_desugar_correct contradicted on a wf program (counters %s): %s" % (tag, "out of fuel / no core" if dd is None else first_diff(dd, S[k], rels))))
                    break
    # ---- structure: macro's desugared rules vs Desugar.v
    if "hir_rules" in front:
        try:
            hrules = H.hir_rules(front, c["R"])
            err = None
        except H.Shape as e:
            hrules, err = None, "dumped rule outside the model's language: %s" % e
        if hrules is not None:
            err = H.exact_diff(hrules, H.coq_rules(v[1]))
            if err is None and wf:
                users = set()
                for r in p["rules"]:
                    users |= set(G.rule_vars(r))
                err = H.alpha_diff(hrules, H.coq_rules(v[2]), users)
                if err:
                    err = "up to renumbering, counters []: " + err
            elif err:
                err = "counters %s: %s" % (c["counters"], err)
        if err:
            mism.append(dict(case=dict(base), impl=dict(hir_rules=front["hir_rules"]), model=dict(desugar_prog=v[1]), spec=None, kind="model_differs", known=None,
                             what="Desugar.v no longer mirrors the macro's passes: %s" % err[:600]))
        else:
            stats["structure_compared"] += 1
    elif status == "ok":
        # the driver desugars a second time for the dump, from the counter state the first desugaring left
        why = front.get("plan_err") or front.get("plan_panic")
        if why is None:
            raise lib.Infra("front dump of %s has no hir_rules" % c["id"])
        if wf:
            mism.append(dict(case=dict(base), impl=dict(second_desugaring=why), model=None, spec="a well-formed program desugars from every counter state", kind="impl_violates_spec", known=None,
                             what="the macro accepts the program, but desugaring it again in the same process (other counter state) fails: %s" % why))
        else:
            stats["structure_not_compared_second_desugaring_failed_on_captured_name"] += 1
    # ---- behaviour
    if status != "ok":
        mism.append(dict(case=dict(base, input=c["inputs"][0]), impl=dict(front=status, errors=front.get("errors"), panic=front.get("panic")), model=None, spec=dict(surface=S[0]),
                         kind="impl_violates_spec", known=known,
                         what="the macro %s on a sugared program (%s): %s" % ("panics" if status == "panic" else "rejects", "names inside its generated name space" if not wf else "well-formed", (front.get("panic") or front.get("errors")))))
        return mism
    nforms = sum(1 for f in G.SUGAR_FORMS if c["feats"].get(f))
    for k, inp in enumerate(c["inputs"]):
        cs = dict(base, input=inp)
        i1 = impl_sets(c["impl_s"][k] if c["impl_s"] else None, obs)
        i2 = impl_sets(c["impl_e"][k] if c["impl_e"] else None, obs)
        Sk = seen(S[k])
        note_neg_reads(c, S[k], stats)
        if any(isinstance(r, dict) and r.get("timeout") for r in ((c["impl_s"] or [None] * (k + 1))[k], (c["impl_e"] or [None] * (k + 1))[k])):
            stats["skipped_compiled_program_too_slow"] += 1      # (also after the one-binary-per-program rerun)
            continue
        if i1 is None:
            kd = compile_defect(c, c["impl_s"][k] if c["impl_s"] else None, i2, Sk)
            if kd:
                stats["compile_defect:" + kd] += 1
            mism.append(dict(case=cs, impl=c["impl_s"][k] if c["impl_s"] else None, model=None, spec=dict(surface=S[k]), kind="impl_violates_spec", known=kd or known,
                             what="the sugared program did not produce a result (compile error / panic / timeout): %s" % json.dumps(c["impl_s"][k] if c["impl_s"] else None)[:300]))
            if isinstance(c["impl_s"][k] if c["impl_s"] else None, dict) and "compile_error" in c["impl_s"][k]:
                break          # one report per program that does not compile
            continue
        if i2 is None:
            mism.append(dict(case=cs, impl=c["impl_e"][k] if c["impl_e"] else None, model=None, spec=dict(surface=S[k]), kind="impl_violates_spec", known=None,
                             what="the hand-expanded program did not produce a result (compile error / panic / timeout) while the sugared one did: %s" % json.dumps(c["impl_e"][k] if c["impl_e"] else None)[:300]))
            continue
        stats["evaluations"] += 1
        if nforms >= 2:
            stats["distinct"] += 1
        note_perm(c, inp, S[k], stats)
        B.note(c, inp, S[k], stats)
        if i1 != i2:
            mism.append(dict(case=cs, impl=dict(sugared=i1), model=dict(desugared_model=D[k]), spec=dict(hand_expansion=i2, surface=S[k]), kind="impl_violates_spec", known=known,
                             what="the sugared program and its documented core expansion compute different relations under %s! (%s)" % (c["macro"], first_diff(i1, i2, obs))))
        elif i1 != Sk:
            # sugared = hand expansion (both through the real macro) but not the Coq direct denotation: the independent
            # python oracle says which side is wrong
            try:
                orc = O.evaluate(c["spec"], inp)
            except O.Fuel:
                orc = None
            if orc == S[k]:
                mism.append(dict(case=cs, impl=dict(sugared=i1, hand_expansion=i2), model=dict(desugared_model=D[k]), spec=dict(surface_coq=S[k], python_oracle=orc), kind="impl_violates_spec", known=known,
                                 what="the sugared program (and its hand expansion through the same macro alike) computes relations different from the specification = Coq direct denotation = python oracle, under %s! (%s)" % (c["macro"], first_diff(i1, Sk, obs))))
            else:
                mism.append(dict(case=cs, impl=dict(sugared=i1, hand_expansion=i2), model=dict(surface=S[k]), spec=dict(python_oracle=orc), kind="model_differs", known=None,
                                 what="Surface.v direct denotation disagrees with the macro on both the sugared and the hand-expanded program and with the python oracle (%s)" % first_diff(i1, Sk, obs)))

        if capture and i1 == i2:
            stats["capture_not_manifest_in_rustc_process"] += 1
    return mism


# ------------------------------------------------------------------ tie

def tie(tier, seed, replay):
    if replay:
        r = json.load(open(replay if os.path.isabs(replay) else os.path.join(lib.VERIF, replay)))
        cs = r["case"]
        cases = [dict(id=cs.get("id", "c07_replay"), prog=norm_prog(cs["prog"]), inputs=[cs["input"]] if "input" in cs else cs["inputs"],
                      adversarial=cs.get("adversarial_names", []), macro=cs.get("macro", "ascent"), cross=bool(cs.get("cross")))]
    else:
        cases = load_corpus() + gen_cases(tier, seed)
    probes = [] if replay else N.probes()
    run_cases(cases, coq_timeout=50 if tier == "quick" else 60, probes=probes)
    stats = Counter()
    mism = []
    for pr in probes:
        mism += compare_probe(pr, stats)
    mism += plan_tie(cases, stats)
    feats, progs_with = Counter(), Counter()
    for c in cases:
        mism += compare(c, stats)
        for f, n in c["feats"].items():
            feats[f] += n
            progs_with[f] += 1
        njr = G.count_join_repeat(c["prog"])
        if njr:
            feats["second_clause_repeats_var_of_first"] += njr
            progs_with["second_clause_repeats_var_of_first"] += 1
        for f, n in N.neg_features(c["prog"], c["macro"]).items():
            feats[f] += n
            progs_with[f] += 1
        progs_with["macro:" + c["macro"]] += 1
        if c.get("family"):
            progs_with["family:" + c["family"]] += 1
        for n, a, kd in c["prog"]["rels"]:
            if N.is_ds(kd):
                feats["relation:%s/%d:%s" % (N.PATH_TO_PROVIDER[kd[1]], a, c["macro"])] += 1
            elif a == 0:
                feats["relation:no_columns:%s" % c["macro"]] += 1
        if c.get("adversarial"):
            progs_with["adversarial_names"] += 1
            for nm in c["adversarial"]:
                feats["adversarial:" + (nm if nm in G.NASTY_FIXED else "<var>" + nm[nm.rindex("_"):])] += 1
    samples = [c["text"] for c in cases if not c.get("corpus")][:3] + [c["text"] for c in cases if c.get("adversarial") and not c.get("corpus")][:2]
    samples += ["%s! { %s }" % (c["macro"], c["text"]) for c in cases if c.get("family") == "negfam"][:3]
    samples += [dict(macro=c["macro"], sugared=c["text"], hand_expansion=c["expanded_text"]) for c in cases if c.get("family") == "permjoin"][:3]
    negreads = {k[len("negread:"):]: v for k, v in stats.items() if k.startswith("negread:")}
    permruns = {k: v for k, v in stats.items() if k.startswith(("permjoin:", "permorder:"))}
    bindruns = {k: v for k, v in stats.items() if k.startswith("bindjoin:")}
    samples += [dict(macro=c["macro"], sugared=c["text"], hand_expansion=c["expanded_text"]) for c in cases if c.get("family") == "bindjoin"][:3]
    outcome = {k: v for k, v in stats.items() if not k.startswith(("negread:", "permjoin:", "permorder:", "bindjoin:"))}
    exp_sample = [dict(sugared=c["text"], hand_expansion=c["expanded_text"]) for c in cases if c["feats"].get("disj") and c["feats"].get("repeated_var")][:1]
    return dict(
        evaluations=stats["evaluations"], distinct_nontrivial=stats["distinct"],
        rule="generated sugared programs (relations on levels, negation only downwards; general generator + family negfam + family permjoin; ascent! and ascent_par!; default, column-less and BYODS-tagged relations) x 2-4 input databases; counted: (program, input) pairs on which the sugared program through macro+rustc, its python hand expansion through macro+rustc, and the Coq surface denotation all produced relations (the Coq desugared core program is compared on top, it must agree when wf_surface holds), and whose program uses >= 2 distinct sugar forms among %s" % ", ".join(G.SUGAR_FORMS),
        samples=samples + exp_sample,
        distribution=dict(programs=len(cases), occurrences=dict(feats), programs_using=dict(progs_with), outcome=outcome,
                          cross_clause_joins_evaluated=dict(note="family permjoin, per (program, input) pair that produced relations on all sides. permjoin:(all columns of clause 1 repeated in clause 2 in another order | in the same order | a proper subset):(rows of clause 1's relation in that run: derived_only | derived+loaded | loaded_only | empty):(the joining rule derived a tuple | not); permorder:(arity of clause 1):(order in which clause 2 mentions clause 1's columns):(..)", counts=permruns),
                          bound_before_first_clause_joins_evaluated=dict(note="family bindjoin, per (program, input) pair that produced relations on all sides. bindjoin:(what binds the variable before the first clause):(clause of the following two-clause join that repeats it: first | second | both | none):(the first clause's join index has more keys than the second clause's index = the run-time size test prefers the swapped order | not):(replacing the repeats by fresh variables changes the specification's result on this input = the equality test decides | idle)", counts=bindruns),
                          negations_evaluated=dict(note="(wildcard mask kind):(negated relation: default | provider):(macro):(negated relation empty | nonempty in that run), per (program, input) pair that produced relations on all sides", counts=negreads)),
        mismatches=mism,
        trusted_base=["gen/c07_neg.py spec_program: the explicit closure rules standing for a provider-tagged relation (eqrel: reflexive on mentioned elements + symmetric + transitive; trrel: transitive; trrel_uf: reflexive on mentioned elements + transitive; per key for ternary forms) — the specification C10 / C11 / C12 check the providers against",
                      "Syntax/NegIndexModel.v (code generated for a negated clause over the kinds of index): index_get is tied to the real index types by a probe (6 packagings x 3 relation contents, after run()); the shape of the emitted loop (`into_iter().flatten()` + `not`) is read off ascent_codegen.rs and observed only through the compiled programs",
                      "gen/c07_gen.py: renderers of one AST to Rust text and to Syntax/Surface.v terms, and the hand expansion (a wrong one shows as a false alarm: three independent sides are compared)",
                      "gen/c07_perm.py expand_program_cross (family permjoin): the hand expansion of a variable bound by an earlier body item = fresh variable + attached equality test (checked like the rest of the hand expansion: against the Coq denotation and the python oracle)",
                      "gen/c07_hir.py: translation of the FRONT dump's desugared rules into Show.v trees (token strings matched against the vocabulary templates of gen/dl.py)",
                      "coq/Syntax/C07Vocab.v vs the Rust patterns / expression templates of the vocabulary",
                      "FRONT hook (ascent_macro/src/verif_hook.rs) dumps what desugar_ascent_program returned; generated crates compiled by rustc against the working tree"],
        assumptions=["the vocabulary keeps all values inside i32; column type i32 only",
                     "the process-wide counters of fresh_ident are read off the dump (first generated name per stem); rustc processes compile several programs, so which numbered name a user identifier would collide with is not controlled except for the per-rule supplies (__N, __arg_pattern_N) and for stems unique to one program"],
        extra=dict(known_finding_key=KEY, phase_wall_s=dict(TIMING)))
