"""C03 — lattice relations hold one row per key carrying the least fixed point.

Three ways on the same generated lattice programs and inputs:
  implementation  the real macro + rustc (gen.prog), rows decoded from their `{:?}` output
  model           coq/LatEngine/LatEval.v run_plan on the plan dumped by the real front end (vm_compute)
  specification   python oracle: Kleene iteration of the one-step consequence operator with joins
The lattice column types are the shipped ones: scalars / sets (gen/c03_vocab.py part 1, LatEngine/LatVocab.v) and COMPOSITE values -
Product over arrays and tuples, and Dual / Option / Rc / Box / Reverse around them (c03_vocab.COMPOSITE, LatEngine/LatVocabArr.v, whose
join_mut is C16's model `jm (denote t)`) - in programs where a single join_mut has to move several components at once; and the
LEXICOGRAPHIC tuple lattices of tuple.rs with Dual / Reverse / Option components at every position, nested, under Dual / Option /
OrdLattice (c03_lex.LEX, gen/c03_lexgen.py, LatEngine/LatVocabLex.v): the lattice code that decides through Ord::cmp.
"""
import json
import os

from .. import c03_gen as g
from .. import c03_lexgen as lg
from .. import c03_vocab as voc
from .. import dl, lib, prog

PROP = "C03"
PROP_FILE = "Props/C03.v"
FUEL = 300

PRELUDE = ("From Coq Require Import List ZArith Bool.\n"
           "From AV Require Import Engine.Core Engine.Eval Engine.Validate.\n"
           "From AV Require Import LatEngine.LatSyntax LatEngine.LatEval LatEngine.LatPlan LatEngine.LatVocab.\n"
           "From AV Require Import LatEngine.LatVocabArr.\n"
           "From AV Require Import LatEngine.LatVocabLex.\n"
           "Import ListNotations.\nOpen Scope Z_scope.\n")


# ------------------------------------------------------------------ cases

def gen_cases(tier, seed):
    rng = lib.rng_for(seed, PROP)
    n = 56 if tier == "quick" else 760
    ninp = 3 if tier == "quick" else 4
    cases = []
    for i in range(n):
        # the first programs use only the two best-exercised lattice types
        types = ["max", "dual"] if i % 4 == 0 else None
        p = g.gen_program(rng, types)
        inputs, styles = [], []
        for _ in range(ninp):
            inp, st = g.gen_input(rng, p)
            inputs.append(inp)
            styles.append(st)
        cases.append(dict(id="c03_%d" % i, prog=p, inputs=inputs, styles=styles))
    # composite lattice columns (Product over arrays / tuples, and Dual / Option / Rc / Box / Reverse around them): every
    # composite type in turn, inputs in which the values of a key arrive in random / rising / falling order
    rng2 = lib.rng_for(seed, PROP + "/composite")
    tys = list(voc.COMPOSITE)
    m = 30 if tier == "quick" else 300
    for i in range(m):
        p = g.composite_program(rng2, ty=tys[i % len(tys)])
        inputs, styles = [], []
        for _ in range(ninp):
            inp, st = g.composite_input(rng2, p)
            inputs.append(inp)
            styles.append(st)
        cases.append(dict(id="c03_comp_%d" % i, prog=p, inputs=inputs, styles=styles))
    # lexicographic tuple lattices (std tuples with Dual / Reverse / Option components at every position, nested, under Dual /
    # Option / OrdLattice: c03_lex.LEX): every type in turn, a key receives several different values that tie in their leading
    # components or not
    rng3 = lib.rng_for(seed, PROP + "/lex")
    tys = list(voc.LEX)
    m = 3 * len(tys) if tier == "quick" else 30 * len(tys)
    for i in range(m):
        p = lg.lex_program(rng3, ty=tys[i % len(tys)])
        inputs, styles = [], []
        for _ in range(ninp):
            inp, st = lg.lex_input(rng3, p)
            inputs.append(inp)
            styles.append(st)
        cases.append(dict(id="c03_lex_%d" % i, prog=p, inputs=inputs, styles=styles))
    return cases


def probes():
    """fixed cases run on every check"""
    V, C, F = g.V, g.C, g.F
    # Product<(u32, Dual<u32>)> as the column type of a lattice relation: must compile and agree (did not compile before
    # /repo commit e3cb597, known_findings.json product_lattice_column_not_hash, status fixed)
    prod = dict(rels=[("e", 3, "rel"), ("next", 2, "rel"), ("p", 2, ("lat", "prod"))],
                rules=[dict(heads=[("p", [V("x"), F("prod_of", "a", "b")])], body=[("clause", "e", [V("x"), V("a"), V("b")], [])]),
                       dict(heads=[("p", [V("y"), F("prod_id", "l")])], body=[("clause", "next", [V("x"), V("y")], []), ("clause", "p", [V("x"), V("l")], [])])],
                shape="probe_product")
    inp = {"e": [(0, 1, 5), (0, 3, 7), (1, 2, 2), (2, 0, 9)], "next": [(0, 1), (1, 2), (2, 0)]}
    return [dict(id="probe_product", prog=prod, inputs=[inp], styles=["probe"])]


def _tt(t):
    return tuple(list(x) if isinstance(x, list) else x for x in t)


def _item(it):
    if it[0] == "clause":
        return ("clause", it[1], [_tt(t) for t in it[2]], [_tt(c) for c in it[3]])
    if it[0] == "cond":
        return ("cond", _tt(it[1]))
    return _tt(it)


def case_from_json(c, cid):
    p = c["prog"]
    rels = [(r[0], r[1], tuple(r[2]) if isinstance(r[2], list) else r[2]) for r in p["rels"]]
    rules = [dict(heads=[(h[0], [_tt(t) for t in h[1]]) for h in r["heads"]], body=[_item(it) for it in r["body"]]) for r in p["rules"]]
    prog_ = dict(rels=rels, rules=rules, shape=p.get("shape", "corpus"), sugar=p.get("sugar", False))
    inputs = [{r: [tuple(t) for t in ts] for r, ts in inp.items()} for inp in c["inputs"]]
    return dict(id=cid, prog=prog_, inputs=inputs, styles=["corpus"] * len(inputs))


def load_corpus():
    path = os.path.join(lib.VERIF, "corpus", PROP + ".jsonl")
    out = []
    if os.path.exists(path):
        for k, l in enumerate(open(path)):
            if l.strip() and "family" not in json.loads(l):
                out.append(case_from_json(json.loads(l), "corpus_%d" % k))
    return out


def load_contention_corpus():
    """corpus lines of the CONTENTION family (gen/par_contention.py): generator parameters of big parallel runs, run on every check"""
    path = os.path.join(lib.VERIF, "corpus", PROP + ".jsonl")
    out = []
    if os.path.exists(path):
        for k, l in enumerate(open(path)):
            if l.strip() and json.loads(l).get("family") == "par_contention":
                out.append(dict(json.loads(l), id="corpus_cont_%d" % k))
    return out


# ------------------------------------------------------------------ model expressions

def model_exprs(p, dump, inputs):
    R = dl.Names()
    for name, _, _ in p["rels"]:
        R(name)
    plan = g.coq_plan(p, dump, R)
    rules = dl.coq_list(g.coq_rule(r, R) for r in p["rules"])
    arities = dl.coq_list("(%s, %s)" % (dl.cnat(R(n)), dl.cnat(a)) for n, a, _ in p["rels"])
    lats = dl.coq_list("(%s, %s)" % (dl.cnat(R(n)), dl.cnat(voc.LTYPES[k[1]][0])) for n, a, k in p["rels"] if k != "rel")
    relnums = dl.cnats(R(n) for n, _, _ in p["rels"])
    exprs = ["(validate %s %s %s && lat_plan_ok (lv_islat %s) %s %s)" % (arities, rules, plan, lats, arities, plan)]
    for inp in inputs:
        exprs.append("option_map (fun st => lv_show %s (l_rows st)) (run_plan lv3_interp (lv_islat %s) (lv3_jm %s) lv_shuffle lv_swap %d%%nat %s %s)"
                     % (relnums, lats, lats, FUEL, plan, g.coq_db(p, inp, R)))
    inv = {v: k for k, v in R.d.items()}
    return exprs, inv


def decode_model(v, inv):
    if v == "None":
        return None
    assert v[0] == "Some", v
    return {inv[r]: [tuple(t) for t in rows] for (r, rows) in v[1]}


# ------------------------------------------------------------------ run

def run_cases(cases, tag="c03", coq_timeout=60):
    texts = {c["id"]: g.rust_program_text(c["prog"]) for c in cases}
    dumps = prog.front_run([(c["id"], "ascent", texts[c["id"]]) for c in cases])
    jobs = []
    for c in cases:
        scripts = [[("set", g.rust_input(c["prog"], inp)), ("run",), ("snap",)] for inp in c["inputs"]]
        jobs.append(dict(id=c["id"], text=texts[c["id"]], macro="ascent", rels=c["prog"]["rels"], scripts=scripts))
    impl = prog.build_and_run(tag, jobs)
    # a generated binary runs the scripts of several programs one after the other, so a run that does not terminate takes every later
    # one with it: each (program, input) left without a result by a timeout is run again in a binary of its own, and only the runs
    # that still do not finish there are reported (the oracle converges on every generated input: non-termination is a failing input)
    iso = [(c, k) for c in cases for k, r_ in enumerate(impl.get(c["id"]) or []) if isinstance(r_, dict) and r_.get("timeout")]
    if iso:
        ijobs = [dict(id="%s__i%d" % (c["id"], k), text=texts[c["id"]], macro="ascent", rels=c["prog"]["rels"],
                      scripts=[[("set", g.rust_input(c["prog"], c["inputs"][k])), ("run",), ("snap",)]]) for c, k in iso]
        again = prog.build_and_run(tag + "_iso", ijobs, nbins=len(ijobs), run_timeout=20)
        for (c, k), j in zip(iso, ijobs):
            if again.get(j["id"]):
                impl[c["id"]] = list(impl[c["id"]])
                impl[c["id"]][k] = again[j["id"]][0]
    groups, gids, invs, plan_errors = [], [], {}, {}
    for c in cases:
        d = dumps.get(c["id"])
        if d is None or d.get("status") != "ok" or "sccs" not in d:
            continue
        try:
            ex, inv = model_exprs(c["prog"], d, c["inputs"])
        except g.PlanMismatch as e:
            plan_errors[c["id"]] = str(e)
            continue
        invs[c["id"]] = inv
        groups.append(ex)
        gids.append(c["id"])
    vals = lib.coq_eval_groups(tag, PRELUDE, groups, timeout=coq_timeout)
    byid = dict(zip(gids, vals))
    out = []
    for c in cases:
        d = dumps.get(c["id"], {})
        r = dict(case=c, text=texts[c["id"]], front=d, impl=impl.get(c["id"]), plan_error=plan_errors.get(c["id"]),
                 valid=None, model=None, skipped=(c["id"] in byid and byid[c["id"]] is None), spec=[])
        v = byid.get(c["id"])
        if v:
            r["valid"] = v[0]
            r["model"] = [decode_model(x, invs[c["id"]]) for x in v[1:]]
        orc = g.Oracle(c["prog"])
        r["raised"], r["rounds"], r["multi"], r["lexkeys"] = [], [], [], []
        lex_rels = {n for n, ty in g.lat_of(c["prog"]).items() if ty in voc.LEX}
        for inp in c["inputs"]:
            st = orc.run(inp)
            r["spec"].append(None if st is None else g.canon_state(c["prog"], st))
            r["raised"].append(max(orc.raised.values()) if orc.raised else 0)
            r["rounds"].append(orc.rounds)
            r["multi"].append(orc.multi)
            r["lexkeys"].append(sum(1 for (rel, _k), n in orc.raised.items() if rel in lex_rels and n >= 1))
        out.append(r)
    return out


def compare(r):
    mism = []
    c = r["case"]
    p = c["prog"]
    lats = g.lat_of(p)
    base = dict(program=r["text"], id=c["id"], prog=p)
    d = r["front"]
    if d.get("status") != "ok":
        mism.append(dict(case=dict(base), impl=dict(front=d.get("status"), errors=d.get("errors")), model=None, spec="well-formed monotone lattice program: must compile",
                         kind="impl_violates_spec", known=None, what="front end rejects / panics on a generated lattice program: %s %s" % (d.get("status"), d.get("errors"))))
        return mism
    for rel in d.get("relations", []):
        if rel["lattice"] != (rel["name"] in lats):
            raise lib.Infra("FRONT dump and program disagree on which relations are lattices: %s" % rel["name"])
    if r["plan_error"]:
        raise lib.Infra("cannot pair the dumped plan of %s with the source rules: %s\n%s" % (c["id"], r["plan_error"], r["text"]))
    if r["skipped"]:
        return mism
    for k, inp in enumerate(c["inputs"]):
        cs = dict(base, inputs=[inp])
        iv = r["impl"][k] if r["impl"] else None
        if iv is None or "snaps" not in iv:
            msg = json.dumps(iv)
            mism.append(dict(case=cs, impl=iv, model=None, spec=None, kind="impl_violates_spec", known=None,
                             what="implementation did not produce a result (compile error / panic / timeout): %s" % msg[:400]))
            continue
        spec = r["spec"][k]
        if spec is None:
            raise lib.Infra("specification oracle did not converge on %s" % c["id"])
        rows = g.decode_snapshot(p, iv["snaps"][-1])
        bad = None
        for name, arity, kind in p["rels"]:
            got = rows[name]
            if name in lats:
                keys = [t[:-1] for t in got]
                if len(keys) != len(set(keys)):
                    bad = "lattice %s holds %d rows for %d keys (several rows per key): %s" % (name, len(got), len(set(keys)), sorted(got)[:8])
                    break
            if sorted(set(got)) != spec[name]:
                miss = [t for t in spec[name] if t not in got]
                extra = [t for t in got if t not in spec[name]]
                bad = "relation %s after run(): least fixed point has %s which the result lacks; the result has %s which is not in the least fixed point" % (name, miss[:5], extra[:5])
                break
            if name not in lats and len(got) != len(set(got)):
                bad = "relation %s holds duplicate rows" % name
                break
        if bad:
            mism.append(dict(case=cs, impl={n: sorted(v) for n, v in rows.items()}, model=None, spec=spec, kind="impl_violates_spec", known=None, what=bad))
            continue
        model = r["model"][k] if r["model"] else None
        if model is None:
            mism.append(dict(case=cs, impl="agrees with the least fixed point", model="out of fuel / not evaluated", spec=None, kind="model_differs", known=None,
                             what="correspondence LatEngine/LatEval.v run_plan vs generated code: the model did not terminate"))
            continue
        for name, _, _ in p["rels"]:
            if sorted(model[name]) != sorted(rows[name]):
                mism.append(dict(case=cs, impl={name: sorted(rows[name])}, model={name: sorted(model[name])}, spec="implementation agrees with the least fixed point",
                                 kind="model_differs", known=None, what="correspondence LatEngine/LatEval.v run_plan vs generated code (relation %s: rows as a multiset)" % name))
                break
    if r["valid"] is not True:
        mism.append(dict(case=dict(base), impl="plan computed by the macro", model="validate && lat_plan_ok = %s" % r["valid"], spec=None, kind="model_differs", known=None,
                         what="the plan dumped from the macro is rejected by Engine/Validate.v validate or LatEngine/LatPlan.v lat_plan_ok: the C03 theorems no longer apply to this program"))
    return mism


def vocabulary_checks():
    bad = voc.selfcheck()
    if bad:
        raise lib.Infra("c03 vocabulary is not monotone / not a lattice on its sample domain: %s" % bad[:5])
    exprs, want = voc.coq_table()
    got = lib.coq_eval("c03voc", PRELUDE, exprs, per_shard=600)
    n = 0
    for e, w, g_ in zip(exprs, want, got):
        if isinstance(w, tuple):
            g_ = (g_[0], g_[1])
        elif isinstance(w, list):
            g_ = list(g_)
        if g_ != w:
            raise lib.Infra("coq/LatEngine/LatVocab.v and gen/c03_vocab.py disagree: %s = %r (Coq) vs %r (python)" % (e, g_, w))
        n += 1
    return n


def contention_replay(rp):
    """replay of a mismatch of the CONTENTION family: the same generated input in the same pool, several rounds"""
    from .. import par_contention
    r = par_contention.replay(rp["case"])
    return dict(evaluations=r["evaluations"], distinct_nontrivial=r["distinct"], rule="replay of a big ascent_par! run (gen/par_contention.py): 8 rounds (+ 4 perturbed)",
                samples=[], distribution=r["distribution"], mismatches=r["mismatches"], trusted_base=[], assumptions=[], extra={})


def tie(tier, seed, replay):
    if replay and json.load(open(replay)).get("case", {}).get("family") == "par_contention":
        return contention_replay(json.load(open(replay)))
    nvoc = vocabulary_checks()
    # CONTENTION family first (the machine is quietest now): few BIG ascent_par! lattice / relation runs judged by the python specification
    contention = None
    if not replay:
        from .. import par_contention
        contention = par_contention.run(tier, seed, tag="c03", extra_cases=load_contention_corpus())
    if replay:
        rp = json.load(open(replay))
        cases = [case_from_json(dict(prog=rp["case"]["prog"], inputs=rp["case"]["inputs"]), "replay_0")]
    else:
        cases = probes() + load_corpus() + gen_cases(tier, seed)
    results = []
    chunk = 128
    for i in range(0, len(cases), chunk):
        results += run_cases(cases[i:i + chunk])
    mism, feats, shapes, styles, distinct = [], {}, {}, {}, set()
    raised_hist, rounds_hist = {}, {}
    multi_runs, multi_joins, multi_by_type = 0, 0, {}
    lex_runs, lex_keys, lex_by_type = 0, 0, {}
    nskipped = sum(1 for r in results if r["skipped"])
    nontriv = 0
    for r in results:
        mism += compare(r)
        if r["skipped"]:
            continue
        p = r["case"]["prog"]
        for f in g.features(p):
            feats[f] = feats.get(f, 0) + 1
        shapes[p.get("shape", "corpus")] = shapes.get(p.get("shape", "corpus"), 0) + 1
        lats = g.lat_of(p)
        looping = any(sc["looping"] and any(rn in lats for rn in sc["dynamic"]) for sc in r["front"].get("sccs", []))
        for k, inp in enumerate(r["case"]["inputs"]):
            st = r["case"]["styles"][k]
            styles[st] = styles.get(st, 0) + 1
            b = min(r["raised"][k], 12)
            raised_hist[b] = raised_hist.get(b, 0) + 1
            b = min(r["rounds"][k], 14)
            rounds_hist[b] = rounds_hist.get(b, 0) + 1
            if r["multi"][k]:
                multi_runs += 1
                multi_joins += r["multi"][k]
                for ty in set(lats.values()) & set(voc.COMPOSITE):
                    multi_by_type[ty] = multi_by_type.get(ty, 0) + 1
            if r["lexkeys"][k]:
                lex_runs += 1
                lex_keys += r["lexkeys"][k]
                for ty in set(lats.values()) & set(voc.LEX):
                    lex_by_type[ty] = lex_by_type.get(ty, 0) + 1
            spec = r["spec"][k]
            derived = spec is not None and any(len(spec[n]) > len(inp.get(n, [])) or sorted(spec[n]) != sorted(map(tuple, inp.get(n, []))) for n in lats)
            if looping and derived:
                nontriv += 1
                distinct.add((r["front"].get("summary"), json.dumps(inp, sort_keys=True)))
    ok = [r for r in results if not r["skipped"]]
    sample = []
    for r in ok[:3]:
        s = dict(program=r["text"], summary=r["front"].get("summary"), input=r["case"]["inputs"][0])
        if r["impl"] and "snaps" in r["impl"][0]:
            s["impl"] = {k: v[:6] for k, v in g.decode_snapshot(r["case"]["prog"], r["impl"][0]["snaps"][-1]).items()}
        sample.append(s)
    # the per-index lattice engine (LatEngine/LatIndexedEval.v) against the REAL index fields of lattice programs after run()
    latidx = None
    if not replay:
        from .. import lat_indexed_tie
        latidx = lat_indexed_tie.run_tie(tier, seed) if hasattr(lat_indexed_tie, "run_tie") else lat_indexed_tie.run(tier, seed)
        mism += latidx.pop("mismatches")
    # the planner model on lattice programs (Plan/PlanLat*.v: c03_planner_*): model plan = dumped plan, hypotheses evaluated in Coq
    planlat = None
    if not replay:
        from .. import plan_lat
        planlat = plan_lat.run(tier, seed)
        mism += planlat.pop("mismatches")
        planlat = {k: v for k, v in planlat.items() if not k.startswith("_")}
    cont_ev = cont_di = 0
    if contention:
        mism += contention["mismatches"]
        cont_ev, cont_di = contention["evaluations"], contention["distinct"]
    return dict(evaluations=sum(len(r["case"]["inputs"]) for r in ok) + cont_ev, distinct_nontrivial=len(distinct) + cont_di,
                rule="lattice programs (shortest / widest path, reachability sets, constant propagation, random monotone programs over u32-max, Dual<u32>, Option<u32>, bool, (u32,u32), Set<u32>, BoundedSet<2,u32>, ConstPropagation<u32>; arities 1-3; component-wise maxima / lock-step recursion / paths / non-linear merges / random monotone programs over the composite columns Product<[u32;2]>, Product<[u32;3]>, Dual<Product<[u32;2]>>, Option<Product<[u32;2]>>, Product<[Dual<u32>;2]>, Product<(u32,Dual<u32>,u32)>, Product<(u32,Dual<u32>)>, Rc / Box / Reverse<Product<[u32;2]>> with the values of a key arriving in random / rising / falling order; best-of / lock-step / cost-then-witness paths / non-linear merges / random monotone programs over the LEXICOGRAPHIC tuple columns (Dual<u32>,u32), (u32,Dual<u32>), (Dual<u32>,Dual<u32>), (u32,Dual<u32>,u32), (Dual<u32>,u32,Dual<u32>), (Reverse<u32>,u32), (Option<u32>,Dual<u32>), Dual<(u32,u32)>, Option<(Dual<u32>,u32)>, ((Dual<u32>,u32),u32), OrdLattice<(Dual<u32>,u32)> with component values from a small domain so that the values of a key tie in their leading components or not, upward-closed tests written with the >= / > operators of the real type) x 3-4 inputs (incl. graphs on which one key is improved up to 12 times over as many iterations, lattice-typed input rows); non-trivial = a lattice relation is dynamic in a looping SCC and the run changes a lattice relation; distinct = distinct (plan summary, input); PLUS the contention family (gen/par_contention.py): 5 fixed ascent_par! programs (max / Dual with a 2-column key under inter-rule parallelism / cheapest path recursive through the lattice / Set and Product partial orders / plain projections and a join) on 10^4-10^5 keys each derived 3-16 times in one iteration, pools of 4-16 threads, 6 rounds per big input (12 thorough) + small inputs under seeded perturbation, oracle = one row per key holding the least upper bound computed by python from the input rows; every completed round counts as one evaluation",
                samples=sample, distribution=dict(programs=len(ok), shapes=shapes, features=feats, input_styles=styles, recursive_changing_runs=nontriv,
                                                   most_raised_key_times=dict(sorted(raised_hist.items())), naive_rounds=dict(sorted(rounds_hist.items())),
                                                   runs_with_a_join_moving_2plus_components=multi_runs, joins_moving_2plus_components=multi_joins,
                                                   runs_with_such_a_join_by_composite_type=dict(sorted(multi_by_type.items())),
                                                   runs_in_which_a_key_of_a_lexicographic_tuple_column_is_raised=lex_runs, such_keys=lex_keys,
                                                   such_runs_by_lexicographic_type=dict(sorted(lex_by_type.items()))),
                mismatches=mism,
                trusted_base=["FRONT hook (ascent_macro/src/verif_hook.rs) printing the MIR plan; gen/c03_gen.py pairing the dumped plan with the source rules (core-form programs: checked by shape) and rendering Rust / Coq; gen/prog.py generated crates",
                              "gen/c03_vocab.py: the coding of lattice values as integers and the monotone vocabulary, written three times (Rust templates, coq/LatEngine/LatVocab.v + LatVocabArr.v + LatVocabLex.v, python); a disagreement between them shows up as a mismatch; join_mut of the composite and of the lexicographic tuple types is not rewritten in the vocabulary: it is Lattice/LatModel.v `jm (denote t)` (the C16 model) transported to codes",
                              "code generation from MIR to Rust (ascent_codegen.rs) is modelled by hand in LatEngine/LatEval.v and tied by these runs, not verified",
                              "rustc, hashbrown / std collections meet their documented semantics",
                              "contention family: harness/par_contention (fixed ascent_par! programs, a pure driver: binary input rows in, rows of every relation out, nothing checked there); the schedules of the real binary are SAMPLED (a handful of rounds per input), never enumerated: a violation that needs a rarer interleaving than ~1 in 10 rounds of 10^5 keys can be missed; Engine/ParLatLookup.v states what the parallel head update needs from the key-index lookup (the re-check under the key mutex must be reliable), the real DashMap is not modelled"],
                assumptions=["lattice laws of the shipped lattice types: property C16", "generated programs are monotone by construction (vocabulary of monotone operations and upward-closed tests)",
                             "inputs hold at most one row per key of a lattice relation", "values stay far inside u32 / i32",
                             "hash-map iteration order: the model uses a fixed (alternating) order; the compared observables are order-independent by the C03 theorems"],
                extra=dict(contention_family=(contention or {}).get("distribution"), planner_model_on_lattice_programs=planlat, vocabulary_rows_checked_coq_vs_python=nvoc, cases_skipped_model_too_slow=nskipped, programs=len(ok), plans_validated=sum(1 for r in ok if r["valid"] is True)))
