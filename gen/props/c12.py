"""C12 — a relation tagged #[ds(trrel_uf)] behaves as its reflexive transitive closure.

DS half  : operation histories on the real provider (binary TrRelIndCommon<u32>, ternary BinRelToTernaryWrapper with and
           without reverse maps) vs the Coq model Byods/TrUfProvModel.v vs a python oracle (explicit closure + provider laws).
PROG half: programs with the tagged relation vs the same programs with a plain relation and explicit closure rules;
           expected = specification oracle on the explicit program."""
import json
import os
import time

from .. import c12_ds as ds
from .. import c12_prog as cp
from .. import lib

PROP = "C12"
PROP_FILE = "Props/C12.v"

KNOWN_DS = ("new_reflexive_not_in_delta", "ternary_resume_assert", "ternary_reverse_map_views",
            "ternary_len_estimate_div_by_zero", "ternary_dropped_delta_unwrap")


def gen_ds_cases(tier, seed):
    rng = lib.rng_for(seed, PROP, "ds")
    cases = []
    if tier == "quick":
        cases += ds.exhaustive_small("bin", 4, 4)          # 5^4 = 625
        cases += ds.exhaustive_small("ter", 8, 3)          # 9^3 = 729
        n = 3000 - len(cases)
    else:
        cases += ds.exhaustive_small("bin", 4, 6)          # 15625
        cases += ds.exhaustive_small("ter", 8, 4)          # 6561
        cases += ds.exhaustive_small("ter0", 8, 4)         # 6561
        n = 60000 - len(cases)
    for i in range(n):
        cases.append(ds.gen_history(rng, ["bin", "bin", "ter", "ter", "ter0"][i % 5]))
    for c in cases:
        c["kind"] = "ds"
    return cases


def gen_prog_cases(tier, seed):
    rng = lib.rng_for(seed, PROP, "prog")
    n, nin = (30, 3) if tier == "quick" else (300, 4)
    cases = []
    for i in range(n):
        p = cp.gen_program(rng, tern=(i % 2 == 1))
        cases.append(dict(kind="prog", id="c12p%d" % i, p=p, inputs=[cp.gen_input(rng, p) for _ in range(nin)]))
    return cases


def load_corpus():
    path = os.path.join(lib.VERIF, "corpus", "C12.jsonl")
    out = []
    if os.path.exists(path):
        for l in open(path):
            if l.strip():
                c = json.loads(l)
                c["src"] = "corpus"
                out.append(c)
    return out


# ------------------------------------------------------------------ DS

def ds_shrink(binary, c, law, known):
    """drop insert operations one at a time while a violation of the same law and class persists; then cut the tail"""
    def bad(cand):
        obs = ds.run_impl(binary, [cand])[0]
        return [v for v in ds.spec_check(cand, obs) if v["law"] == law and v["known"] == known]
    ops = list(c["ops"])
    changed = True
    rounds = 0
    while changed and rounds < 60:
        changed = False
        rounds += 1
        for j in range(len(ops)):
            if ops[j][0] not in ("i", "h"):
                continue
            cand = dict(c, ops=ops[:j] + ops[j + 1:])
            if bad(cand):
                ops = cand["ops"]
                changed = True
                break
    small = dict(c, ops=ops)
    vs = bad(small)
    if vs:
        small = dict(small, ops=ops[:vs[0]["op"] + 1])
    return small


def tie_ds(binary, cases, mism, stats):
    impl = ds.run_impl(binary, cases)
    model = ds.run_model(cases, "C12", mode="fp")
    known_kept = {}
    nontrivial = set()
    for c, obs, mfp in zip(cases, impl, model):
        stats["ds_histories"] += 1
        stats["ds_ops"] += len(obs)
        key = "ds/%s/%s" % (c["suite"], c.get("src") or c.get("style", "replay"))
        stats["dist"][key] = stats["dist"].get(key, 0) + 1
        reads = [r for r in obs if r[0] == "read"]
        stats["ds_reads"] += len(reads)
        if any(r[1]["d"][0][0] and r[1]["t"][0][0] for r in reads):
            nontrivial.add(ds.case_line(c) + c["suite"])
        if not ds.fp_agree(ds.impl_fp(c, obs), mfp):
            full = ds.run_model([c], "C12f")[0]
            d = ds.model_diff(c, obs, full) or (0, "fingerprints differ but the complete observations agree (fingerprint code out of step)")
            if len([m for m in mism if m["kind"] == "model_differs"]) < 6:
                cut = dict(c, ops=c["ops"][:d[0] + 1])
                mism.append(dict(case=cut, impl=str(obs[d[0]])[:1500] if d[0] < len(obs) else None, model=str(full[d[0]])[:1500] if d[0] < len(full) else None,
                                 spec=None, kind="model_differs", known=None,
                                 what="correspondence Byods/TrUfProvModel.v vs the %s provider: %s; history %s" % (c["suite"], d[1], ds.case_line(cut))))
        seen = set()
        for v in ds.spec_check(c, obs):
            cls = (v["law"], v["known"])
            if cls in seen:
                continue
            seen.add(cls)
            stats["ds_violations"][str(cls)] = stats["ds_violations"].get(str(cls), 0) + 1
            if v["known"]:
                # keep the shortest witness of every known class (the runner needs one to print KNOWN-FINDING)
                old = known_kept.get((v["known"], v["law"]))
                if old is None or len(c["ops"]) < len(old[0]["ops"]):
                    known_kept[(v["known"], v["law"])] = (c, v, obs)
            elif len([m for m in mism if m["kind"] == "impl_violates_spec" and m["known"] is None]) < 40:
                nshrunk = len([m for m in mism if m.get("shrunk")])
                small = ds_shrink(binary, c, v["law"], None) if nshrunk < 4 else dict(c, ops=c["ops"][:v["op"] + 1])
                sobs = ds.run_impl(binary, [small])[0]
                sv = [x for x in ds.spec_check(small, sobs) if x["law"] == v["law"] and x["known"] is None]
                sv = sv[0] if sv else v
                mism.append(dict(case=small, impl=str(sobs[sv["op"]])[:1500] if sv["op"] < len(sobs) else None, model=None, shrunk=True,
                                 spec="law %s: %s" % (sv["law"], sv["what"]), kind="impl_violates_spec", known=None,
                                 what="%s provider, history %s: law %s violated: %s" % (small["suite"], ds.case_line(small), sv["law"], sv["what"])))
    for (k, law), (c, v, obs) in sorted(known_kept.items()):
        cut = dict(c, ops=c["ops"][:v["op"] + 1])
        mism.append(dict(case=cut, impl=str(obs[v["op"]])[:800], model=None, spec="law %s: %s" % (law, v["what"]),
                         kind="impl_violates_spec", known=k,
                         what="%s provider, history %s: law %s violated: %s" % (c["suite"], ds.case_line(cut), law, v["what"])))
    stats["ds_nontrivial"] |= nontrivial


# ------------------------------------------------------------------ PROG

def prog_mismatches(r, mism, stats):
    c = r["case"]
    p = c["p"]
    for j, inp in enumerate(c["inputs"]):
        stats["prog_runs"] += 1
        spec = r["spec"][j]
        ex = cp.snap_sets(r["explicit"][j] if r["explicit"] else None)
        tg = cp.snap_sets(r["tagged"][j] if r["tagged"] else None)
        case = dict(kind="prog", id=c["id"], p=p, inputs=[inp])
        if isinstance(ex, tuple):
            mism.append(dict(case=case, impl=ex, model=None, spec=None, kind="model_differs", known=None,
                             what="the explicit program (plain relation + closure rules) did not run: %s; program:\n%s" % (ex, r["text"])))
        else:
            for rel, (ts, n) in ex.items():
                if ts != spec.get(rel, set()) or n != len(ts):
                    mism.append(dict(case=case, impl=sorted(ts), model=None, spec=sorted(spec.get(rel, set())), kind="model_differs", known=None,
                                     what="the explicit program through the real macro disagrees with the specification oracle on %s (a C01 matter, reported here because the comparison rests on it)" % rel))
                    break
        if spec.get("tr") or any(spec.get(n) for n, _ in p["rels_out"]):
            stats["prog_nontrivial"].add(r["text"] + json.dumps(inp, sort_keys=True))
        if isinstance(tg, tuple):
            kind = "panic" if tg[0] == "panic" else "error"
            k = cp.classify(p, inp, kind, tg[1]) if kind == "panic" else None
            stats["prog_outcomes"][str((kind, k))] = stats["prog_outcomes"].get(str((kind, k)), 0) + 1
            mism.append(dict(case=case, impl=tg, model=None, spec={n: sorted(spec.get(n, set())) for n, _ in p["rels_out"]},
                             kind="impl_violates_spec", known=k,
                             what="program with #[ds(trrel_uf)] %s: %s; program:\n%s\ninput %s" % ("panics" if kind == "panic" else "did not run", tg[1][:300], r["text"], json.dumps(inp, sort_keys=True))))
            continue
        got = {rel: ts for rel, (ts, n) in tg.items()}
        dup = [rel for rel, (ts, n) in tg.items() if n != len(ts)]
        bad = [rel for rel in got if got[rel] != spec.get(rel, set())]
        if not bad and not dup:
            stats["prog_outcomes"]["ok"] = stats["prog_outcomes"].get("ok", 0) + 1
            continue
        k = cp.classify(p, inp, "diff", got=got, spec=spec) if not dup else None
        stats["prog_outcomes"][str(("diff", k))] = stats["prog_outcomes"].get(str(("diff", k)), 0) + 1
        rel = (bad or dup)[0]
        mism.append(dict(case=case, impl={x: sorted(got[x]) for x in bad}, model=None, spec={x: sorted(spec.get(x, set())) for x in bad},
                         kind="impl_violates_spec", known=k,
                         what="program with #[ds(trrel_uf)] derives a different %s than the explicit closure: missing %s, extra %s%s; program:\n%s\ninput %s" % (
                             rel, sorted(spec.get(rel, set()) - got[rel])[:6], sorted(got[rel] - spec.get(rel, set()))[:6],
                             "; duplicate rows in %s" % dup if dup else "", r["text"], json.dumps(inp, sort_keys=True))))


def prog_shrink(m):
    """for an unknown PROG violation: drop input tuples and reader rules while the same kind of failure persists (bounded)"""
    case = m["case"]
    p, inp = case["p"], case["inputs"][0]

    def fails(p2, inp2):
        r = cp.run([dict(kind="prog", id="c12s", p=p2, inputs=[inp2])], tag="c12s")[0]
        mm, st = [], new_stats()
        prog_mismatches(r, mm, st)
        mm = [x for x in mm if x["kind"] == "impl_violates_spec" and x["known"] is None]
        return mm[0] if mm else None
    budget = 6
    best = m
    for rel in list(inp):
        for t in list(inp[rel]):
            if budget <= 0:
                return best
            cand = dict(inp, **{rel: [x for x in inp[rel] if x != t]})
            budget -= 1
            got = fails(p, cand)
            if got:
                inp, best = cand, got
    return best


def new_stats():
    return dict(ds_histories=0, ds_ops=0, ds_reads=0, ds_violations={}, ds_nontrivial=set(), dist={},
                prog_runs=0, prog_outcomes={}, prog_nontrivial=set())


def tie(tier, seed, replay):
    binary, out = ds.harness_build()
    if binary is None:
        raise lib.Infra("ds_trufprov does not build against %s:\n%s" % (lib.REPO, out[-3000:]))
    if replay:
        cases = [json.load(open(replay))["case"]]
    else:
        cases = load_corpus() + gen_ds_cases(tier, seed) + gen_prog_cases(tier, seed)
    mism, stats = [], new_stats()
    dsc = [c for c in cases if c.get("kind", "ds") == "ds"]
    pgc = [c for c in cases if c.get("kind") == "prog"]
    t0 = time.time()
    for i in range(0, len(dsc), 6000):
        tie_ds(binary, dsc[i:i + 6000], mism, stats)
    t1 = time.time()
    results = []
    for i in range(0, len(pgc), 100):
        results += cp.run(pgc[i:i + 100], tag="c12")
    t2 = time.time()
    print("c12 tie: DS half %.1fs (%d histories), PROG half %.1fs (%d programs)" % (t1 - t0, len(dsc), t2 - t1, len(pgc)))
    feats = {}
    for r in results:
        pm = []
        prog_mismatches(r, pm, stats)
        for f in r["case"]["p"]["features"]:
            feats[f] = feats.get(f, 0) + 1
        unknown = [m for m in pm if m["kind"] == "impl_violates_spec" and m["known"] is None]
        if unknown and not any(m.get("prog_shrunk") for m in mism):
            small = prog_shrink(unknown[0])
            small["prog_shrunk"] = True
            pm = [m for m in pm if m is not unknown[0]] + [small]
        mism += pm
    # one witness per known PROG class is enough for the runner; keep the one with the shortest description
    keep, seen = [], {}
    for m in mism:
        if m["known"] and m["case"].get("kind") == "prog":
            old = seen.get(m["known"])
            if old is None or len(m["what"]) < len(old["what"]):
                seen[m["known"]] = m
        else:
            keep.append(m)
    mism = keep + list(seen.values())
    samples = []
    for c in dsc[:1] + dsc[-2:]:
        samples.append(dict(kind="ds", suite=c["suite"], history=ds.case_line(c)))
    for r in results[:2]:
        samples.append(dict(kind="prog", program=r["text"], input=r["case"]["inputs"][0],
                            tagged=str(cp.snap_sets(r["tagged"][0]))[:400], spec={k: sorted(v)[:6] for k, v in r["spec"][0].items() if k.startswith("o")}))
    return dict(
        evaluations=stats["ds_reads"] + stats["prog_runs"],
        distinct_nontrivial=len(stats["ds_nontrivial"]) + len(stats["prog_nontrivial"]),
        rule="an evaluation = one read of all views of delta and total after a stratum start or a merge (DS; every view compared with the model "
             "and checked against the closure laws), or one run of a tagged program on one input (PROG); non-trivial DS history = at some read "
             "both delta and total serve tuples (a merge took the Delta-shaped path), distinct = distinct operation sequences (%d); non-trivial "
             "PROG run = the closure or a reader relation is non-empty, distinct = distinct (program text, input) (%d)" % (
                 len(stats["ds_nontrivial"]), len(stats["prog_nontrivial"])),
        samples=samples,
        distribution=dict(ds=stats["dist"], ds_histories=stats["ds_histories"], ds_operations=stats["ds_ops"], ds_reads=stats["ds_reads"],
                          ds_law_violations_by_class=stats["ds_violations"], prog_programs=len(results), prog_runs=stats["prog_runs"],
                          prog_outcomes=stats["prog_outcomes"], prog_features=feats),
        mismatches=mism,
        trusted_base=[
            "harness/ds_trufprov (Rust): drives TrRelIndCommon<u32> and BinRelToTernaryWrapper<.., TrRelIndCommon<u32>> through the provider macros and the ascent::internal traits exactly as generated code does (init, insert_if_not_present, contains_key, merge, every index view)",
            "gen/c12_ds.py: history generator, python closure oracle and law checks, fingerprints; gen/c12_prog.py: program generator, python naive evaluator cross-checked against Engine/Sem.v naive_fix on every case where Coq finishes",
            "model vs implementation is compared through a 63-bit multiset fingerprint per view first, complete observations on a difference",
            "views of the delta version are compared modulo the tuples the same view of total serves: class-level self connections of a Delta depend on the hash order of `new` (TrRelUnionFind::add(x,x) on a new x records (s,s)); those tuples are all served by total",
            "Rc<TrRelUnionFind> sharing between a Delta and total is modelled by value; Rc::get_mut(..).unwrap() in the merge is assumed to succeed (the delta's clone is dropped two statements earlier)",
            "UF/TrUfModel.v (C18) as the model of TrRelUnionFind",
            "program-level theorems (c12_program_binary / _ternary): Engine/EvalProv.v prun_plan as the model of generated code around a provider-backed relation (shared with C10 / C11; its correspondence with the real macro output is the PROG half of this tie and C01); the providers it is run with are compositions of the model functions compared here (c12_binary_provider_is_model, c12_ternary_provider_is_model), carried to integer tuples along a bijection Z <-> nat by Byods/TrRelAdapter.v",
        ],
        assumptions=[
            "element and key type u32 in the harness / i32 in programs, nat in the model (only Eq + Hash are used)",
            "hashbrown HashMap / HashSet meet their map / set semantics; iteration order is not modelled (observations are compared as sorted lists with multiplicity)",
            "serial evaluation only (the provider is not Sync); timing statics of the provider are not modelled",
            "DS histories follow the protocol of compile_mir_scc: stratum start (take stored into delta, init), rounds of inserts + merge, a final merge of an empty new, stratum end",
        ],
        extra=dict(known_classes=list(KNOWN_DS)))
