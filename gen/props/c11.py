"""C11 — a relation tagged #[ds(ascent_byods_rels::trrel)] behaves as its explicit transitive closure.

Coq: Byods/TrRelModel.v (model of trrel_binary_ind.rs / trrel_ternary_ind.rs as written), Byods/TrRelProofs.v,
Byods/TrRelTernary.v, Props/C11.v.

tie, two halves (both run on every check, corpus first):
  DS   (gen/c11_ds.py, harness/ds_trrel): histories  insert(new,t)* ; merge ; read every view of delta and total ; ...
       (also SCC boundaries) on the real binary and ternary provider types, three ways:
       real provider vs Coq model (63-bit fingerprint of the complete observation per history, located per step on a
       mismatch)                                                        -> kind='model_differs'
       real provider vs provider laws P1-P5 against a python explicit transitive closure -> kind='impl_violates_spec'
       (incl. `is_empty() => the view has nothing to serve` on every view of both versions: the answer generated code
       uses to skip whole rules; family "heavy" = many keys sharing few node values, where size heuristics over the
       keyed views are furthest off)
  PROG (gen/c11_prog.py): programs with the tagged relation in head and body positions, every subset of columns bound,
       recursive and non-recursive strata, vs the least model of the same program with an ordinary relation and the
       explicit rule tr(x,z) <-- tr(x,y), tr(y,z), computed in Coq by naive_fix               -> 'impl_violates_spec'
       (family "multi": every reader has >= 3 body clauses or 2 that are not a simple join, i.e. runs under the
       any-relation-empty shortcut of compile_mir_rule, inside and after the recursive stratum, on inputs with 4-60 keys
       over 2-3 node values)
Three defects found by this check were repaired in /repo (known_findings.json, status fixed: 2cd049f pairs (x,x)
implied by cycles, 0ce9ae6 reverse-map views of the delta version of the ternary form, 72c0385 len_estimate of the
ternary [1,2] view on an empty relation).  Their minimal witnesses stay in corpus/C11.jsonl and run first; the
classifiers below still label a recurrence with its key, but a fixed entry suppresses nothing: it is a VIOLATION."""
import json
import os

from .. import c11_ds as ds
from .. import c11_prog as cp
from .. import lib, prog

PROP = "C11"
PROP_FILE = "Props/C11.v"
KNOWN_CAP = 12          # mismatch entries kept per known class (all are counted)


def retuple(x):
    if isinstance(x, list):
        return tuple(retuple(y) for y in x)
    return x


def load_prog_case(c, cid):
    p = c["prog"]
    rels = [(r[0], r[1], retuple(r[2]) if isinstance(r[2], list) else r[2]) for r in p["rels"]]
    rules = []
    for r in p["rules"]:
        heads = [(h[0], [retuple(t) for t in h[1]]) for h in r["heads"]]
        body = []
        for it in r["body"]:
            if it[0] == "clause":
                body.append(("clause", it[1], [retuple(t) for t in it[2]], [retuple(cd) for cd in it[3]]))
            elif it[0] == "cond":
                body.append(("cond", (it[1][0], it[1][1], list(it[1][2])) if it[1][0] == "if" else retuple(it[1])))
            else:
                body.append(retuple(it))
        rules.append(dict(heads=heads, body=body))
    inputs = [{r: [tuple(t) for t in ts] for r, ts in inp.items()} for inp in c["inputs"]]
    meta = dict(c.get("meta") or {})
    meta.setdefault("rev_delta_rules", [])
    meta.setdefault("readers", [])
    meta.setdefault("rec", "corpus")
    return dict(id=cid, prog=dict(rels=rels, rules=rules), inputs=inputs, meta=meta, styles=["corpus"] * len(inputs))


def load_corpus():
    path = os.path.join(lib.VERIF, "corpus", PROP + ".jsonl")
    dsc, pc = [], []
    if os.path.exists(path):
        for k, l in enumerate(open(path)):
            if not l.strip():
                continue
            c = json.loads(l)
            if c.get("half") == "prog":
                pc.append(load_prog_case(c, "c11_corpus_%d" % k))
            else:
                c["src"] = "corpus"
                dsc.append(c)
    return dsc, pc


# ------------------------------------------------------------------ DS half

def ds_half(binary, cases):
    impl = ds.run_impl(binary, cases)
    model = ds.run_model(cases)
    mism = []
    counts = {}
    nontrivial = set()
    dist = {}
    evaluations = 0
    n_model_diff = 0
    n_unknown = 0
    for c, isteps, m in zip(cases, impl, model):
        evaluations += 1
        st = ds.history_stats(c)
        key = "%s/%s" % (c["suite"], c.get("src", "replay").split("/")[0])
        d = dist.setdefault(key, dict(histories=0, steps=0, cyclic=0, self_loops=0, multi_round=0, several_keys=0, sixteen_or_more_keys=0, with_scc_boundary=0))
        d["histories"] += 1
        d["steps"] += len(c["ops"])
        d["cyclic"] += int(st["cyclic"])
        d["self_loops"] += int(st["self_loop"])
        d["multi_round"] += int(st["rounds"] > 1)
        d["several_keys"] += int(st["keys"] > 1)
        d["sixteen_or_more_keys"] += int(st["keys"] >= 16)
        d["with_scc_boundary"] += int(st["restart"])
        if st["derived"] > 0:
            nontrivial.add(ds.case_line(c) + "/" + c["suite"])
        # implementation vs Coq model
        if not ds.agree(isteps, m):
            n_model_diff += 1
            if n_model_diff <= 3:
                def still(cands):
                    i2 = ds.run_impl(binary, cands)
                    m2 = ds.run_model(cands, tag="c11dss")
                    return [not ds.agree(a, b) for a, b in zip(i2, m2)]
                small = ds.shrink_batch(c, still)
                i2 = ds.run_impl(binary, [small])[0]
                where = ds.locate_diff(i2, ds.run_model([small], "steps", "c11dsl")[0]) or (0, "history fingerprints differ")
                full = ds.run_model([small], "full", "c11dsf")[0]
                mism.append(dict(case=dict(half="ds", **{k: small[k] for k in ("suite", "keys", "dom", "ops")}), impl=i2, model=full,
                                 spec="see the separate law check", kind="model_differs", known=None,
                                 what="correspondence Byods/TrRelModel.v vs %s: %s on history `%s %s`" % (
                                     "trrel_binary_ind.rs" if c["suite"] == "bin" else "trrel_ternary_ind.rs", where[1], c["suite"], ds.case_line(small))))
            else:
                mism.append(dict(case=dict(half="ds", **{k: c[k] for k in ("suite", "keys", "dom", "ops")}), impl=None, model=None, spec=None,
                                 kind="model_differs", known=None, what="correspondence Byods/TrRelModel.v vs provider on history `%s %s`" % (c["suite"], ds.case_line(c))))
        # implementation vs the provider laws
        fails = ds.spec_check(c, isteps)
        by = {}
        for f in fails:
            by.setdefault(f["klass"], []).append(f)
        for klass, fs in by.items():
            counts[klass] = counts.get(klass, 0) + 1
            if klass is not None and counts[klass] > KNOWN_CAP and c.get("src") != "corpus":
                continue
            case = c
            f0 = fs[0]
            if klass is None:
                n_unknown += 1
                if n_unknown <= 4:
                    def still_u(cands, law=f0["law"]):
                        i2 = ds.run_impl(binary, cands)
                        return [any(f["klass"] is None and f["law"] == law for f in ds.spec_check(cand, st)) for cand, st in zip(cands, i2)]
                    case = ds.shrink_batch(c, still_u)
                    i2 = ds.run_impl(binary, [case])[0]
                    fs2 = [f for f in ds.spec_check(case, i2) if f["klass"] is None]
                    if fs2:
                        fs, f0 = fs2, fs2[0]
            mism.append(dict(case=dict(half="ds", **{k: case[k] for k in ("suite", "keys", "dom", "ops")}),
                             impl=dict(law=f0["law"], version=f0["version"], view=f0["view"], reading=f0["reading"], missing=f0["missing"], not_allowed=f0["extra"]),
                             model="agrees with the implementation" if ds.agree(isteps, m) else "differs", spec=[f["what"] for f in fs[:6]],
                             kind="impl_violates_spec", known=klass,
                             what="trrel provider history `%s %s`: %s (+%d more law failures)" % (c["suite"], ds.case_line(case), f0["what"], len(fs) - 1)))
    return dict(mism=mism, counts=counts, nontrivial=nontrivial, dist=dist, evaluations=evaluations, impl=impl, model_diffs=n_model_diff)


# ------------------------------------------------------------------ PROG half

def prog_half(cases):
    results = []
    for i in range(0, len(cases), 64):       # one crate per 64 programs: every build queues on the lock shared by all checks
        results += cp.run_cases(cases[i:i + 64], tag="c11")
    mism, counts = [], {}
    shapes, bound_seen = {}, {}
    under_shortcut = [0]
    nontrivial = set()
    runs = 0
    skipped = sum(1 for r in results if r["skipped"])
    for r in results:
        c = r["case"]
        if r["skipped"]:
            continue
        shapes[c["meta"].get("rec", "corpus")] = shapes.get(c["meta"].get("rec", "corpus"), 0) + 1
        for rd in c["meta"].get("readers", []):
            k = "%s%s%s" % ("ternary" if c["meta"].get("ternary") else "binary", json.dumps(rd.get("declared_bound", rd.get("bound"))), "/feedback" if rd.get("feedback") else "")
            bound_seen[k] = bound_seen.get(k, 0) + 1
            under_shortcut[0] += int(bool(rd.get("shortcut")))
        for k, inp in enumerate(c["inputs"]):
            runs += 1
            if r["spec"] and r["spec"][k] is not None:
                ntr = sum(1 for (rel, _) in r["spec"][k] if rel == "tr")
                if ntr > len(inp.get("e", [])):
                    nontrivial.add((r["text"], json.dumps(inp, sort_keys=True)))
        for m in fix_panics(r, cp.compare(r)):
            counts[m["known"]] = counts.get(m["known"], 0) + 1
            if m["known"] is not None and counts[m["known"]] > KNOWN_CAP and not c["id"].startswith("c11_corpus"):
                continue
            m["case"] = dict(half="prog", prog=c["prog"], inputs=[m["case"]["input"]] if "input" in m["case"] else c["inputs"], meta=c["meta"], program=r["text"])
            mism.append(m)
    return dict(mism=mism, counts=counts, runs=runs, shapes=shapes, bound=bound_seen, nontrivial=nontrivial, skipped=skipped, results=results,
                under_shortcut=under_shortcut[0], heavy_runs=sum(1 for r in results if not r["skipped"] for st in r["case"].get("styles", []) if str(st).startswith("heavy")))


def fix_panics(r, mism):
    """classify the division-by-zero panic of TrRel2Ind1_2::len_estimate (F11)"""
    c = r["case"]
    has12 = c["meta"].get("ternary") and any(rd.get("declared_bound") == [1, 2] for rd in c["meta"].get("readers", []))
    for m in mism:
        if m["known"] is None and isinstance(m["impl"], dict) and "divide by zero" in str(m["impl"].get("panic", "")) and has12:
            m["known"] = ds.F11
    return mism


# ------------------------------------------------------------------ tie

def tie(tier, seed, replay):
    binary, out = ds.harness_build()
    if binary is None:
        raise lib.Infra("harness/ds_trrel does not build against %s:\n%s" % (lib.REPO, out[-3000:]))
    if replay:
        rc = json.load(open(replay))["case"]
        if rc.get("half") == "prog":
            dcases, pcases = [], [load_prog_case(rc, "c11_replay")]
        else:
            dcases, pcases = [dict(rc, src="replay")], []
    else:
        dsc, pc = load_corpus()
        dcases = dsc + ds.gen_cases(tier, seed, PROP)
        pcases = pc + cp.gen_cases(tier, seed, PROP)
    D = ds_half(binary, dcases) if dcases else dict(mism=[], counts={}, nontrivial=set(), dist={}, evaluations=0, impl=[], model_diffs=0)
    P = prog_half(pcases) if pcases else dict(mism=[], counts={}, runs=0, shapes={}, bound={}, nontrivial=set(), skipped=0, results=[], under_shortcut=0, heavy_runs=0)
    samples = []
    for c, i in list(zip(dcases, D["impl"]))[:2]:
        samples.append(dict(history="%s %s" % (c["suite"], ds.case_line(c)), impl_last_step=i[-1] if i else None))
    for r in P["results"][:2]:
        samples.append(dict(program=r["text"], input=r["case"]["inputs"][0],
                            impl={k: v[1][:6] for k, v in prog.canon_snap(r["impl"][0]["snaps"][-1]).items()} if r["impl"] and "snaps" in r["impl"][0] else r["impl"]))
    return dict(
        evaluations=D["evaluations"] + P["runs"],
        distinct_nontrivial=len(D["nontrivial"]) + len(P["nontrivial"]),
        rule="an evaluation = one DS history (every step observed: 3 numbers per insertion, every view of delta and total after every merge / SCC boundary) "
             "or one PROG run (program x input, all ordinary relations compared); non-trivial = the closure contains at least one tuple that was not inserted "
             "(DS: distinct operation sequences %d; PROG: distinct (program, input) %d); is_empty() of every view is observed after every merge / boundary and held against the closure" % (len(D["nontrivial"]), len(P["nontrivial"])),
        samples=samples,
        distribution=dict(ds=D["dist"], prog=dict(programs=len(P["results"]) - P["skipped"], runs=P["runs"], recursion_shapes=P["shapes"], bound_columns_of_readers=P["bound"],
                                                      reader_rules_under_the_any_relation_empty_shortcut=P["under_shortcut"], runs_on_key_heavy_inputs=P["heavy_runs"])),
        mismatches=D["mism"] + P["mism"],
        trusted_base=["harness/ds_trrel (Rust): drives TrRelIndCommon / TrRel2IndCommonWrapper through RelIndexMerge, RelFullIndexWrite, ToRelIndex, RelIndexRead, RelIndexReadAll, RelFullIndexRead exactly as generated code does; assembles tuples from (key, value) and folds them into bit masks + counts",
                      "gen/c11_ds.py: decoder, python transitive closure, provider-law checker; 63-bit fingerprint per history for model vs implementation",
                      "gen/c11_prog.py + gen/prog.py: generated crates; Engine/Sem.naive_fix (proved = least model) evaluated by vm_compute as the oracle of the explicit program",
                      "abstraction of the model: a BinaryRel is its set of pairs (forward and reverse hash maps receive every insertion in lock step; both are read by the tie), hash iteration order is not modelled"],
        assumptions=["histories follow the head-update protocol of generated code: a tuple is offered to `new` only if contains_key(total) and contains_key(delta) are false; an SCC ends only after a merge with empty `new` (off-protocol insertions reach insert_unique_unchecked with duplicates and are outside the property)",
                     "serial provider only (there is no parallel trrel provider)", "column type u32 in the DS harness, i32 in programs; Z in the model"],
        extra=dict(ds_histories=D["evaluations"], ds_model_differs=D["model_diffs"], ds_law_failures_by_class={str(k): v for k, v in D["counts"].items()},
                   prog_runs=P["runs"], prog_mismatches_by_class={str(k): v for k, v in P["counts"].items()}, prog_cases_skipped_oracle_too_slow=P["skipped"],
                   partial=["program level is proved on the engine MODEL (c11_program_binary / c11_program_ternary through Engine/ProvProofsW.prun_plan_correct_w: least model of P ++ [explicit closure rule]); that the generated Rust is that model (code generation, keyed index views chosen by the plan) is carried by the PROG half",
                            "forward views of the ternary form (full, none, [0], [0,1], [0,2]) are tied, not characterised by theorems; the reverse-map views [1], [2], [1,2] are (c11_ternary_rev_views_exact)",
                            "is_empty of the views: the model's answers are proved definite (c11_is_empty_definite, c11_is_empty_views_*); that the code gives the model's answers is tied (every history, key-heavy ones included); the shortcut itself (compile_mir_rule) is exercised by the PROG family `multi`"]))


