"""C01 — run() computes exactly the least model (relations, no negation / aggregation / lattices).

Three ties: (1) single runs from a fresh program value vs Engine/Eval.v and the naive_fix oracle (gen/engine_tie.py), (2) the planner
model vs the dumped plan (gen/plan_model.py), (3) HISTORIES of one program value - push, overwrite relations with other rows,
interrupted run_timeout, resume - with every index field observed around every call, vs Engine/IndexedHistory.v and vs the least model of
the rows the real program value held when the call started (gen/indexed_tie.py): "every run() on ANY program value"."""
import json
import os

from .. import c01_macroexpr, c07_gen, dl, engine_tie, gen_dl, indexed_tie, lib, plan_model, scc_shapes

PROP = "C01"
PROP_FILE = "Props/C01.v"


def gen_cases(tier, seed):
    rng = lib.rng_for(seed, PROP)
    n = 48 if tier == "quick" else 600
    ninp = 3 if tier == "quick" else 4
    cases = []
    for i in range(n):
        p = gen_dl.gen_program(rng)
        inputs, styles = [], []
        for _ in range(ninp):
            inp, st = gen_dl.gen_input(rng, p["rels"])
            inputs.append(inp)
            styles.append(st)
        if i % 4 == 1:
            # a variable bound by the first clause repeated inside the second one (adjacent or not): the equality of the columns is
            # implied by the lookup key only while the second clause is looked up, never when the join is evaluated the other way round
            jr = c07_gen.add_join_repeat(rng, p)
            if jr:
                extra = c07_gen.join_repeat_inputs(rng, p, jr)[:2]
                inputs += extra
                styles += ["join_repeat"] * len(extra)
        cases.append(dict(id="c01_%d" % i, prog=p, inputs=inputs, styles=styles))
    # last: base programs of the "expressions written through macro invocations" family (gen/c01_macroexpr.py; own random stream)
    return cases + gen_scc_cases(tier, seed) + c01_macroexpr.gen_cases(tier, seed, PROP)


SCC_OPTS_MULTI = dict(p_rec=0.6, p_rec_union=0.7, rec_kinds=["lin", "nonlin", "symtrans", "symtrans", "mutual", "mutual"])


def gen_scc_cases(tier, seed):
    """deep / irregular stratum DAGs (gen/scc_shapes.py): 4-13 strata, diamonds with arms of different length, skip edges, fan-in of
    chains of different length, recursive strata in the middle, several rule-level edges between one pair of strata, rules in
    shuffled / consumers-first / interleaved textual order; inputs on which (nearly) every stratum edge is sensitive: the
    consumer evaluated before that producer would miss tuples.  The ORDER in which the macro evaluates the strata is what is
    exercised.  Own random stream: the cases above do not change."""
    rng = lib.rng_for(seed, PROP, "scc_shapes")
    n = 22 if tier == "quick" else 160
    cases = []
    for i in range(n):
        c = scc_shapes.gen_case(rng, None if i % 2 == 0 else SCC_OPTS_MULTI, ninputs=2)
        if c:
            p, inputs, _ = c
            cases.append(dict(id="c01_scc_%d" % i, prog=p, inputs=inputs, styles=["scc"] * len(inputs)))
    return cases


def decode_case(c, cid):
    """a case as stored in json (corpus line / replay file: tuples became lists) -> a case of engine_tie.run"""
    c = dict(c, id=cid)
    p = dict(c["prog"])
    p["rels"] = [(r[0], r[1], tuple(r[2]) if isinstance(r[2], list) else r[2]) for r in p["rels"]]
    p["rules"] = [dict(heads=[(h[0], [tuple_t(t) for t in h[1]]) for h in r["heads"]], body=[tuple_item(it) for it in r["body"]]) for r in p["rules"]]
    c["prog"] = p
    c["inputs"] = [{r: [tuple(t) for t in ts] for r, ts in inp.items()} for inp in c["inputs"]]
    return c


def load_corpus():
    path = os.path.join(lib.VERIF, "corpus", PROP + ".jsonl")
    if not os.path.exists(path):
        return []
    out = []
    for k, l in enumerate(open(path)):
        if l.strip():
            out.append(decode_case(json.loads(l), "corpus_%d" % k))
    return out


def tuple_t(t):
    return tuple(list(x) if isinstance(x, list) else x for x in t)


def tuple_item(it):
    if it[0] == "clause":
        return ("clause", it[1], [tuple_t(t) for t in it[2]], [tuple_t(c) for c in it[3]])
    if it[0] == "cond":
        return ("cond", tuple_t(it[1]))
    return tuple_t(it)


def tie(tier, seed, replay):
    if replay:
        rp = json.load(open(replay))
        if "history" in rp["case"] and "prog_ast" in rp["case"]:
            # a history of one program value (gen/indexed_tie.py): re-run exactly that history
            mism, st = indexed_tie.replay_case(rp["case"])
            return dict(evaluations=st["histories"], distinct_nontrivial=st["histories"], rule="replay of one stored history (gen/indexed_tie.py)", samples=[], distribution={},
                        mismatches=mism, trusted_base=[], assumptions=[], extra={})
        if "variant_program" in rp["case"] and "prog_ast" in rp["case"]:
            # a macro rendering of a base program (gen/c01_macroexpr.py): the base through the engine tie, the stored text through rustc
            mism, st = c01_macroexpr.replay_case(rp["case"], decode_case)
            return dict(evaluations=st["runs"], distinct_nontrivial=st["runs_deriving"], rule="replay of one stored macro rendering (gen/c01_macroexpr.py)", samples=[], distribution={},
                        mismatches=mism, trusted_base=[], assumptions=[], extra={})
        cases = [c for c in load_corpus_from([rp["case"]])]
    else:
        cases = load_corpus() + gen_cases(tier, seed)
    results = []
    chunk = 96
    for i in range(0, len(cases), chunk):
        results += engine_tie.run(PROP, cases[i:i + chunk], tag="c01")
    # second phase, "nearly saturated" inputs: the least model of a first-phase input with ONE head relation reset to its
    # original rows.  The run then re-derives that relation only: iterations in which nothing but one relation (possibly one no
    # rule of its SCC reads) grows, fixed points reached at once, heads handed to later strata at the exit of a looping SCC.
    if not replay:
        rng2 = lib.rng_for(seed, PROP, "saturated")
        sat = []
        for r in results:
            if r.get("skipped") or not r["spec"] or len(sat) >= (24 if tier == "quick" else 200):
                continue
            p = r["case"]["prog"]
            heads = sorted({h[0] for rule in p["rules"] for h in rule["heads"]})
            if not heads:
                continue
            inputs = []
            for k, inp in enumerate(r["case"]["inputs"]):
                if r["spec"][k] is None or len(r["spec"][k]) > 150:
                    continue
                full = engine_tie.group_facts(r["spec"][k], p["rels"])
                pref = [h for h in heads if h.startswith("wlog")] or heads
                for reset in ([rng2.choice(pref)] if rng2.random() < 0.7 else [rng2.choice(heads)]):
                    ni = {name: list(full[name][1]) for name, _, _ in p["rels"]}
                    ni[reset] = list(inp.get(reset, []))
                    for name in ni:
                        rng2.shuffle(ni[name])
                    inputs.append(ni)
            if inputs:
                sat.append(dict(id=r["case"]["id"] + "_sat", prog=p, inputs=inputs[:3], styles=["saturated"] * len(inputs[:3])))
        for i in range(0, len(sat), chunk):
            results += engine_tie.run(PROP, sat[i:i + chunk], tag="c01sat")
    mism, feats, shapes, distinct = [], {}, {}, set()
    nrec = 0
    # the renderings of the gen/c01_macroexpr.py base programs with their expressions written through Rust macro invocations
    # (PROG only) against the base program's least model
    mx_mism, mx_stats = c01_macroexpr.run_variants(results)
    mism += mx_mism
    # the planner model (Plan/PlanModel.v compile_model, proved to produce only plans the validator accepts) against the plan the
    # real macro dumped for the same programs; and the per-index engine (Engine/IndexedEval.v) against the real index fields
    plan_stats, idx = {}, None
    if not replay:
        mism += plan_model.check_cases([c for c in cases if not str(c["id"]).startswith("corpus_")], tag="plan_c01", stats=plan_stats)
        plan_stats.pop("_distinct", None)
        idx = indexed_tie.run_tie("quick", seed, tag="indexed_c01") if tier == "quick" else indexed_tie.run_tie("thorough", seed, tag="indexed_c01t")
        mism += idx["mismatches"]
    nskipped = sum(1 for r in results if r.get("skipped"))
    results = [r for r in results if not r.get("skipped")]
    scc_cov = dict(programs=0, strata=0, max_strata=0, depth=0, stratum_edges=0, sensitive_edges=0, uneven_fanin=0, double_edge_fanin=0, looping=0, text_order={})
    for r in results:
        ms = engine_tie.compare_case(r)
        for m in ms:
            m["case"]["prog_ast"] = dict(rels=r["case"]["prog"]["rels"], rules=r["case"]["prog"]["rules"])      # --replay re-runs exactly this program
        mism += ms
        st = r["case"]["prog"].get("scc", {}).get("stats")
        if st:
            scc_cov["programs"] += 1
            scc_cov["max_strata"] = max(scc_cov["max_strata"], st["strata"])
            for a, b in (("strata", "strata"), ("depth", "depth"), ("stratum_edges", "edges"), ("sensitive_edges", "sensitive"), ("uneven_fanin", "uneven"), ("double_edge_fanin", "double_fanin"), ("looping", "looping")):
                scc_cov[a] += st[b]
            sty = r["case"]["prog"]["scc"].get("style")
            scc_cov["text_order"][sty] = scc_cov["text_order"].get(sty, 0) + 1
        for f in gen_dl.program_features(r["case"]["prog"]):
            feats[f] = feats.get(f, 0) + 1
        sh = r["case"]["prog"].get("shape", "corpus")
        shapes[sh] = shapes.get(sh, 0) + 1
        looping = bool(r["summary"] and "is_looping: true" in r["summary"])
        for k, inp in enumerate(r["case"]["inputs"]):
            derived = 0
            if r["spec"] and r["spec"][k] is not None:
                derived = len(r["spec"][k]) - sum(len(v) for v in inp.values())
            if looping and derived > 0:
                nrec += 1
                distinct.add((r["summary"], json.dumps(inp, sort_keys=True)))
    sample = [dict(program=r["text"], summary=r["summary"], input=r["case"]["inputs"][0],
                   impl={k: v[1][:6] for k, v in __import__("gen.prog", fromlist=["x"]).canon_snap(r["impl"][0]["snaps"][-1]).items()} if r["impl"] and "snaps" in r["impl"][0] else r["impl"])
              for r in results[:3]]
    return dict(evaluations=sum(len(r["case"]["inputs"]) for r in results) + (idx["evaluations"] if idx else 0) + mx_stats["runs"],
                distinct_nontrivial=len(distinct) + (idx["coverage"]["least_model_checks_where_the_call_had_to_derive"] if idx else 0) + mx_stats["runs_deriving"],
                rule="random core programs (1-6 rules, 1-4 body items, relations of arity 1-3; shapes free/linear/non-linear/mutual/chain) x 3-4 input databases (empty, singleton, unequal, dense, chains); programs with deep / irregular stratum DAGs (gen/scc_shapes.py: 4-13 strata, diamonds with arms of different length, skip edges, fan-in of chains of different length, recursive strata in the middle, several rule-level edges between one pair of strata, rules in shuffled / consumers-first / interleaved textual order) x 2 inputs on which the stratum edges are sensitive (the consumer evaluated before that producer misses tuples); then a second phase of nearly saturated inputs (the least model of a first-phase input with one head relation reset to its original rows); non-trivial = the plan has a looping SCC and the run derives at least one new fact; distinct = distinct (plan summary, input).  PLUS histories of one program value (any rows, any index fields): " + (idx["rule"] if idx else "-") + "; counted as non-trivial there: calls of run() / run_timeout() == true that had to derive at least one tuple and were compared with the least model of the rows present.  PLUS macro renderings: " + c01_macroexpr.RULE + "; counted as non-trivial there: (rendering, input) runs whose least model has derived tuples",
                samples=sample, distribution=dict(programs=len(results), shapes=shapes, features=feats, recursive_deriving_runs=nrec),
                mismatches=mism,
                trusted_base=["FRONT hook (ascent_macro/src/verif_hook.rs, feature verif_hooks) printing the MIR plan; gen/dl.py translating the dump into the Coq plan term; gen/prog.py generated crates + canonicaliser",
                              "code generation from MIR to Rust (ascent_codegen.rs) is modelled by hand in Engine/Eval.v (abstract indices) and Engine/IndexedEval.v (one physical index per column set; proved to refine Eval.v) and tied by these runs, not verified",
                              "the planner (ascent_hir.rs / ascent_mir.rs) is mirrored by hand in Plan/PlanModel.v (proved: every plan it computes is accepted by the validator) and compared structurally with the dumped plan of every generated program; petgraph's condensation is an input of the model, checked per program by the decidable sccs_ok",
                              "virtual clock hook (ascent/src/verif_hooks.rs, feature verif_hooks) standing in for web_time::Instant: decides which deadline check of run_timeout fires",
                              "rustc, hashbrown / std collections meet their documented semantics"],
                assumptions=["column values are small i32 (no overflow in the vocabulary functions)", "hash-map iteration order is not modelled: relation contents are compared as sets plus row counts"],
                extra=dict(cases_skipped_model_too_slow=nskipped, programs=len(results), stratum_order_family=scc_cov, plans_validated=sum(1 for r in results if r["valid"] is True),
                           planner_model_vs_dumped_plan={k: v for k, v in plan_stats.items() if k in ("evaluations", "wf_core_holds", "sccs_ok_holds", "untranslatable", "not_compiled", "features")},
                           expressions_through_macro_invocations=mx_stats,
                           indexed_engine_vs_real_index_fields=(dict(idx["coverage"], histories=idx["evaluations"], rule=idx["rule"]) if idx else None)))


def load_corpus_from(cases):
    """the case of a replay file (a mismatch of engine_tie.compare_case, to which tie() added the program AST) -> engine cases"""
    out = []
    for k, c in enumerate(cases):
        if "prog_ast" in c:
            inputs = [c["input"]] if "input" in c else c.get("inputs", [{}])
            out.append(decode_case(dict(prog=c["prog_ast"], inputs=inputs), "replay_%d" % k))
    return out
