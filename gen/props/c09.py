"""C09 — packaging variants of a program are semantically transparent.

Every logical program (gen/gen_dl.py) is rendered as ~14 real artefacts (gen/c09_pack.py): ascent!+run(),
ascent_run! / ascent_run_par! with the input captured from locals (initialisers, rule bodies), ascent_par!,
include_source! at the start / middle / end / twice / adjacent / whole program, `relation r(..) = e`
initialisers evaluated by Default::default(), re-declarations (last wins), generic struct signatures (4 forms),
#![measure_rule_times], #![generate_run_timeout] (run() and run_timeout(Duration::MAX)), all at once, every token re-spanned
to Span::call_site() by a helper proc macro (as another proc macro would emit the program; alone and with includes); and every
crate is built a second time with the `segment-codegen` feature of the `ascent` crate.  All must produce the
relations (as sets + row counts) of the specification oracle (Engine/Sem.v naive_fix / Strat.strat_fix)."""
import json
import os

from .. import c09_pack, dl, engine_tie, gen_dl, lib, prog

PROP = "C09"
PROP_FILE = "Props/C09.v"

TAGS = {"v", "c", "f", "w", "if", "let", "iflet", "clause", "cond", "gen", "agg", "neg", "b", "k"}


def detuple(x):
    if isinstance(x, list):
        if x and isinstance(x[0], str) and x[0] in TAGS:
            return tuple(detuple(y) for y in x)
        return [detuple(y) for y in x]
    if isinstance(x, dict):
        return {k: detuple(v) for k, v in x.items()}
    return x


def case_from_json(c, cid):
    p = c["prog"]
    pr = dict(rels=[(r[0], r[1], r[2] if isinstance(r[2], str) else tuple(r[2])) for r in p["rels"]],
              rules=[dict(heads=[(h[0], detuple(h[1])) for h in r["heads"]], body=detuple(r["body"])) for r in p["rules"]],
              shape=p.get("shape", "corpus"))
    inputs = [{r: [tuple(t) for t in ts] for r, ts in inp.items()} for inp in c["inputs"]]
    return dict(id=cid, prog=pr, inputs=inputs, origin=c.get("origin", "corpus"))


def load_corpus():
    path = os.path.join(lib.VERIF, "corpus", PROP + ".jsonl")
    out = []
    if os.path.exists(path):
        for k, l in enumerate(open(path)):
            if l.strip():
                out.append(case_from_json(json.loads(l), "c09_k%d" % k))
    return out


def gen_cases(tier, seed):
    rng = lib.rng_for(seed, PROP)
    n = 20 if tier == "quick" else 150
    cases = []
    for i in range(n):
        sel = i % 4
        if sel == 3:
            p = gen_dl.gen_strat_program(rng)
        elif sel == 0:
            p = gen_dl.gen_program(rng, dict(exprs=False, p_clause=1.0, p_clause_cond=0.0))
        else:
            p = gen_dl.gen_program(rng)
        inputs = [gen_dl.gen_input(rng, p["rels"], style=rng.choice(["small", "mixed", "sparse_chain", "dense"]))[0] for _ in range(2)]
        cases.append(dict(id="c09_%d" % i, prog=p, inputs=inputs, origin="generated"))
    return cases


K_LOCALS = "include_source_hides_captured_locals"


def known_class(job, iv, pv):
    """specific matcher of the finding (anything else that goes wrong stays a violation).  The second finding of the first
    round, include_source_drops_prefix_when_spans_coincide, is fixed (/repo 9a74b6c): packaging inc_uniform is a regular one."""
    if job["kind"] == "inc_captured" and iv and "compile_error" in iv:
        errs = [l for l in iv["compile_error"].splitlines() if "error" in l]
        if errs and all("E0425" in l and "cannot find value `in_" in l for l in errs):
            return K_LOCALS
    return None


def compare_job(r, job, res, feature, pred=None):
    """mismatches of one packaging job against the specification answer of the logical program"""
    c = r["case"]
    rels = c["prog"]["rels"]
    mism, ok = [], 0
    for s in range(job["nscripts"]):
        k = job["script_input"][s]
        spec = r["spec"][k]
        if spec is None:
            continue
        sg = engine_tie.group_facts(spec, rels)
        cs = dict(program=r["text"], input=c["inputs"][k], packaging=job["kind"], macro=job["macro"], detail=job["desc"],
                  features=list(feature), prog=c["prog"], inputs=c["inputs"], script=s, script_input=job["script_input"],
                  expect_flags=job["expect_flags"], nscripts=job["nscripts"], module_source=job["src"], job_id=job["id"])
        iv = res[s] if res else None
        what = None
        got = None
        if iv is None or "snaps" not in iv:
            what = "packaging %s (%s%s) did not produce a result: %s" % (job["kind"], job["macro"], " +segment-codegen" if feature else "", json.dumps(iv)[:400])
        else:
            if iv.get("flags", []) != job["expect_flags"][s]:
                what = "packaging %s: run_timeout(Duration::MAX) returned %s, expected %s" % (job["kind"], iv.get("flags"), job["expect_flags"][s])
            isnap = prog.canon_snap(iv["snaps"][-1])
            for name, _, _ in rels:
                ilen, iset = isnap[name]
                if iset != sg[name][1] or ilen != len(sg[name][1]):
                    got = {name: dict(len=ilen, tuples=iset)}
                    what = "packaging %s (%s%s) computes relation %s differently from the logical program: %d rows; missing %s; extra %s" % (
                        job["kind"], job["macro"], " +segment-codegen" if feature else "", name, ilen,
                        [t for t in sg[name][1] if t not in iset][:5], [t for t in iset if t not in sg[name][1]][:5])
                    break
        if what and job["kind"] == "inc_uniform" and pred and iv and "snaps" in iv and "snaps" in pred[s] \
                and prog.canon_snap(iv["snaps"][-1]) == prog.canon_snap(pred[s]["snaps"][-1]):
            what += " [the result equals that of the program WITHOUT the items before the include: the prefix was dropped, as before fix 9a74b6c]"
        if what:
            mism.append(dict(case=cs, impl=got if got else iv, model=None, spec={n: sg[n][1] for n, _, _ in rels}, kind="impl_violates_spec",
                             known=known_class(job, iv, pred[s] if pred else None), what=what))
        else:
            ok += 1
    return mism, ok


def replay_case(path):
    rp = json.load(open(path))
    cs = rp["case"]
    c = case_from_json(dict(prog=cs["prog"], inputs=cs["inputs"]), "c09_replay")
    results = engine_tie.run(PROP, [c], tag="c09r", spec="strat")
    r = results[0]
    mism = engine_tie.compare_case(r)
    if r.get("skipped") or r["spec"] is None:
        return dict(evaluations=0, distinct_nontrivial=0, rule="replay", samples=[], distribution={}, mismatches=mism, infra="specification oracle did not finish on the replayed case")
    if "module_source" in cs:
        job = dict(id=cs["job_id"], kind=cs["packaging"], macro=cs["macro"], desc=cs.get("detail", ""), src=cs["module_source"], nscripts=cs["nscripts"],
                   script_input=cs["script_input"], expect_flags=cs["expect_flags"])
        feats = tuple(cs.get("features", []))
        res = c09_pack.build_and_run("c09r", [job], nbins=1, features=feats)
        m, ok = compare_job(r, job, res.get(job["id"]), feats)
        mism += m
        return dict(evaluations=job["nscripts"], distinct_nontrivial=ok, rule="replay of one packaging of one program", samples=[], distribution={}, mismatches=mism)
    return dict(evaluations=1, distinct_nontrivial=0, rule="replay (base packaging only)", samples=[], distribution={}, mismatches=mism)


def tie(tier, seed, replay):
    if replay:
        return replay_case(replay)
    cases = load_corpus() + gen_cases(tier, seed)
    results = []
    for i in range(0, len(cases), 96):
        results += engine_tie.run(PROP, cases[i:i + 96], tag="c09", spec="strat")
    nskipped = sum(1 for r in results if r.get("skipped"))
    results = [r for r in results if not r.get("skipped")]
    mism = []
    for r in results:
        mism += engine_tie.compare_case(r)
    rng = lib.rng_for(seed, PROP, "pack")
    jobs, owner, nwit = [], {}, 0
    for r in results:
        if r["front_status"] != "ok" or r["spec"] is None:
            continue
        c = r["case"]
        nwit += 1
        for j in c09_pack.packagings(rng, c["id"], c["prog"], c["inputs"], tier, witness=(nwit <= (4 if tier == "quick" else 12))):
            jobs.append(j)
            owner[j["id"]] = r
    kinds, macros, okc = {}, {}, {}
    distinct = set()
    evals = sum(len(r["case"]["inputs"]) for r in results)
    for feats, tag in (((), "c09p"), (("segment-codegen",), "c09ps")):
        impl = {}
        for i in range(0, len(jobs), 480):
            impl.update(c09_pack.build_and_run(tag, jobs[i:i + 480], features=feats))
        for j in jobs:
            if j.get("aux"):
                continue
            r = owner[j["id"]]
            m, ok = compare_job(r, j, impl.get(j["id"]), feats, impl.get(j["id"] + "_pred"))
            mism += m
            evals += j["nscripts"]
            key = j["kind"] + ("+segment-codegen" if feats else "")
            kinds[key] = kinds.get(key, 0) + 1
            okc[key] = okc.get(key, 0) + ok
            macros[j["macro"]] = macros.get(j["macro"], 0) + 1
            for s in range(j["nscripts"]):
                k = j["script_input"][s]
                inp = r["case"]["inputs"][k]
                if r["spec"][k] is not None and len(r["spec"][k]) > sum(len(v) for v in inp.values()):
                    distinct.add((j["id"], s, bool(feats)))
    sample = []
    for j in jobs[:40]:
        if j["kind"] in ("inc_two", "redecl", "combo", "run_init") and len(sample) < 4:
            sample.append(dict(packaging=j["kind"], macro=j["macro"], detail=j["desc"], module=j["src"][j["src"].find("}} }") + 4:][:1800]))
    return dict(evaluations=evals, distinct_nontrivial=len(distinct),
                rule="random logical programs (1/4 without interpreted functions, 1/2 C01-style, 1/4 stratified with aggregates / negation) x 2 inputs, each rendered as 14-17 packagings (base, ascent_run! / ascent_run_par! with captured locals as initialisers or in rule bodies, ascent_par!, include_source! start / middle / end / two / adjacent / whole, initialisers via Default, re-declarations, generic signature, all tokens re-spanned to one span by a helper proc macro (alone and with includes), measure_rule_times, generate_run_timeout with run() and run_timeout(MAX), all combined), whole crate built with and without ascent/segment-codegen; every relation compared (set + row count) with the specification oracle of the logical program; non-trivial = the logical program derives at least one fact on that input; distinct = distinct (packaging job, script, feature)",
                samples=sample, distribution=dict(programs=len(results), packaging_jobs=kinds, scripts_agreeing=okc, macros=macros,
                                                  pure_programs=sum(1 for r in results if c09_pack.is_pure(r["case"]["prog"])),
                                                  with_aggregates=sum(1 for r in results if r["case"]["prog"].get("shape") == "stratified")),
                mismatches=mism,
                trusted_base=["gen/c09_pack.py renders the packagings (a wrong rendering shows as a false alarm, not as a silent pass: the expected answer comes from the logical program alone)",
                              "FRONT hook + gen/dl.py plan translation + Engine/Eval.v model for the base packaging; specification oracle strat_fix / naive_fix evaluated inside Coq",
                              "rustc, cargo feature resolution, macro_rules expansion and span identity are exercised, not modelled: Pack/PackModel.v states the splice / last-wins / timeout-guard logic on token lists and declaration lists"],
                assumptions=["column values are small i32 / i64; the generic packagings instantiate T with i32 or i64",
                             "ascent_run! programs receive their input through initialisers or rule bodies over captured locals (the two documented ways)"],
                extra=dict(cases_skipped_model_too_slow=nskipped, packaging_jobs=len(jobs)))
