"""C09 — packaging variants of a program are semantically transparent.

Every logical program (gen/gen_dl.py) is rendered as ~14 real artefacts (gen/c09_pack.py): ascent!+run(),
ascent_run! / ascent_run_par! with the input captured from locals (initialisers, rule bodies), ascent_par!,
include_source! at the start / middle / end / twice / adjacent / whole program, `relation r(..) = e`
initialisers evaluated by Default::default(), re-declarations (last wins), generic struct signatures (4 forms),
#![measure_rule_times], #![generate_run_timeout] (run() and run_timeout(Duration::MAX)), all at once, every token re-spanned
to Span::call_site() by a helper proc macro (as another proc macro would emit the program; alone and with includes); and every
crate is built a second time with the `segment-codegen` feature of the `ascent` crate.  All must produce the
relations (as sets + row counts) of the specification oracle (Engine/Sem.v naive_fix / Strat.strat_fix).

Observables: per relation the SET of rows and the NUMBER of rows.  The input of a relation is a set (initialisers and
assigned vectors hold distinct tuples; a lattice: one row per key), so the specification answer has exactly one row per
derivable tuple (one row per key holding the join of all derivable values for a write-only lattice): a duplicated row is a
violation although the sets agree.

Family `wo` (gen_wo_case): programs with WRITE-ONLY relations (accumulators / outputs that no rule body, negation or
aggregate mentions) that carry initial rows, and rules that derive some of those initial rows again; half of them with
some write-only relations declared `lattice` (the initial row of a key is derived again with a lower / equal / higher
value).  Packagings run_wo_init / runpar_wo_init / run_part_init initialise only those relations in ascent_run! /
ascent_run_par! (nothing initialised is ever looked up by a rule body, but head updates look every row up).

Family `attrs` (gen/c09_attrs.py): programs with program-level INNER attributes — `#![ds(P)]` with P = eqrel / trrel / trrel_uf (every
relation without its own #[ds] is a closure relation: the programs of the C10 / C11 / C12 generators with the provider moved to the
program level), `#![measure_rule_times]`, `#![generate_run_timeout]`, `#![inter_rule_parallelism]`, in random order — x include_source!
placement (pasted / the VERY FIRST item: part, whole program, two adjacent, first + later / middle / end) x with and without a struct
signature x the four macros.  Each attribute has an observable whose expected value comes from the logical program and the attribute
set: the relations of the explicit-closure program (specification oracle), run_timeout(Duration::MAX) exists and returns true,
scc_times_summary() has its per-rule part.  The token shape of every packaging is also evaluated in Pack/PackAttrModel.v (the include
path of parse_ascent_program with its parse state; theorem c09_include_is_splice_with_attributes): the configuration the model compiles
the program with must be that of the attribute set.

Family `big` (gen/c09_big.py): SIZE and ORDER of the declaration list.  6 (thorough: 30) of the logical programs above are each rendered,
under all four macros, as a program of 21-64 `relation` / `lattice` declarations: unused filler relations with random names, 1-4 relations
declared 2 or 3 times whose overridden declarations carry DECOY initialisers (an underivable tuple) or a #[ds(..)] attribute, declaration
order random / sorted by name / reverse-sorted / sorted with the re-declarations at the end, 0-2 segments of the items moved into
include_source! sources.  The LAST declaration of a name decides (its initialiser is the input; bare: the relation starts empty);
every relation is compared (fillers: exactly the rows of the initialiser of their last declaration).  The declaration list of every such
program is also evaluated in Pack/PackModel.v (initialisers_emitted, as written and after the stable sort_by_name of Pack/PackOrder.v).

Family `opt` (gen/c09_dead.py): relations that NEVER receive a tuple — optional inputs of a library that this program does not fill: declared,
no initialiser, no producing rule or only producers that cannot fire — with count / sum / min / max / negation (and the same spelled as USER
aggregators c09_size / c09_total / c09_none) over them and downstream rules reading the results.  Logical programs: the stratified generator
with aggregates / negations re-targeted to such relations, and a designed reachability family (blk / w inside the recursive rule and in later
strata).  In the packagings of this family every relation without input in ALL scripts is declared BARE: no initialiser and no feeding rule
under ascent_run! / ascent_run_par!, field never touched under ascent! / ascent_par!, bare declaration inside an include_source! library whose
includer declares only the inputs it has.  The expected answer is the specification of the logical program: count = 0, sum = 0 and not() DO
fire over an empty relation.  The two ascent_run! forms are also generated for every ordinary program that happens to have a relation without
input.  Coq: Pack/PackDeadRules.v (c09_ascent_run_stratified_model, c09_dead_rules_count_sum_like_clause_refuted)."""
import json
import os

from .. import c09_attrs, c09_big, c09_dead, c09_pack, dl, engine_tie, gen_dl, lib, prog

PROP = "C09"
PROP_FILE = "Props/C09.v"

TAGS = {"v", "c", "f", "w", "if", "let", "iflet", "clause", "cond", "gen", "agg", "neg", "b", "k"}


def detuple(x):
    if isinstance(x, list):
        if x and isinstance(x[0], str) and x[0] in TAGS:
            return tuple(detuple(y) for y in x)
        return [detuple(y) for y in x]
    if isinstance(x, dict):
        return {k: detuple(v) for k, v in x.items()}
    return x


def rels_from_json(rs):
    return [(r[0], r[1], r[2] if isinstance(r[2], str) else tuple(r[2])) for r in rs]


def case_from_json(c, cid):
    p = c["prog"]
    pr = dict(rels=rels_from_json(p["rels"]),
              rules=[dict(heads=[(h[0], detuple(h[1])) for h in r["heads"]], body=detuple(r["body"])) for r in p["rules"]],
              shape=p.get("shape", "corpus"))
    inputs = [{r: [tuple(t) for t in ts] for r, ts in inp.items()} for inp in c["inputs"]]
    out = dict(id=cid, prog=pr, inputs=inputs, origin=c.get("origin", "corpus"))
    if c.get("view"):
        # the declarations used by the packagings: as prog.rels, some write-only relations declared `lattice`
        out["view"] = rels_from_json(c["view"])
    if c.get("wo_family"):
        out["wo_family"] = True
    if c.get("opt_family"):
        out["opt_family"] = True          # family `opt` (gen/c09_dead.py): relations without input are declared bare in every packaging
    if c.get("big_seeds"):
        out["big_seeds"] = list(c["big_seeds"])          # arrangements of the family `big` that exposed a defect (gen/c09_big.py corpus_jobs)
    return out


def load_corpus():
    path = os.path.join(lib.VERIF, "corpus", PROP + ".jsonl")
    out = []
    if os.path.exists(path):
        for k, l in enumerate(open(path)):
            if l.strip():
                out.append(case_from_json(json.loads(l), "c09_k%d" % k))
    return out


def gen_cases(tier, seed):
    rng = lib.rng_for(seed, PROP)
    n = 20 if tier == "quick" else 150
    cases = []
    for i in range(n):
        sel = i % 4
        if sel == 3:
            p = gen_dl.gen_strat_program(rng)
        elif sel == 0:
            p = gen_dl.gen_program(rng, dict(exprs=False, p_clause=1.0, p_clause_cond=0.0))
        else:
            p = gen_dl.gen_program(rng)
        inputs = [gen_dl.gen_input(rng, p["rels"], style=rng.choice(["small", "mixed", "sparse_chain", "dense"]))[0] for _ in range(2)]
        cases.append(dict(id="c09_%d" % i, prog=p, inputs=inputs, origin="generated"))
    return cases


# ------------------------------------------------------------------ family `wo`: initialised write-only relations

def _eval_head(args, env):
    out = []
    for t in args:
        if t[0] == "v":
            out.append(env[t[1]])
        elif t[0] == "c":
            out.append(t[1])
        else:
            out.append(dl.py_fun(t[1], [env[x] for x in t[2]]))
    return tuple(out)


def gen_wo_case(rng, cid, lattice):
    """a random program of gen/gen_dl.py (C01-style or stratified with aggregates / negation) extended by write-only
    relations w*: `anchor` rules w(h(x..)) <-- r(x..) over relations of the base program (so every input row of r derives a
    known row of w), further random rules and recursive multi-head rules with heads in w*; inputs: for the base relations
    random (or, `facts` mode, none at all: their rows are fact rules of the program, so that the initialised relations are
    the whole input), for w* a sample of the rows that WILL be derived again plus unrelated rows."""
    base = gen_dl.gen_strat_program(rng) if rng.random() < 0.3 else gen_dl.gen_program(rng, dict(nrels=[1, 2, 2, 3], nrules=[0, 1, 2, 3], p_multihead_recursive=0.15))
    brels = list(base["rels"])
    rules = list(base["rules"])
    ws = [("w%d" % i, rng.choice([0, 1, 1, 2, 2, 2, 3]), "rel") for i in range(rng.choice([1, 2, 2, 3]))]
    if lattice and all(w[1] == 0 for w in ws):
        ws[0] = (ws[0][0], rng.choice([1, 2, 3]), "rel")          # a lattice has at least its value column
    anchors = {w[0]: [] for w in ws}
    for w in ws:
        for _ in range(rng.choice([1, 1, 2])):
            s = rng.choice(brels)
            vs = ["a%d" % i for i in range(s[1])]
            head = []
            for _ in range(w[1]):
                u = rng.random() if vs else 1.0          # a source without columns (`relation r();`): constants only
                if u < 0.62:
                    head.append(("v", rng.choice(vs)))
                elif u < 0.82:
                    f = rng.choice(sorted(dl.FUNS))
                    head.append(("f", f, [rng.choice(vs) for _ in range(dl.FUNS[f][1])]))
                else:
                    head.append(("c", rng.choice(gen_dl.DOM)))
            rules.append(dict(heads=[(w[0], head)], body=[("clause", s[0], [("v", x) for x in vs], [])]))
            anchors[w[0]].append((s[0], vs, head))
    for _ in range(rng.choice([0, 1, 1, 2])):
        rules.append(gen_dl.gen_rule(rng, brels, {}, head_rels=ws))
    if rng.random() < 0.5:
        # a recursive rule of the base program that also writes an accumulator: rec(..), w(..) <-- rec(..), r(..)
        rec = rng.choice(brels)
        # (a stratified base program: the body stays inside rec, a clause over another level could close a cycle through a negation)
        g = gen_dl.RuleGen(rng, [rec] if base.get("shape") == "stratified" else brels, dict(p_clause_cond=0.0))
        body = [g.clause(rec), g.clause()]
        heads = [g.head(rec), g.head(rng.choice(ws))]
        rng.shuffle(heads)
        rules.append(dict(heads=heads, body=body))
    facts_mode = rng.random() < 0.35
    inputs = []
    binp = gen_dl.gen_input(rng, brels, style=rng.choice(["small", "mixed", "sparse_chain"]))[0]
    const_rows = {}
    if rng.random() < 0.4:
        w = rng.choice(ws)
        const_rows[w[0]] = tuple(rng.choice(gen_dl.DOM) for _ in range(w[1]))
        rules.append(dict(heads=[(w[0], [("c", v) for v in const_rows[w[0]]])], body=[]))
    if facts_mode:
        for n, a, _ in brels:
            for t in binp[n][:6]:
                rules.append(dict(heads=[(n, [("c", v) for v in t])], body=[]))
            binp[n] = binp[n][:6]
    rng.shuffle(rules)
    lat = []
    if lattice:
        cand = [w[0] for w in ws if w[1] >= 1]
        lat = [n for n in cand if rng.random() < 0.6] or [cand[0]]
    rederived = []
    for k in range(2):
        if facts_mode:
            src_rows = binp
            inp = {n: [] for n, _, _ in brels}
        else:
            src_rows = binp if k == 0 else gen_dl.gen_input(rng, brels, style=rng.choice(["small", "mixed", "dense"]))[0]
            inp = {n: list(ts) for n, ts in src_rows.items()}
        nre = 0
        for w in ws:
            derived = []
            for sname, vs, head in anchors[w[0]]:
                for t in src_rows[sname]:
                    h = _eval_head(head, dict(zip(vs, t)))
                    if h not in derived:
                        derived.append(h)
            if w[0] in const_rows:
                derived.append(const_rows[w[0]])
            pick = rng.sample(derived, min(len(derived), rng.choice([1, 1, 2, 3, 5]))) if derived else []
            other = [tuple(rng.choice(gen_dl.DOM + [6, 7]) for _ in range(w[1])) for _ in range(rng.choice([0, 0, 1, 2]))]
            rows = []
            if w[0] in lat:
                # one row per key; the initial value of a key that is derived again: lower / equal / higher than a derived one
                by = {}
                for t in pick:
                    v = t[-1]
                    by.setdefault(t[:-1], rng.choice([v, v, max(v - rng.choice([1, 2]), 0), min(v + rng.choice([1, 2]), 7)]))
                nre += len(by)
                for t in other:
                    by.setdefault(t[:-1], t[-1])
                rows = [k_ + (v,) for k_, v in by.items()]
            else:
                for t in pick + other:
                    if t not in rows:
                        rows.append(t)
                nre += len(pick)
            rng.shuffle(rows)
            inp[w[0]] = rows
        inputs.append(inp)
        rederived.append(nre)
    rels = brels + ws
    order = list(range(len(rels)))
    rng.shuffle(order)
    rels = [rels[i] for i in order]
    p = dict(rels=rels, rules=rules, shape=base.get("shape", "free"))
    c = dict(id=cid, prog=p, inputs=inputs, origin="generated-wo", wo_family=True, rederived=rederived, facts_mode=facts_mode)
    if lat:
        c["view"] = [(n, a, ("lat", "i32") if n in lat else k) for n, a, k in rels]
    return c


def gen_wo_cases(tier, seed):
    rng = lib.rng_for(seed, PROP, "wo")
    n = 6 if tier == "quick" else 30
    return [gen_wo_case(rng, "c09_w%d" % i, lattice=(i % 2 == 1)) for i in range(n)]


def view_prog(c):
    """the program as the packagings declare it"""
    return dict(c["prog"], rels=c.get("view") or c["prog"]["rels"])


def expected_rows(tuples, kind):
    """the rows the specification gives relation contents `tuples` (sorted distinct tuples of the logical program, where every
    relation is a set): a relation holds them one row each; a WRITE-ONLY lattice (the only lattices of the C09 views)
    holds one row per key with the join (i32: max) of all values derivable for the key, initial row included"""
    if not c09_pack.is_lat(kind):
        return list(tuples)
    by = {}
    for t in tuples:
        by[t[:-1]] = max(by.get(t[:-1], t[-1]), t[-1])
    return sorted((k + (v,) for k, v in by.items()), key=repr)


K_LOCALS = "include_source_hides_captured_locals"


def known_class(job, iv, pv):
    """specific matcher of the finding (anything else that goes wrong stays a violation).  The second finding of the first
    round, include_source_drops_prefix_when_spans_coincide, is fixed (/repo 9a74b6c): packaging inc_uniform is a regular one."""
    if job["kind"] == "inc_captured" and iv and "compile_error" in iv:
        errs = [l for l in iv["compile_error"].splitlines() if "error" in l]
        if errs and all("E0425" in l and "cannot find value `in_" in l for l in errs):
            return K_LOCALS
    return None


def compare_job(r, job, res, feature, pred=None):
    """mismatches of one packaging job against the specification answer of the logical program"""
    c = r["case"]
    rels = job.get("rels") or c["prog"]["rels"]          # the view: write-only relations may be declared `lattice`
    has_lat = any(c09_pack.is_lat(k_) for _, _, k_ in rels)
    wo = set(c09_pack.write_only_rels(c["prog"]))
    mism, ok = [], 0
    for s in range(job["nscripts"]):
        k = job["script_input"][s]
        spec = r["spec"][k]
        if spec is None:
            continue
        sg0 = engine_tie.group_facts(spec, rels)
        sg = {n: (None, expected_rows(sg0[n][1], k_)) for n, _, k_ in rels}
        # family `big`: a filler relation (no rule mentions it) holds exactly the rows of the initialiser of its LAST declaration
        for n, rows in (job.get("fixed_rows") or {}).items():
            sg[n] = (None, sorted({tuple(t) for t in rows}, key=repr))
        cs = dict(program=dl.rust_program_text(dict(c["prog"], rels=rels)), input=c["inputs"][k], packaging=job["kind"], macro=job["macro"], detail=job["desc"],
                  features=list(feature), prog=c["prog"], inputs=c["inputs"], script=s, script_input=job["script_input"],
                  expect_flags=job["expect_flags"], nscripts=job["nscripts"], module_source=job["src"], job_id=job["id"],
                  view=[list(x) for x in rels], wo_family=bool(c.get("wo_family")))
        if job.get("family") == "opt":
            cs.update(family="opt")
        if job.get("family") == "big":
            cs.update(family="big", fixed_rows=job["fixed_rows"], big=job.get("big"), program=job.get("program_text", cs["program"]))
        iv = res[s] if res else None
        what = None
        got = None
        if iv is None or "snaps" not in iv:
            what = "packaging %s (%s%s) did not produce a result: %s" % (job["kind"], job["macro"], " +segment-codegen" if feature else "", json.dumps(iv)[:400])
        else:
            if iv.get("flags", []) != job["expect_flags"][s]:
                what = "packaging %s: run_timeout(Duration::MAX) returned %s, expected %s" % (job["kind"], iv.get("flags"), job["expect_flags"][s])
            isnap = prog.canon_snap(iv["snaps"][-1])
            for name, _, _ in rels:
                ilen, iset = isnap[name]
                if iset != sg[name][1] or ilen != len(sg[name][1]):
                    got = {name: dict(len=ilen, tuples=iset)}
                    irows = prog.rows_snap(iv["snaps"][-1])[name]
                    dup = sorted({t for t in irows if irows.count(t) > 1}, key=repr)
                    what = "packaging %s (%s%s) computes %s %s differently from the logical program: %d rows, expected %d; missing %s; extra %s; rows held more than once %s" % (
                        job["kind"], job["macro"], " +segment-codegen" if feature else "", "lattice" if c09_pack.is_lat(dict((n, k_) for n, _, k_ in rels)[name]) else "relation",
                        name, ilen, len(sg[name][1]),
                        [t for t in sg[name][1] if t not in iset][:5], [t for t in iset if t not in sg[name][1]][:5], dup[:5])
                    if name in wo and c["inputs"][k].get(name):
                        what += " [%s is write-only (no rule body reads it) and starts with %d initial rows]" % (name, len(c["inputs"][k][name]))
                    if job.get("family") == "opt":
                        sites = c09_dead.empty_agg_sites(c["prog"], c["inputs"])
                        what += " [%s; aggregates over relations that never get a tuple: %s]" % (job["desc"], sorted({"%s in %s" % (a, r_) for _, a, r_ in sites}))
                    if job.get("family") == "big":
                        what += " [%s]" % job["desc"]
                        if any(9 in t for t in iset):
                            what += " [%s holds the tuple of a DECOY initialiser: an earlier declaration of the relation is in effect instead of the last one]" % name
                    break
        if what and job["kind"] == "inc_uniform" and pred and iv and "snaps" in iv and "snaps" in pred[s] \
                and prog.canon_snap(iv["snaps"][-1]) == prog.canon_snap(pred[s]["snaps"][-1]):
            what += " [the result equals that of the program WITHOUT the items before the include: the prefix was dropped, as before fix 9a74b6c]"
        if what:
            mism.append(dict(case=cs, impl=got if got else iv, model=None, spec={n: sg[n][1] for n, _, _ in rels}, kind="impl_violates_spec",
                             known=known_class(job, iv, pred[s] if pred else None), what=what))
            continue
        ok += 1
        # model tie of Pack/PackModel.v ascent_run_code: when the initialisers are the WHOLE input of an ascent_run! program,
        # r["model"] = rows (run_plan (init_state (assign_inits inits))) = rows (ascent_run_code inits) by the proved
        # c09_init_is_input; rows are compared as multisets sizes + sets (the Engine model has no lattices)
        whole = job["kind"] in ("run_init", "d_run_init") or (job["kind"] == "run_wo_init" and all(not ts for n, ts in c["inputs"][k].items() if n not in wo))
        if whole and job["macro"] == "ascent_run" and not has_lat and r.get("model") and r["model"][k] is not None:
            mg = engine_tie.group_facts(r["model"][k], rels)
            isnap = prog.canon_snap(iv["snaps"][-1])
            for name, _, _ in rels:
                if isnap[name][1] != mg[name][1] or isnap[name][0] != mg[name][0]:
                    mism.append(dict(case=cs, impl={name: dict(len=isnap[name][0], tuples=isnap[name][1])}, model={name: mg[name]},
                                     spec="implementation meets the specification", kind="model_differs", known=None,
                                     what="correspondence Pack/PackModel.v ascent_run_code (initialisers, ONE index build, SCCs) vs the generated ascent_run! block: relation %s of packaging %s has %d rows, the model %d" % (name, job["kind"], isnap[name][0], mg[name][0])))
                    break
            else:
                job["model_tied"] = job.get("model_tied", 0) + 1
    return mism, ok


def replay_case(path):
    rp = json.load(open(path))
    cs = rp["case"]
    if cs.get("family") == "attrs":
        return c09_attrs.replay(cs)
    if cs.get("family") == "big_model":
        return c09_big.replay_model(cs)
    c = case_from_json(dict(prog=cs["prog"], inputs=cs["inputs"], wo_family=cs.get("wo_family"), opt_family=cs.get("family") == "opt"), "c09_replay")
    results = engine_tie.run(PROP, [c], tag="c09r", spec="strat")
    r = results[0]
    mism = engine_tie.compare_case(r)
    if r.get("skipped") or r["spec"] is None:
        return dict(evaluations=0, distinct_nontrivial=0, rule="replay", samples=[], distribution={}, mismatches=mism, infra="specification oracle did not finish on the replayed case")
    if "module_source" in cs:
        job = dict(id=cs["job_id"], kind=cs["packaging"], macro=cs["macro"], desc=cs.get("detail", ""), src=cs["module_source"], nscripts=cs["nscripts"],
                   script_input=cs["script_input"], expect_flags=cs["expect_flags"], rels=rels_from_json(cs["view"]) if cs.get("view") else c["prog"]["rels"])
        if cs.get("family") == "opt":
            job.update(family="opt")
        if cs.get("family") == "big":
            job.update(family="big", fixed_rows=cs["fixed_rows"], big=cs.get("big"), program_text=cs.get("program"))
        feats = tuple(cs.get("features", []))
        res = c09_pack.build_and_run("c09r", [job], nbins=1, features=feats)
        m, ok = compare_job(r, job, res.get(job["id"]), feats)
        mism += m
        return dict(evaluations=job["nscripts"], distinct_nontrivial=ok, rule="replay of one packaging of one program", samples=[], distribution={}, mismatches=mism)
    return dict(evaluations=1, distinct_nontrivial=0, rule="replay (base packaging only)", samples=[], distribution={}, mismatches=mism)


def tie(tier, seed, replay):
    if replay:
        return replay_case(replay)
    cases = load_corpus() + c09_dead.gen_cases(tier, seed, PROP) + gen_wo_cases(tier, seed) + gen_cases(tier, seed)
    results = []
    for i in range(0, len(cases), 96):
        results += engine_tie.run(PROP, cases[i:i + 96], tag="c09", spec="strat")
    nskipped = sum(1 for r in results if r.get("skipped"))
    results = [r for r in results if not r.get("skipped")]
    mism = []
    for r in results:
        mism += engine_tie.compare_case(r)
    rng = lib.rng_for(seed, PROP, "pack")
    jobs, owner, nwit = [], {}, 0
    opt_cases, opt_jobs = [], []
    for r in results:
        if r["front_status"] != "ok" or r["spec"] is None:
            continue
        c = r["case"]
        # family `opt` (gen/c09_dead.py): every relation without input in all scripts is declared bare (no initialiser, no feeding rule,
        # field never touched); the programs of that family get all its packagings, any other program with such a relation the two
        # ascent_run! forms
        orng = lib.rng_for(seed, PROP, "optpack/" + c["id"])
        if c.get("opt_family"):
            opt_cases.append(c)
            for j in c09_dead.packagings(orng, c["id"], view_prog(c), c["inputs"], tier, full=True):
                jobs.append(j)
                opt_jobs.append(j)
                owner[j["id"]] = r
            continue
        nwit += 1
        for j in c09_pack.packagings(rng, c["id"], view_prog(c), c["inputs"], tier, witness=(nwit <= (4 if tier == "quick" else 12)),
                                     wo_family=bool(c.get("wo_family"))):
            jobs.append(j)
            owner[j["id"]] = r
        if any(not any(inp.get(n) for inp in c["inputs"]) for n, _, _ in c["prog"]["rels"]):
            for j in c09_dead.packagings(orng, c["id"], view_prog(c), c["inputs"], tier, full=False):
                jobs.append(j)
                opt_jobs.append(j)
                owner[j["id"]] = r
    # family `big` (gen/c09_big.py): the logical program inside 21-64 declarations (fillers, re-declarations, orders, includes), all four macros
    brng = lib.rng_for(seed, PROP, "big")
    elig = [r for r in results if r["front_status"] == "ok" and r["spec"] is not None and r["case"]["prog"]["rels"]]
    nbig = 6 if tier == "quick" else 30
    step = max(1, len(elig) // nbig)
    big_jobs = []
    for r in [r for r in elig if r["case"].get("big_seeds")] + elig[::step][:nbig]:
        c = r["case"]
        for j in (c09_big.corpus_jobs(c["id"], view_prog(c), c["inputs"], c.pop("big_seeds")) if c.get("big_seeds")
                  else c09_big.packagings(brng, c["id"], view_prog(c), c["inputs"], tier)):
            jobs.append(j)
            big_jobs.append(j)
            owner[j["id"]] = r
    bm, nbm = c09_big.model_check(big_jobs)
    mism += bm
    kinds, macros, okc = {}, {}, {}
    distinct = set()
    wo_stats = dict(programs=sum(1 for r in results if r["case"].get("wo_family")),
                    with_lattice_view=sum(1 for r in results if r["case"].get("view")),
                    initial_rows_derived_again=sum(sum(r["case"].get("rederived", [])) for r in results if r["case"].get("wo_family")),
                    programs_with_write_only_relations=sum(1 for r in results if c09_pack.write_only_rels(r["case"]["prog"])),
                    scripts_run_with_only_write_only_relations_initialised=0, scripts_tied_to_ascent_run_code_model=0)
    evals = sum(len(r["case"]["inputs"]) for r in results)
    # family `attrs`: program-level inner attributes x include placement x signature x macro (gen/c09_attrs.py)
    am, attr_stats, aevals, asamples = c09_attrs.run_family(tier, seed, lambda js: c09_pack.build_and_run("c09a", js))
    mism += am
    evals += aevals
    for feats, tag in (((), "c09p"), (("segment-codegen",), "c09ps")):
        impl = {}
        # (family `big` is built feature-less only: segment-codegen changes how rule code is emitted, not how declarations are resolved)
        fjobs = [j for j in jobs if not (feats and j.get("family") in ("big", "opt") and tier == "quick")]
        for i in range(0, len(fjobs), 480):
            impl.update(c09_pack.build_and_run(tag, fjobs[i:i + 480], features=feats))
        for j in fjobs:
            if j.get("aux"):
                continue
            r = owner[j["id"]]
            m, ok = compare_job(r, j, impl.get(j["id"]), feats, impl.get(j["id"] + "_pred"))
            mism += m
            evals += j["nscripts"]
            key = j["kind"] + ("+segment-codegen" if feats else "")
            kinds[key] = kinds.get(key, 0) + 1
            okc[key] = okc.get(key, 0) + ok
            macros[j["macro"]] = macros.get(j["macro"], 0) + 1
            if j["kind"] in ("run_wo_init", "runpar_wo_init"):
                wo_stats["scripts_run_with_only_write_only_relations_initialised"] += ok
            wo_stats["scripts_tied_to_ascent_run_code_model"] += j.pop("model_tied", 0)
            for s in range(j["nscripts"]):
                k = j["script_input"][s]
                inp = r["case"]["inputs"][k]
                if r["spec"][k] is not None and len(r["spec"][k]) > sum(len(v) for v in inp.values()):
                    distinct.add((j["id"], s, bool(feats)))
    sample = []
    for j in jobs[:40]:
        if j["kind"] in ("inc_two", "redecl", "combo", "run_init", "run_wo_init") and len(sample) < 5:
            sample.append(dict(packaging=j["kind"], macro=j["macro"], detail=j["desc"], module=j["src"][j["src"].find("}} }") + 4:][:1800]))
    sample += [dict(packaging=j["kind"], macro=j["macro"], detail=j["desc"], program=j["program_text"][:2500]) for j in big_jobs[2:3]]
    sample += asamples
    return dict(evaluations=evals, distinct_nontrivial=len(distinct) + attr_stats["scripts_where_an_attribute_is_observable"],
                rule="random logical programs (1/4 without interpreted functions, 1/2 C01-style, 1/4 stratified with aggregates / negation; plus the family `wo`: programs with initialised WRITE-ONLY relations whose initial rows are derived again, half of them with write-only relations declared `lattice`) x 2 inputs, each rendered as 14-20 packagings (base, ascent_run! / ascent_run_par! with captured locals as initialisers or in rule bodies, only the write-only relations initialised, a random part of the relations initialised, ascent_par!, include_source! start / middle / end / two / adjacent / whole, initialisers via Default, re-declarations, generic signature, all tokens re-spanned to one span by a helper proc macro (alone and with includes), measure_rule_times, generate_run_timeout with run() and run_timeout(MAX), all combined), whole crate built with and without ascent/segment-codegen; every relation compared (set of rows AND number of rows: one row per derivable tuple, one row per key of a lattice) with the specification oracle of the logical program; non-trivial = the logical program derives at least one fact on that input; distinct = distinct (packaging job, script, feature).  Family `big` (gen/c09_big.py): 6 (thorough 30) of the logical programs each rendered under ascent! / ascent_par! / ascent_run! / ascent_run_par! as a program of 21-64 relation / lattice declarations (unused filler relations with random names, 1-4 relations declared 2 or 3 times with DECOY initialisers holding an underivable tuple in the overridden declarations, declaration order random / sorted by name / reverse-sorted / sorted with the re-declarations at the end, 0-2 segments moved into include_source! sources); the last declaration decides the input of a relation; every relation compared (fillers: exactly the rows of the initialiser of their last declaration).  Family `opt` (gen/c09_dead.py): 8 (thorough 24) stratified programs in which 1-2 aggregated / negated relations are optional inputs that never receive a tuple (no initialiser, no producer or only producers that cannot fire; count / sum / min / max / negation over them, downstream readers), rendered with every relation without input declared BARE under ascent_run! (initialisers / rules over captured locals for the others), ascent_run_par!, ascent! / ascent_par! (fields never touched), include_source! of a library holding the bare declarations and all rules, and with count / sum / negation spelled as user aggregators; the two ascent_run! forms also for every ordinary program with a relation without input; expected = the specification of the logical program (count = 0, sum = 0, not() holds over an empty relation).  Family `attrs`: programs with program-level inner attributes (#![ds(eqrel | trrel | trrel_uf | ascent::rel)], measure_rule_times, generate_run_timeout, inter_rule_parallelism) x include placement (pasted, first item: part / all / two adjacent / first + later, middle, end) x signature present / absent x ascent! / ascent_par! / ascent_run! / ascent_run_par!, feature-less build; observables: plain relations (sets + row counts) vs the specification oracle of the explicit-closure program, run_timeout(Duration::MAX) compiles and returns true, per-rule part of scc_times_summary(); non-trivial there = an attribute is observable in the script (measure / timeout present, or the closure reading differs from the plain reading on that input)",
                samples=sample, distribution=dict(programs=len(results), packaging_jobs=kinds, scripts_agreeing=okc, macros=macros,
                                                  pure_programs=sum(1 for r in results if c09_pack.is_pure(r["case"]["prog"])),
                                                  with_aggregates=sum(1 for r in results if r["case"]["prog"].get("shape") == "stratified"),
                                                  write_only_family=wo_stats, attrs_family=attr_stats,
                                                  opt_family=c09_dead.stats(opt_cases, opt_jobs, {k_: v for k_, v in okc.items() if k_.startswith("d_")}),
                                                  big_family=dict(c09_big.stats(big_jobs), declaration_lists_evaluated_in_the_model=nbm)),
                mismatches=mism,
                trusted_base=["family attrs: gen/c09_attrs.py renders the packagings and abstracts each to the token shape of Pack/PackAttrModel.v (attributes, signature, one token per item, includes and sources); the closure semantics of the providers (C10 / C11 / C12's subject) enters through the explicit-closure program given to the specification oracle",
                              "gen/c09_pack.py renders the packagings (a wrong rendering shows as a false alarm, not as a silent pass: the expected answer comes from the logical program alone)",
                              "FRONT hook + gen/dl.py plan translation + Engine/Eval.v model for the base packaging; specification oracle strat_fix / naive_fix evaluated inside Coq",
                              "rustc, cargo feature resolution, macro_rules expansion and span identity are exercised, not modelled: Pack/PackModel.v states the splice / last-wins / timeout-guard logic on token lists and declaration lists",
                              "Pack/PackModel.v ascent_run_code (initialisers assigned, ONE index build, SCCs) is tied to the generated ascent_run! block on the packagings whose initialisers are the whole input (run_init, run_wo_init of programs fed by fact rules): rows compared with the model's as set + count, through the proved c09_init_is_input; lattice views are compared with the specification only (write-only lattice = one row per key holding the max of the derivable values)"],
                assumptions=["family opt: the user aggregators c09_size / c09_total / c09_none of gen/c09_dead.py are taken to mean count / sum / not (they are three one-line functions of the generated module)",
                             "column values are small i32 / i64; the generic packagings instantiate T with i32 or i64",
                             "ascent_run! programs receive their input through initialisers or rule bodies over captured locals (the two documented ways)"],
                extra=dict(cases_skipped_model_too_slow=nskipped, packaging_jobs=len(jobs)))
