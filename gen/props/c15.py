"""C15 — ill-formed programs are rejected at compile time, never miscompiled.

Coq model Check/CheckModel.v (check / invoke) under Check/AttrPaths.v (sp_check / sp_invoke: the same stages on a text whose
attributes are spelled — path and argument form — at every position), theorems Props/C15.v.  Tie: well-formed generated programs and
single-violation mutants, under the four macro kinds, through the real front end in-process (FRONT: `ascent_impl`),
compared with (a) the class the injected violation has by construction (python oracle) and (b) the model's verdict
evaluated inside Coq; a sample through real rustc (generated crates) for "reported at the program" and for the
classes that exist only at that level — among them the whole family gen/c15_nest.py (include_source! nested in an ascent_source! body, at
every item position of the body: decided by ascent_source! when the source is defined; model Check/NestedInclude.v)."""
import copy
import json
import os
import re

from .. import c15_ast as A
from .. import c15_gen as G
from .. import c15_ctx as C
from .. import c15_attrs as SP
from .. import c15_nest as NE
from .. import lib, prog

PROP = "C15"
PROP_FILE = "Props/C15.v"
# The model's parameter "pattern_get_vars has an arm for Pat::Paren" is CheckModel.pattern_get_vars_traverses_paren (the
# value for the code under verification).  C15_PATTERN_PAREN=true|false overrides it for an experiment against a
# scratch worktree (VERIF_REPO) in which the arm was added; the committed value is the one line in CheckModel.v.
PAREN_OVERRIDE = os.environ.get("C15_PATTERN_PAREN", "").strip().lower()
if PAREN_OVERRIDE not in ("", "true", "false"):
    raise lib.Infra("C15_PATTERN_PAREN must be true or false")
PRELUDE = ("From Coq Require Import List.\nFrom AV Require Import Check.CheckModel.\nFrom AV Require Import Check.PatCtxModel.\n"
           "From AV Require Import Check.AttrPaths.\nImport ListNotations.\n"
           "Definition c15_pp : bool := %s.\n"
           "Definition pvi (p : xpat ident) : list ident := xpat_vars ident_eqb c15_pp p.\n"
           "Definition pvn (p : xpat nat) : list nat := xpat_vars Nat.eqb c15_pp p.\n"
           "Definition c15_late : counters := map (fun i => (Base i, 3)) (seq 0 60).\n"
           # the text with its attributes as they are SPELLED (Check/AttrPaths.v): path + argument form, at every position
           "Definition c15_run (T : stext) := (map (fun k => (sp_invoke [] T k, sp_check [] T k, sp_check c15_late T k)) [KAscent; KAscentPar; KAscentRun; KAscentRunPar], offenders [] (sp_program T)).\n"
           % (PAREN_OVERRIDE or "pattern_get_vars_traverses_paren"))
KNOWN_PAREN = "paren_pattern_escapes_shadow_check"
CORPUS = os.path.join(lib.VERIF, "corpus", "C15.jsonl")

MSG_CLASSES = [
    (r"^relation `(\w+)` is not defined$", "undeclared"),
    (r"^wrong arity for relation `(\w+)` \(expected (\d+), found (\d+)\)$", "arity"),
    (r"^`(\w+)` shadows another variable with the same name$", "shadow"),
    (r"^aggregated variable `(\w+)` is not an argument of relation `(\w+)`$", "agg_unbound"),
    (r"^use of aggregated relation `(\w+)` cannot be stratified$", "not_stratified"),
    (r"^recursively defined Ascent macro$", "recursive_macro"),
    (r"^undefined macro$", "undefined_macro"),
    (r"^expected more arguments$|^unexpected token$", "macro_args"),
    (r"^unexpected token in attribute$", "flag_args"),
    (r"^expected attribute arguments in parentheses: `ds\(\.\.\.\)`$|^expected `\(`$", "ds_not_list"),
    (r"^expected |^unexpected end of input, expected ", "syntax"),
    (r"^unexpected attribute\(s\)$", "unexpected_attr"),
    (r"^unrecognized attribute\.", "unknown_attr"),
    (r"^attribute only allowed in parallel Ascent$", "irp_serial"),
    (r"^multiple `ds` attributes specified$", "multiple_ds"),
    (r"^`lattice`s cannot have custom data structure providers$", "ds_on_lattice"),
    (r"empty lattice is not allowed$", "empty_lattice"),
    (r"`ascent_source`s cannot contain `include_source!`", "include_in_source"),
    # rustc on an attribute the macro handed to the generated struct / struct field: a single identifier it does not know,
    # a path whose first segment is no module or crate, a path into the crate `ascent` that names nothing
    (r"^cannot find attribute `\w+` in this scope", "rustc_unknown_rel_attr"),
    (r"^cannot find (module or crate )?`\w+` in (this scope|the crate root|`\w+`)|^failed to resolve", "rustc_unknown_rel_attr"),
    (r"^proc macro panicked", "panic"),
]
MODEL_CLASS = {
    "EUnexpectedAttr": "unexpected_attr", "EEmptyLattice": "empty_lattice", "EIncludeInSource": "include_in_source",
    "EUndefinedMacro": "undefined_macro", "EMacroArgs": "macro_args", "EMacroSyntax": "syntax",
    "ERecursiveMacro": "recursive_macro", "EUndeclared": "undeclared", "EArity": "arity", "EShadow": "shadow", "EAggVar": "agg_unbound",
    "EUnknownAttr": "unknown_attr", "EInterRuleSerial": "irp_serial", "EMultipleDsProg": "multiple_ds",
    "EMultipleDs": "multiple_ds", "EDsOnLattice": "ds_on_lattice", "ENotStratified": "not_stratified",
    # Check/AttrPaths.v serr: the argument form of a recognised attribute
    "SFlagArgs": "flag_args", "SDsNotList": "ds_not_list", "SDsContents": "syntax",
}


def classify_message(msg):
    for rx, cls in MSG_CLASSES:
        m = re.search(rx, msg)
        if m:
            g = m.groups()
            if cls == "arity":
                return cls, [g[0], int(g[1]), int(g[2])]
            if cls == "agg_unbound":
                return cls, [g[0], g[1]]
            if cls in ("undeclared", "shadow", "not_stratified"):
                return cls, g[0]
            return cls, None
    return "other:" + msg[:60], None


def impl_verdict(o):
    """canonical verdict of one FRONT record"""
    st = o["status"]
    if st == "ok":
        return ["deferred"] if o.get("include_source") else ["ok"]
    if st == "panic":
        return ["panic", o.get("panic", "")[:80]]
    if st == "err":
        cls, det = classify_message(o["errors"][0])
        return ["err", cls, det]
    return [st]


def ident_name(t, rev):
    if isinstance(t, list) and t[0] == "Base":
        return rev.get(t[1], "?%d" % t[1])
    if isinstance(t, list) and t[0] == "Suf":
        return ident_name(t[1], rev) + "_" + (str(t[2]) if t[2] else "")
    return str(t)


def model_verdict(v, N):
    if v in ("Accept", "SAccept"):
        return ["ok"]
    if v in ("Deferred", "SDeferred"):
        return ["deferred"]
    if v in ("Panics", "SPanics"):
        return ["panic"]
    assert v[0] in ("Reject", "SReject"), v
    e = v[1]
    if v[0] == "SReject" and not isinstance(e, str):
        assert e[0] == "SBase", v
        e = e[1]
    name = e if isinstance(e, str) else e[0]
    cls = MODEL_CLASS[name]
    relname = {i: n for n, i in N.rel.d.items()}
    varname = {i: n for n, i in N.var.d.items()}
    det = None
    if name == "EUndeclared":
        det = relname[e[1]]
    elif name == "EArity":
        det = [relname[e[1]], e[2], e[3]]
    elif name == "EShadow":
        det = ident_name(e[1], varname)
    elif name == "EAggVar":
        det = [ident_name(e[1], varname), relname[e[2]]]
    elif name == "ENotStratified":
        det = relname[e[1]]
    return ["err", cls, det]


def same_verdict(impl, model, offenders=None):
    """model vs implementation: class and payload; for the stratification error the implementation may name any offender"""
    if impl[0] != model[0]:
        return False
    if impl[0] == "panic":
        return True
    if impl[0] != "err":
        return True
    if impl[1] != model[1]:
        return False
    if impl[1] == "not_stratified":
        return offenders is None or impl[2] in offenders
    return impl[2] == model[2]


# ------------------------------------------------------------------ oracle (independent of the model)

def oracle_invoke_level(p):
    """what ONE invocation of the macro sees before anything else: a parse-level violation, or an include_source!"""
    for it in p["items"]:
        if it[0] in ("rule", "macro", "include") and A.item_attrs(it):
            return "err:unexpected_attr"
        if it[0] == "rel" and it[3] and not it[2]:
            return "err:empty_lattice"
        if it[0] == "include":
            return "deferred"
    return None


def spec_for(case, kind, level):
    """the verdict the property demands: 'ok' | 'deferred' | set of admissible 'err:<class>'"""
    exps = case["expect"]
    if level == "rustc" and any(e["cls"] == "rustc_unknown_rel_attr" for e in exps):
        return {"err:rustc_unknown_rel_attr"}
    if level == "invoke":
        early = oracle_invoke_level(case["program"])
        if early == "deferred":
            return {"deferred"}
        if early and len(exps) <= 1:
            return {early}
    if any(e.get("any_of") for e in exps):
        # a construct the property does not speak about (a KNOWN flag repeated with arguments): nothing is demanded,
        # the implementation is compared with the model only
        return set(x for e in exps for x in (e.get("any_of") or [G.expected_for_kind(e, kind)]))
    want = set(G.expected_for_kind(e, kind) for e in exps)
    errs = set(w for w in want if w != "ok")
    return errs if errs else {"ok"}


def verdict_tag(v):
    if v[0] == "err":
        return "err:" + v[1]
    return v[0]


def hidden_rebinding(case, kind=None):
    """every violation of the case (under this macro kind) is a rebinding through a parenthesised sub-pattern"""
    exps = [e for e in case["expect"] if e["cls"] != "ok" and (kind is None or G.expected_for_kind(e, kind) != "ok")]
    return bool(exps) and all(e["cls"] == "shadow" and e.get("hidden") for e in exps)


def known_class(case, impl, kind=None):
    if impl[0] in ("ok", "compiled", "no_shadow_error") and hidden_rebinding(case, kind):
        # pattern_get_vars has no Pat::Paren arm: the rebinding is invisible to the shadowing check
        return KNOWN_PAREN
    if impl[0] == "err" and impl[1] == "shadow":
        # the other face of the capture: the generated identifier collides with a later binder of the user's variable
        caps = [e.get("capture") for e in case["expect"] if e.get("capture")]
        if caps and all(e["cls"] == "ok" for e in case["expect"]) and impl[2] == caps[0]["clash"]:
            return "fresh_ident_capture_panics"
    if impl[0] == "panic":
        exps = case["expect"]
        if kind:      # a class that is no violation under this macro kind (inter_rule_parallelism in a parallel macro) does not count
            exps = [e for e in exps if e["cls"] == "ok" or G.expected_for_kind(e, kind) != "ok"] or exps
        if any(e.get("capture") for e in exps) and all(e["cls"] == "ok" for e in exps):
            return "fresh_ident_capture_panics"
        if any(e["cls"] == "agg_unbound" for e in exps) and all(e["cls"] in ("agg_unbound",) for e in exps):
            return "agg_var_not_an_argument_panics"
    return None


# ------------------------------------------------------------------ cases

STATS = {}


def gen_cases(tier, seed):
    rng = lib.rng_for(seed, PROP)
    nbase = 125 if tier == "quick" else 1600
    names = sorted(G.MUTATIONS)
    weights = [G.MUTATIONS[n][1] for n in names]
    cases = []
    skipped = 0
    for b in range(nbase):
        base, info = G.base_program(rng, "b%d" % b)
        try:          # gen/gen_dl.py is shared and grows: a construct this tie cannot render yet is skipped, and counted
            A.rust_text(base)
            A.coq_program(base)
        except (ValueError, KeyError, IndexError, TypeError) as e:
            skipped += 1
            if skipped > nbase // 10:
                raise lib.Infra("gen/c15_ast.py cannot render the programs of gen/gen_dl.py any more: %r" % (e,))
            continue
        cases.append(dict(id="b%d" % b, program=base, expect=[dict(cls="ok", detail=None)], mutation="none", info=info))
        nm = rng.choice([1, 2, 2, 3])
        for m in range(nm):
            name = rng.choices(names, weights)[0]
            try:
                mp, exp = G.mutate(rng, base, name)
            except (G.NoSite, IndexError):
                continue
            exps = [exp]
            mut = name
            if rng.random() < 0.12:          # two violations: which one is reported first is the model's business
                name2 = rng.choices([n for n in names if n != name], [G.MUTATIONS[n][1] for n in names if n != name])[0]
                try:
                    mp2 = copy.deepcopy(mp)
                    f = G.MUTATIONS[name2][0]
                    exp2 = f(rng, mp2)
                    mp, exps, mut = mp2, [exp, exp2], name + "+" + name2
                except (G.NoSite, IndexError, KeyError, TypeError):
                    pass
            cases.append(dict(id="b%dm%d" % (b, m), program=mp, expect=exps, mutation=mut, info=info))
        if info["rustc_ok"] and rng.random() < 0.1:
            for name in sorted(G.RUSTC_ONLY):     # classes rejected only at the level of rustc / of the source's own macro
                try:
                    mp, exp = G.mutate(rng, base, name)
                    cases.append(dict(id="b%dr%s" % (b, name[:4]), program=mp, expect=[exp], mutation=name, info=info,
                                      no_splice=(name == "include_in_source")))
                except (G.NoSite, ValueError, IndexError):
                    pass
        if rng.random() < 0.08:
            # capture of a user variable by a generated identifier: fresh names per macro kind (process-wide counter)
            for ki, kind in enumerate(A.KINDS):
                mp, exp = G.mutate(rng, base, "capture", "%dk%d" % (b, ki))
                cases.append(dict(id="b%dc%d" % (b, ki), program=mp, expect=[exp], mutation="capture", info=info, only_kind=kind))
    STATS["skipped_bases"] = skipped
    cases += ctx_cases(tier, seed, [c for c in cases if c["mutation"] == "none"])
    cases += attr_cases(tier, seed, [c for c in cases if c["mutation"] == "none"])
    # the systematic family 'the POSITION of an include_source! nested in an ascent_source! body' (gen/c15_nest.py): decided by
    # ascent_source! when the source is defined, which no invocation of ascent_impl sees -> every case of it goes through rustc
    cases += NE.cases(lib.rng_for(seed, PROP, "nest"), tier, [c for c in cases if c["mutation"] == "none"], A.KINDS)
    return cases


def attr_cases(tier, seed, bases):
    """the systematic family 'the SPELLING of an attribute' (gen/c15_attrs.py): every attribute position of the model x every
    path form (identifier, 2-3 segments, leading `::`) x made-up name / each recognised name as last segment x every argument
    form; the recognised names themselves in every argument form; hosts rotate over the generated well-formed programs.
    A few of them go through rustc on every run (rustc_always): a path attribute at the program, on a relation, on the
    signature, on a rule, and `ds` written with another delimiter (which must compile)"""
    rng = lib.rng_for(seed, PROP, "attrs")
    if not bases:
        return []
    plan = SP.plan(rng, tier)
    out = []
    start = rng.randrange(len(bases))
    want_rustc = dict(prog_path=1, prog_args=1, rel_path=1, sig_path=1, rule_path=1, ds_delim=1)
    for i, (pos, attr) in enumerate(plan):
        for t in range(len(bases)):
            base = bases[(start + i + t) % len(bases)]
            if pos in ("include", "src_rel", "src_rule") and base["program"].get("sources"):
                continue              # one include_source! per program keeps the invocation levels of the oracle simple
            try:
                mp, exp = SP.inject(rng, base["program"], pos, attr)
                A.rust_text(mp)
                A.coq_program(mp)
            except (SP.NoSite, IndexError):
                continue
            c = dict(id="a%d" % i, program=mp, expect=[exp], mutation="sp_" + pos, info=base["info"])
            # the rustc sample of this family
            sp = exp["spelling"]
            key = None
            if base["info"]["rustc_ok"] and not base["program"].get("sources"):
                if pos == "prog" and exp["cls"] == "unknown_attr":
                    key = "prog_path" if sp["path"] != "ident" else ("prog_args" if sp["args"] != "none" else None)
                elif pos in ("rel", "lat") and exp["cls"] == "rustc_unknown_rel_attr" and sp["path"] != "ident":
                    key = "rel_path"
                elif pos == "sig" and sp["path"] != "ident":
                    key = "sig_path"
                elif pos == "rule" and sp["path"] != "ident":
                    key = "rule_path"
                elif pos == "rel" and exp["cls"] == "ok" and sp["args"] in ("[", "{"):
                    key = "ds_delim"
            if key and want_rustc.get(key):
                want_rustc[key] -= 1
                c["rustc_always"] = True
            out.append(c)
            break
    for j in range(6 if tier == "quick" else 60):
        base = bases[(start + j) % len(bases)]
        mp, exp = SP.shadowed_flag(rng, base["program"])
        out.append(dict(id="af%d" % j, program=mp, expect=[exp], mutation="sp_flag_twice", info=base["info"]))
    return out


def ctx_cases(tier, seed, bases):
    """the systematic family 'every constructor of the model's pattern syntax as a context of the variable that is bound
    twice' (gen/c15_ctx.py): exhaustive at depth 1 (every frame x every binder position x {the rebinding binder, the first
    binder} sits below it), every leaf, every ordered pair of constructors at depth 2, random deeper stacks; the host rules
    rotate over the generated well-formed programs (any clause position, the rebinding last or followed by clauses)"""
    cons = C.check_against_model()
    rng = lib.rng_for(seed, PROP, "ctx")
    plan = []
    for f in C.FRAME_LIST:
        for form in G.CTX_FORMS:
            for which in ("second", "first"):
                plan.append(([f], "ident", form, which))
    for leaf in sorted(C.LEAVES):
        for form in G.CTX_FORMS:
            fr = [rng.choice(C.FRAME_LIST)]
            plan.append((fr, leaf, form, "second"))
    reach = [c for c in cons if C.FRAMES[c]]
    for a in reach:
        for b in reach:
            plan.append(([rng.choice(C.FRAMES[a]), rng.choice(C.FRAMES[b])], rng.choice(sorted(C.LEAVES)), rng.choice(G.CTX_FORMS),
                         rng.choice(["second", "first", "both"])))
    for _ in range(24 if tier == "quick" else 600):
        form = rng.choice(G.CTX_FORMS)
        frames, leaf = C.random_context(rng, form, False, depth=rng.choice([3, 3, 4, 5]))
        plan.append((frames, leaf, form, rng.choice(["second", "first", "both"])))
    STATS["ctx_unreachable_constructors"] = sorted(c for c in cons if not C.FRAMES[c])
    if not bases:
        return []
    out = []
    start = rng.randrange(len(bases))
    for i, (frames, leaf, form, which) in enumerate(plan):
        for t in range(len(bases)):
            base = bases[(start + i + t) % len(bases)]
            try:
                mp = copy.deepcopy(base["program"])
                exp = G.mut_shadow_ctx(rng, mp, form=form, frames=frames, leaf=leaf, which=which, site=["last", "middle", "random"][i % 3])
                A.rust_text(mp)
                A.coq_program(mp)
            except (G.NoSite, IndexError):
                continue
            out.append(dict(id="x%d" % i, program=mp, expect=[exp], mutation="shadow_ctx", info=base["info"]))
            break
    return out


def front_records(cases):
    recs = []
    for c in cases:
        kinds = [c["only_kind"]] if c.get("only_kind") else A.KINDS
        text = A.rust_text(c["program"])
        stext = A.rust_text(A.spliced(c["program"])) if oracle_invoke_level(c["program"]) == "deferred" and not c.get("no_splice") else None
        for k in kinds:
            recs.append(("%s.%s.i" % (c["id"], k), k, text))
            if stext is not None:
                recs.append(("%s.%s.s" % (c["id"], k), k, stext))
    return recs


def run_model(cases):
    exprs, names = [], []
    for c in cases:
        term, N = A.coq_program(c["program"])
        exprs.append("c15_run (%s)" % term)
        names.append(N)
    # a run against a scratch worktree (VERIF_REPO) or a replay must not overwrite the case files of a run on /repo going on at the same time
    tag = PROP + ("" if lib.REPO == "/repo" else "_" + __import__("hashlib").sha1(lib.REPO.encode()).hexdigest()[:8]) + ("_r%d" % os.getpid() if len(cases) == 1 else "")
    vals = lib.coq_eval(tag, PRELUDE, exprs, per_shard=60)
    out = []
    for c, N, v in zip(cases, names, vals):
        per_kind, offs = v
        relname = {i: n for n, i in N.rel.d.items()}
        res = {}
        for k, (inv, chk, late) in zip(A.KINDS, per_kind):
            res[k] = dict(invoke=model_verdict(inv, N), check=model_verdict(chk, N), late=model_verdict(late, N))
        out.append(dict(kinds=res, offenders=sorted(set(relname[r] for (_, r) in offs))))
    return out


# ------------------------------------------------------------------ rustc sample

def rustc_job(jid, p, kind):
    """a job whose `pre` holds the program under test (the harness's own program is a dummy)"""
    q = copy.deepcopy(p)
    ren = {}
    for name in list(q.get("sources", {})):
        ren[name] = "%s_%s" % (name, jid)
    q["sources"] = {ren[n]: [(("include", it[1], ren.get(it[2], it[2])) if it[0] == "include" else it) for it in items] for n, items in q["sources"].items()}
    q["items"] = [(("include", it[1], ren.get(it[2], it[2])) if it[0] == "include" else it) for it in q["items"]]
    lines = []
    src = A.rust_source_defs(q)
    if src:
        lines += src.split("\n")
    body = [A.pattr_text(a) for a in q["attrs"]] + A.sig_lines(q, "C15Prog")
    if kind in ("ascent", "ascent_par"):
        lines.append("ascent::%s! {" % kind)
        lines += body + [A.rust_item_line(i) for i in q["items"]]
        lines.append("}")
    else:
        lines.append("pub fn c15_entry() { let _r = ascent::%s! {" % kind)
        lines += body + [A.rust_item_line(i) for i in q["items"]]
        lines.append("}; }")
    return dict(id=jid, text="relation c15_dummy(i32);", macro="ascent", rels=[("c15_dummy", 1, "rel")],
                scripts=[[("run",)]], pre="\n".join(lines), nlines=len(lines))


def rustc_sample(tier, seed, cases):
    """[(job, case, kind, admissible verdicts)] — well-formed programs that must compile, one mutant of every class
    (listed classes first) that must fail with the class's message located inside the program text, the classes that
    exist only at this level, and the two panic witnesses"""
    rng = lib.rng_for(seed, PROP, "rustc")
    n = 20 if tier == "quick" else 120
    ok_bases = [c for c in cases if c["mutation"] == "none" and c["info"]["rustc_ok"]]
    muts = [c for c in cases if c["mutation"] != "none" and "+" not in c["mutation"] and c["info"]["rustc_ok"] and not c.get("rustc_nest")
            and not any(e.get("any_of") for e in c["expect"])]      # constructs the property does not speak about: FRONT vs model only
    rng.shuffle(ok_bases)
    rng.shuffle(muts)
    # well-formed programs whose binders bind NEW variables below stacks of pattern constructors: two of them in every sample
    first = [c["id"] for c in ok_bases if c["info"].get("contexts")][:2]
    ok_bases = [c for c in ok_bases if c["id"] in first] + [c for c in ok_bases if c["id"] not in first]
    order = sorted(set(c["mutation"] for c in muts), key=lambda m: (m not in G.RUSTC_ONLY, not G.MUTATIONS.get(m, (0, 0, False))[2], m))
    nb = max(3, n // 5)
    picks, per = [], 0
    while len(picks) < n - nb and per < 40:
        for mname in order:
            cs = [c for c in muts if c["mutation"] == mname]
            if per < len(cs) and len(picks) < n - nb:
                picks.append(cs[per])
        per += 1
    # witnesses that go through rustc on every run (the seeded attribute shape, the known finding)
    picks = [c for c in cases if c.get("rustc_always")] + [c for c in picks if not c.get("rustc_always")]
    jobs = []
    for c in ok_bases[:nb]:
        k = rng.choice(A.KINDS)
        jobs.append((rustc_job("w%s" % c["id"], c["program"], k), c, k, {"ok"}))
    for c in picks:
        k = c.get("only_kind") or rng.choice(A.KINDS)
        jobs.append((rustc_job("x%s" % c["id"], c["program"], k), c, k, spec_for(c, k, "rustc")))
    return jobs


def nest_jobs(cases):
    """every case of the nested-include family, under its macro kind"""
    return [(rustc_job("x%s" % c["id"], c["program"], c["only_kind"]), c, c["only_kind"], spec_for(c, c["only_kind"], "rustc"))
            for c in cases if c.get("rustc_nest")]


def run_rustc(tag, jobs):
    # jobs expected to compile share one crate; jobs expected to fail go in small crates, one binary each, so that the
    # harness's blame-and-rebuild loop converges in a couple of cargo runs
    good = [j for j, _, _, want in jobs if want == {"ok"}]
    bad = [j for j, c, _, want in jobs if want != {"ok"} and not c.get("rustc_nest")]
    nest = [j for j, c, _, want in jobs if want != {"ok"} and c.get("rustc_nest")]
    res = {}
    if good:
        res.update(prog.build_and_run(tag + "_ok", good, nbins=min(lib.NCPU, max(1, len(good) // 2))))
    for i in range(0, len(bad), 16):
        chunk = bad[i:i + 16]
        res.update(prog.build_and_run("%s_x%d" % (tag, i // 16), chunk, nbins=len(chunk)))
    # the nested-include family: every job must fail while its ascent_source! is EXPANDED (rustc reports the errors of all the
    # expansions of a binary in one run), so many jobs share a binary; a job that is not rejected stays and is built (and run) next
    for i in range(0, len(nest), 160):
        chunk = nest[i:i + 160]
        res.update(prog.build_and_run("%s_n%d" % (tag, i // 160), chunk, nbins=min(8, max(1, len(chunk) // 10))))
    out = []
    for j, c, k, want in jobs:
        r = res[j["id"]][0]
        if "compile_error" in r:
            msgs = []
            for line in r["compile_error"].splitlines():
                m = re.match(r"\S+?:(\d+):(\d+): error(?:\[\w+\])?: (.*)", line)
                if m:
                    cls, det = classify_message(m.group(3))
                    msgs.append(dict(line=int(m.group(1)), cls=cls, detail=det, text=m.group(3)[:120]))
            out.append(dict(job=j, case=c, kind=k, want=sorted(want), compiled=False, errors=msgs))
        else:
            out.append(dict(job=j, case=c, kind=k, want=sorted(want), compiled=True, errors=[], result=r))
    return out


# ------------------------------------------------------------------ tie

def load_corpus():
    if not os.path.exists(CORPUS):
        return []
    return [json.loads(l) for l in open(CORPUS) if l.strip()]


def tie(tier, seed, replay):
    replay_rustc = None
    if replay:
        rc = json.load(open(replay))["case"]
        c = dict(rc["case"] if "case" in rc else rc)
        c["only_kind"] = c.get("only_kind") or c.get("kind")
        c.setdefault("id", "replay")
        cases = [c]
        if c.get("level") == "rustc":
            replay_rustc = [(rustc_job("replay", c["program"], c["only_kind"]), c, c["only_kind"], spec_for(c, c["only_kind"], "rustc"))]
    else:
        cases = load_corpus() + gen_cases(tier, seed)
    recs = front_records(cases)
    # the corpus witnesses of the process-wide counter need a fresh process: they come first, one name each
    front = prog.front_run(recs)
    model = run_model(cases)
    mism, dist, samples = [], {}, []
    nontrivial = set()
    nfront = 0
    for c, m in zip(cases, model):
        kinds = [c["only_kind"]] if c.get("only_kind") else A.KINDS
        dist[c["mutation"]] = dist.get(c["mutation"], 0) + len(kinds)
        for k in kinds:
            if c["mutation"] != "capture" and m["kinds"][k]["check"] != m["kinds"][k]["late"]:
                # only programs using identifiers spelled like generated ones may depend on the process-wide counter
                mism.append(dict(case=dict(case=dict(id=c["id"], kind=k, level="check", mutation=c["mutation"], expect=c["expect"], program=c["program"],
                                                     text=A.rust_text(c["program"]))), impl=None, model=[m["kinds"][k]["check"], m["kinds"][k]["late"]],
                                 spec=None, kind="model_differs", known=None,
                                 what="the model's verdict depends on the state of the fresh-identifier counter for a program without clashing identifiers (%s)" % c["mutation"]))
            levels = [("i", "invoke", c["program"])]
            if oracle_invoke_level(c["program"]) == "deferred" and not c.get("no_splice"):
                levels.append(("s", "check", A.spliced(c["program"])))
            for suffix, level, pr in levels:
                o = front["%s.%s.%s" % (c["id"], k, suffix)]
                nfront += 1
                iv = impl_verdict(o)
                mv = m["kinds"][k][level]
                want = spec_for(c, k, level)
                small = dict(id=c["id"], kind=k, level=level, mutation=c["mutation"], expect=c["expect"], program=c["program"],
                             text=A.rust_text(pr), only_kind=c.get("only_kind"), no_splice=c.get("no_splice"))
                if verdict_tag(iv) not in want:
                    mism.append(dict(case=dict(case=small), impl=iv, model=mv, spec=sorted(want), kind="impl_violates_spec",
                                     known=known_class(c, iv, k),
                                     what="%s! on a %s program (%s): the property demands %s, ascent_impl returned %s" % (
                                         k, "well-formed" if want == {"ok"} else "mutated", c["mutation"], sorted(want), iv)))
                elif len(c["expect"]) == 1 and iv[0] == "err" and c["expect"][0].get("detail") is not None \
                        and iv[1] == c["expect"][0]["cls"] and iv[1] in ("undeclared", "arity", "shadow", "agg_unbound") and iv[2] != c["expect"][0]["detail"]:
                    mism.append(dict(case=dict(case=small), impl=iv, model=mv, spec=c["expect"], kind="impl_violates_spec", known=None,
                                     what="%s!: error of the right class but about %s instead of the injected %s" % (k, iv[2], c["expect"][0]["detail"])))
                if not same_verdict(iv, mv, m["offenders"]):
                    mism.append(dict(case=dict(case=small), impl=iv, model=mv, spec=sorted(want), kind="model_differs", known=None,
                                     what="correspondence Check/CheckModel.v %s vs ascent_impl (%s!, %s): model %s, implementation %s" % (
                                         level, k, c["mutation"], mv, iv)))
                if iv[0] != "ok":
                    nontrivial.add((verdict_tag(iv), json.dumps(c["program"], sort_keys=True, default=str), k))
                if len(samples) < 40 and (len(samples) < 3 or c["mutation"] not in [s["mutation"] for s in samples]):
                    samples.append(dict(mutation=c["mutation"], kind=k, text=A.rust_text(pr)[:600], impl=iv, model=mv, spec=sorted(want)))
    # rustc level
    rjobs = (rustc_sample(tier, seed, [c for c in cases if "info" in c]) + nest_jobs(cases)) if not replay else (replay_rustc or [])
    # crates of a run against a scratch worktree (VERIF_REPO) get their own directory: a run on /repo at the same time must not overwrite them
    rtag = "c15_%s" % tier if lib.REPO == "/repo" else "c15_%s_%s" % (tier, __import__("hashlib").sha1(lib.REPO.encode()).hexdigest()[:8])
    rres = run_rustc(rtag, rjobs) if rjobs else []
    rdist = {}
    model_by_id = {c["id"]: m for c, m in zip(cases, model)}
    for r in rres:
        c, want = r["case"], set(r["want"])
        key = "compiled" if r["compiled"] else "rejected"
        rdist[c["mutation"] + ":" + key] = rdist.get(c["mutation"] + ":" + key, 0) + 1
        small = dict(id=c["id"], kind=r["kind"], level="rustc", mutation=c["mutation"], expect=c["expect"], program=c["program"],
                     text=r["job"]["pre"], only_kind=c.get("only_kind"), no_splice=c.get("no_splice"), rustc_nest=c.get("rustc_nest"))
        got = ["compiled"] if r["compiled"] else ["rejected"] + [[e["line"], e["cls"], e["detail"]] for e in r["errors"][:3]]
        panicked = any(e["cls"] == "panic" for e in r["errors"])
        known = known_class(c, ["panic"], r["kind"]) if panicked else None
        for e in r["errors"]:
            if known is None and e["cls"] == "shadow":
                known = known_class(c, ["err", "shadow", e["detail"]], r["kind"])
        mv = model_by_id[c["id"]]["kinds"][r["kind"]]["check"]
        classes = set("err:" + e["cls"] for e in r["errors"])
        hidden = hidden_rebinding(c, r["kind"])
        # model (macro level) vs rustc (the Rust typing of a rule that rebinds a variable is outside the model: when the
        # macro lets a hidden rebinding through, rustc may or may not accept what it generated)
        if mv[0] == "ok" and not r["compiled"] and want != {"err:rustc_unknown_rel_attr"} and not hidden:
            mism.append(dict(case=dict(case=small), impl=got, model=mv, spec=sorted(want), kind="model_differs", known=None,
                             what="correspondence Check/CheckModel.v check vs rustc (%s!, %s): model accepts, rustc rejects: %s" % (r["kind"], c["mutation"], got)))
        if mv[0] == "err" and verdict_tag(mv) not in classes:
            mism.append(dict(case=dict(case=small), impl=got, model=mv, spec=sorted(want), kind="model_differs", known=None,
                             what="correspondence Check/CheckModel.v check vs rustc (%s!, %s): model %s, rustc %s" % (r["kind"], c["mutation"], mv, got)))
        if mv[0] == "panic" and not panicked:
            mism.append(dict(case=dict(case=small), impl=got, model=mv, spec=sorted(want), kind="model_differs", known=None,
                             what="correspondence Check/CheckModel.v check vs rustc (%s!, %s): model panics, rustc %s" % (r["kind"], c["mutation"], got)))
        # property vs rustc
        if want == {"ok"}:
            if not r["compiled"]:
                mism.append(dict(case=dict(case=small), impl=got, model=mv, spec=["ok"], kind="impl_violates_spec", known=known,
                                 what="a well-formed generated program does not compile with rustc (%s!, %s): %s" % (r["kind"], c["mutation"], [e["text"] for e in r["errors"][:2]])))
            continue
        if r["compiled"] and "ok" in want:
            continue
        if r["compiled"]:
            mism.append(dict(case=dict(case=small), impl=got, model=mv, spec=sorted(want), kind="impl_violates_spec",
                             known=known_class(c, ["compiled"], r["kind"]),
                             what="an ill-formed program (%s) compiles with rustc (%s!)" % (c["mutation"], r["kind"])))
            continue
        hit = [e for e in r["errors"] if ("err:" + e["cls"]) in want]
        inside = [e for e in hit if 2 <= e["line"] <= r["job"]["nlines"] + 1]
        if not hit:
            mism.append(dict(case=dict(case=small), impl=got, model=mv, spec=sorted(want), kind="impl_violates_spec",
                             known=known or known_class(c, ["no_shadow_error"], r["kind"]),
                             what="rustc rejects the program (%s, %s!) but not with the error of the violation: %s" % (c["mutation"], r["kind"], [e["text"] for e in r["errors"][:3]])))
        elif not inside:
            mism.append(dict(case=dict(case=small), impl=got, model=mv, spec=sorted(want), kind="impl_violates_spec", known=None,
                             what="the error of the violation (%s) is not reported at the program text: lines %s" % (c["mutation"], [e["line"] for e in hit])))
    return dict(
        evaluations=nfront + len(rres), distinct_nontrivial=len(nontrivial),
        rule="FRONT: every generated program and mutant under each of ascent / ascent_par / ascent_run / ascent_run_par through the real "
             "ascent_impl in-process (programs with include_source! additionally as the spliced text the re-invocation sees); "
             "non-trivial = the front end did not answer ok; distinct = distinct (verdict class, program, macro kind). "
             "Family gen/c15_attrs.py: an attribute as data (1-3 path segments, leading ::, none / (..) / [..] / {..} / = value) at each of the 9 attribute "
             "positions, made-up names and each recognised name behind a prefix, the recognised names in every argument form. "
             "Family gen/c15_nest.py (rustc level only: ascent_source! itself decides, no invocation of ascent_impl sees it): an include_source! nested in an "
             "ascent_source! body at every item position — first, behind a relation / lattice / rule / fact / macro definition / another include / an attributed "
             "relation, 0-3 macro definitions in front, last or followed — the source included first / in the middle / last in a generated host, under each of "
             "the four macros; every such crate must fail with the dedicated message inside the source's text. "
             "rustc: generated crates compiled against /repo, error messages and line numbers of the diagnostics",
        samples=samples,
        distribution=dict(front_by_mutation=dist, front_cases=nfront, rustc_jobs=rdist,
                          programs=len(cases), decorations=_deco_hist(cases), skipped_bases=STATS.get("skipped_bases", 0),
                          attribute_positions=_attr_hist(cases), attribute_spellings=_sp_hist(cases), rebinding_patterns=_shadow_hist(cases),
                          rebinding_contexts=_ctx_hist(cases), nested_include_positions=_nest_hist(cases),
                          pattern_get_vars_traverses_paren=(PAREN_OVERRIDE or "CheckModel.pattern_get_vars_traverses_paren")),
        mismatches=mism,
        trusted_base=["gen/c15_ast.py renderers (Rust text and Coq term from one AST), gen/c15_gen.py injections and their classes (python oracle)",
                      "the verif_hooks driver of ascent_macro (calls ascent_impl under catch_unwind, proc-macro2 fallback spans)",
                      "rustc's diagnostics for the sampled crates (message text and line numbers)"],
        assumptions=["the model is evaluated with the fresh-identifier counter of a fresh process (c0 = []); for every case other than the capture cases the verdict "
                     "is also evaluated with an advanced counter and must coincide; the capture cases use identifiers unique to the case and the macro kind",
                     "expressions are opaque to the model: only 'is a plain identifier' and the free variables of an argument matter",
                     "macro bodies mention only their parameters (macro-local variables: C08); no disjunctions (C07)",
                     "generated identifiers of the reserved name space (__1, __arg_pattern_, __x_) are not used by programs",
                     "unknown attributes on a relation or on the struct signature — in any spelling, incl. `ascent::ds(..)` / `::ds(..)` — are handed to the "
                     "generated struct and rejected by rustc, not by the macro (checked on the sampled crates only: one path attribute on a relation and one "
                     "on the signature per run)",
                     "attributes are modelled as spelled (Check/AttrPaths.v: leading `::`, segments, argument form none / list / = value); of the tokens of a "
                     "list only 'parse as a provider path' matters, and only for `ds`: the generated token lists of `ds` come from the fixed menu "
                     "gen/c15_ast.py DS_TOKENS; #![flag] followed by #![flag(args)] (accepted by the code: only the first attribute of a flag's name is examined) "
                     "is outside the property's list: compared with the model only",
                     "patterns: every arm of pattern_get_vars that recurses is generated as a context of the variable (identifier in its four binding modes, "
                     "w @ p, (p), &p, tuples, slices, tuple structs, structs incl. shorthand fields and `..`, or-patterns whose alternatives bind the same "
                     "variables) except the type ascription p : T, which no pattern position of the macros can parse; the variables a binder reports are "
                     "PatCtxModel.xpat_vars with the parameter pattern_get_vars_traverses_paren = %s; the order of the variables of an or-pattern is a HashSet's "
                     "in the code and the first alternative's in the model (generated patterns rebind one variable, so the order is not observable); macro "
                     "patterns (m!(x)) and box patterns are opaque to the helper and not generated" % (PAREN_OVERRIDE or "the value in CheckModel.v")],
        extra=dict(rustc_sample=[dict(job=r["job"]["id"], kind=r["kind"], mutation=r["case"]["mutation"], want=r["want"], compiled=r["compiled"],
                                      errors=[(e["line"], e["text"]) for e in r["errors"][:2]]) for r in rres][:40]))


def _attr_hist(cases):
    """attribute on a non-relation item: item kind x first item / later x signature / none"""
    h = {}
    for c in cases:
        for e in c["expect"]:
            if e["cls"] == "unexpected_attr" and "first" in e:
                k = "%s:%s:%s" % (e["on"], "first" if e["first"] else "later", "sig" if e["sig"] else "nosig")
                h[k] = h.get(k, 0) + 1
    return h


def _sp_hist(cases):
    """the spelling family: position x path form x last segment (made-up / a recognised name) -> demanded class; argument forms"""
    h = dict(by_position_path={}, by_args={}, by_class={})
    for c in cases:
        for e in c["expect"]:
            sp = e.get("spelling")
            if sp:
                k = "%s:%s:%s" % (e.get("position"), sp["path"], sp["last"])
                h["by_position_path"][k] = h["by_position_path"].get(k, 0) + 1
                h["by_args"][sp["args"]] = h["by_args"].get(sp["args"], 0) + 1
                k = "%s:%s" % (e.get("position"), e["cls"])
                h["by_class"][k] = h["by_class"].get(k, 0) + 1
    return h


def _shadow_hist(cases):
    h = {}
    for c in cases:
        for e in c["expect"]:
            if e["cls"] == "shadow" and "form" in e:
                k = "%s:%s%s" % (e["form"], e.get("shape") or "ident", ":hidden" if e.get("hidden") else "")
                h[k] = h.get(k, 0) + 1
    return h


def _ctx_hist(cases):
    """the systematic context family: model constructor above the variable x binder position x which binder sits below it"""
    h = dict(by_constructor={}, by_form_which={}, by_depth={}, leaves={}, unreachable_constructors=STATS.get("ctx_unreachable_constructors", []))
    for c in cases:
        for e in c["expect"]:
            if e["cls"] == "shadow" and "cons" in e:
                for con in e["cons"]:
                    h["by_constructor"][con] = h["by_constructor"].get(con, 0) + 1
                k = "%s:%s" % (e["form"], e["which"])
                h["by_form_which"][k] = h["by_form_which"].get(k, 0) + 1
                h["by_depth"][str(e["depth"])] = h["by_depth"].get(str(e["depth"]), 0) + 1
                leaf = e["shape"].rsplit(":", 1)[-1]
                h["leaves"][leaf] = h["leaves"].get(leaf, 0) + 1
    return h


def _nest_hist(cases):
    """the nested-include family: item in front of the nested include x macro definitions in front of it; last / followed; host position; macro"""
    h = dict(by_prev_nmac={}, by_post={}, by_host={}, by_kind={}, attributed=0, cases=0)
    for c in cases:
        for e in c["expect"]:
            n = e.get("nest")
            if n:
                h["cases"] += 1
                for key, k in (("by_prev_nmac", "%s:%d" % (n["prev"], n["nmac"])), ("by_post", "last" if n["post"] == 0 else "followed"),
                               ("by_host", n["host"]), ("by_kind", c.get("only_kind"))):
                    h[key][k] = h[key].get(k, 0) + 1
                h["attributed"] += int(n["attributed"])
    return h


def _deco_hist(cases):
    h = {}
    for c in cases:
        if c.get("mutation") == "none":
            for d in c["info"]["deco"]:
                h[d] = h.get(d, 0) + 1
            h["shape_" + c["info"]["shape"]] = h.get("shape_" + c["info"]["shape"], 0) + 1
    return h
