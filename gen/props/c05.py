"""C05 — relations are sets: a tuple is inserted exactly once, inputs are never lost.
Fresh program values: below.  Program values in any state (histories of run / run_timeout / caller mutations): gen/c05_hist.py."""
import json

from .. import c05_hist, engine_tie, gen_dl, lib, prog

PROP = "C05"
PROP_FILE = "Props/C05.v"


def with_dups(rng, inp):
    out = {}
    for rel, ts in inp.items():
        ts = list(ts)
        if ts and rng.random() < 0.5:
            for _ in range(rng.choice([1, 2])):
                ts.insert(rng.randrange(len(ts) + 1), rng.choice(ts))
        out[rel] = ts
    return out


def gen_cases(tier, seed):
    rng = lib.rng_for(seed, PROP)
    n = 40 if tier == "quick" else 500
    cases = []
    for i in range(n):
        agg = (i % 4 == 3)
        p = gen_dl.gen_strat_program(rng) if agg else gen_dl.gen_program(rng)
        inputs = []
        for k in range(3):
            inp = gen_dl.gen_input(rng, p["rels"], style=rng.choice(["small", "mixed", "sparse_chain", "dense"]))[0]
            # caller-supplied duplicates only for programs without aggregates (an aggregate over a relation with
            # duplicate input rows sees them twice: outside C04's statement, C05 only asks that they are preserved)
            inputs.append(with_dups(rng, inp) if (k == 2 and not agg) else inp)
        cases.append(dict(id="c05_%d" % i, prog=p, inputs=inputs, agg=agg))
    return cases


def check_rows(r, k):
    """the C05 observables on the implementation's rows (in order) for input k"""
    c = r["case"]
    iv = r["impl"][k]
    rows = prog.rows_snap(iv["snaps"][-1])
    spec = engine_tie.group_facts(r["spec"][k], c["prog"]["rels"])
    for name, _, _ in c["prog"]["rels"]:
        inp = [tuple(t) for t in c["inputs"][k].get(name, [])]
        got = rows[name]
        if got[:len(inp)] != inp:
            return "relation %s: the input rows are not an unmodified prefix of the rows after run()" % name
        added = got[len(inp):]
        if len(set(added)) != len(added):
            return "relation %s: a derived tuple was appended twice: %s" % (name, [t for t in added if added.count(t) > 1][:3])
        if set(added) & set(inp):
            return "relation %s: a tuple already present in the input was appended again: %s" % (name, sorted(set(added) & set(inp))[:3])
        if sorted(set(got), key=repr) != spec[name][1]:
            return "relation %s: contents differ from the specification" % name
    return None


# ------------------------------------------------------------------ parallel: many workers derive the same tuple / lattice key at once

RACE_PROGRAMS = [
    # (name, text, rels, expected(inp) -> {rel: set of tuples} for derived relations)
    ("fanin", "relation src(i32); relation item(i32); relation out(i32);\nout(y) <-- src(x), item(y);",
     [("src", 1, "rel"), ("item", 1, "rel"), ("out", 1, "rel")],
     lambda inp: {"out": {(y,) for (y,) in inp["item"]} if inp["src"] else set()}),
    ("fanin_two_heads", "relation src(i32); relation item(i32); relation out(i32); relation seen(i32, i32);\nout(y), seen(y, y + 1) <-- src(x), item(y);",
     [("src", 1, "rel"), ("item", 1, "rel"), ("out", 1, "rel"), ("seen", 2, "rel")],
     lambda inp: {"out": {(y,) for (y,) in inp["item"]} if inp["src"] else set(), "seen": {(y, y + 1) for (y,) in inp["item"]} if inp["src"] else set()}),
    ("reach_dense", "relation src(i32); relation item(i32); relation reach(i32); relation edge(i32, i32);\nedge(x, y) <-- src(x), item(y);\nreach(0);\nreach(y) <-- reach(x), edge(x, y);",
     [("src", 1, "rel"), ("item", 1, "rel"), ("reach", 1, "rel"), ("edge", 2, "rel")],
     lambda inp: {"edge": {(x, y) for (x,) in inp["src"] for (y,) in inp["item"]},
                  "reach": ({(0,)} | ({(y,) for (y,) in inp["item"]} if (0,) in set(inp["src"]) else set()))}),
    ("lattice_key", "relation src(i32, i32); relation item(i32); lattice best(i32, i32);\nbest(y, *v) <-- src(x, v), item(y);",
     [("src", 2, "rel"), ("item", 1, "rel"), ("best", 2, ("lat", "max"))],
     lambda inp: {"best": {(y, max(v for _, v in inp["src"])) for (y,) in inp["item"]} if inp["src"] else set()}),
]


def race_runs(tier, seed):
    rng = lib.rng_for(seed, PROP, "race")
    pools = (2, 8, 16)
    nseeds = 2 if tier == "quick" else 6
    jobs, meta = [], {}
    for name, text, rels, expect in RACE_PROGRAMS:
        nsrc, nitem = rng.choice([(48, 1500), (64, 1000), (24, 2500)])
        if name == "reach_dense":
            nsrc, nitem = rng.choice([(40, 300), (60, 200)])
        if name == "lattice_key":
            inp = {"src": [(x, rng.randrange(1000)) for x in range(nsrc)], "item": [(y,) for y in range(nitem)]}
        else:
            inp = {"src": [(x,) for x in range(nsrc)], "item": [(y,) for y in range(nitem)]}
        exp = expect(inp)
        for pool in pools:
            jid = "race_%s_t%d" % (name, pool)
            seeds = [0] + [rng.randrange(1, 2 ** 31) for _ in range(nseeds - 1)]
            scripts = [[("raw", "ascent::verif_hooks::arm_perturb(%d);" % sd), ("set", inp), ("run",), ("snap",), ("raw", "ascent::verif_hooks::arm_perturb(0);")] for sd in seeds]
            jobs.append(dict(id=jid, text=text, macro="ascent_par", rels=rels, scripts=scripts, threads=pool))
            meta[jid] = (name, text, rels, inp, exp, pool, seeds)
    impl = prog.build_and_run("c05race", jobs, features=("verif_hooks",), run_timeout=300)
    mism, nruns, by = [], 0, {}
    for jid, (name, text, rels, inp, exp, pool, seeds) in meta.items():
        res = impl.get(jid)
        for k, sd in enumerate(seeds):
            iv = res[k] if res else None
            cs = dict(program=text, macro="ascent_par!", pool_threads=pool, perturbation_seed=sd, input_sizes={r: len(ts) for r, ts in inp.items()},
                      input="src = 0..%d (x a value column for lattice_key), item = 0..%d" % (len(inp["src"]), len(inp["item"])))
            if iv is None or "snaps" not in iv:
                mism.append(dict(case=cs, impl=iv, model=None, spec=None, kind="impl_violates_spec", known=None, what="parallel run did not complete: %s" % json.dumps(iv)[:300]))
                continue
            nruns += 1
            by[name] = by.get(name, 0) + 1
            rows = prog.rows_snap(iv["snaps"][-1])
            for rel, _, kind in rels:
                got = rows[rel]
                if rel in inp:
                    if sorted(got) != sorted(inp[rel]):
                        mism.append(dict(case=cs, impl={rel: len(got)}, model=None, spec={rel: len(inp[rel])}, kind="impl_violates_spec", known=None,
                                         what="parallel run: the input relation %s was modified (%d rows, %d in the input)" % (rel, len(got), len(inp[rel]))))
                    continue
                keys = [t[:-1] for t in got] if isinstance(kind, tuple) else got
                if len(keys) != len(set(keys)):
                    dup = sorted({t for t in keys if keys.count(t) > 1})[:4] if len(keys) < 5000 else "(many)"
                    mism.append(dict(case=cs, impl={rel: dict(rows=len(got), distinct=len(set(keys)))}, model=None, spec={rel: len(exp[rel])}, kind="impl_violates_spec", known=None,
                                     what="parallel run (pool of %d, perturbation seed %d): %s holds %d rows for %d distinct %s: workers deriving the same %s at the same time both appended it %s" % (
                                         pool, sd, rel, len(got), len(set(keys)), "keys" if isinstance(kind, tuple) else "tuples", "key" if isinstance(kind, tuple) else "tuple", dup)))
                elif set(got) != exp[rel]:
                    mism.append(dict(case=cs, impl={rel: len(got)}, model=None, spec={rel: len(exp[rel])}, kind="impl_violates_spec", known=None,
                                     what="parallel run (pool of %d): %s differs from the expected contents (missing %s, extra %s)" % (pool, rel, sorted(exp[rel] - set(got))[:3], sorted(set(got) - exp[rel])[:3])))
    return dict(mismatches=mism, runs=nruns, by_program=by, pools=list(pools), schedules=nseeds)


def tie(tier, seed, replay):
    # program values in ANY state (resumed after run_timeout == false, re-run after the caller replaced / extended / truncated rows): gen/c05_hist.py
    hist = c05_hist.tie_part(tier, seed)
    cases = gen_cases(tier, seed)
    results = []
    for i in range(0, len(cases), 96):
        results += engine_tie.run(PROP, cases[i:i + 96], tag="c05", spec="strat")
    nskipped = sum(1 for r in results if r.get("skipped"))
    results = [r for r in results if not r.get("skipped")]
    mism, distinct, ndup = [], set(), 0
    for r in results:
        mism += [m for m in engine_tie.compare_case(r, check_counts=False)]
        if r["front_status"] != "ok" or not r["impl"] or r["spec"] is None:
            continue
        for k, inp in enumerate(r["case"]["inputs"]):
            iv = r["impl"][k]
            if "snaps" not in iv or r["spec"][k] is None:
                continue
            why = check_rows(r, k)
            has_dup = any(len(set(map(tuple, ts))) != len(ts) for ts in inp.values())
            ndup += has_dup
            derived = len(r["spec"][k]) > len({(rel, tuple(t)) for rel, ts in inp.items() for t in ts})
            if derived:
                distinct.add((r["text"], json.dumps(inp, sort_keys=True)))
            if why:
                mism.append(dict(case=dict(program=r["text"], input=inp), impl=prog.rows_snap(iv["snaps"][-1]), model=None, spec=why,
                                 kind="impl_violates_spec", known=None, what=why))
            # model rows: same multiset per relation as the implementation (row multiplicity is an observable)
            elif r["model"][k] is not None:
                mg = engine_tie.group_facts(r["model"][k], r["case"]["prog"]["rels"])
                rows = prog.rows_snap(iv["snaps"][-1])
                for name, _, _ in r["case"]["prog"]["rels"]:
                    if len(rows[name]) != mg[name][0]:
                        mism.append(dict(case=dict(program=r["text"], input=inp), impl={name: len(rows[name])}, model={name: mg[name][0]}, spec="implementation meets C05 on this case",
                                         kind="model_differs", known=None, what="correspondence Engine/Eval.v rows vs generated code: row count of %s" % name))
                        break
    race = race_runs(tier, seed)
    mism += race["mismatches"]
    # real write contention: few big ascent_par! runs (10^4-10^5 keys / tuples, pools of 4-16 threads): rows = distinct tuples, one row per key
    from .. import par_contention
    cont = par_contention.run(tier, seed + 7, tag="c05")
    mism += cont["mismatches"]
    mism = hist["mismatches"] + mism
    return dict(evaluations=sum(len(r["case"]["inputs"]) for r in results) + race["runs"] + hist["evaluations"], distinct_nontrivial=len(distinct) + race["runs"] + hist["distinct"],
                rule=hist["rule"] + "  FRESH VALUES: (parallel race family: four programs in which 24-64 workers' worth of outer tuples derive the same 200-2500 tuples / lattice keys in the same iteration — fan-in, multi-head, dense reachability, one lattice key per item — under ascent_par! in pools of 2, 8, 16 with seeded perturbation; observables: rows = distinct tuples / keys, contents, inputs untouched) + random programs (3/4 positive, 1/4 stratified with aggregates) x 3 inputs, one of them with caller-supplied duplicate rows; observables: input rows are an unmodified prefix, appended rows are pairwise distinct and absent from the input, contents equal the specification, row counts equal the model's; non-trivial = the run derives something; distinct = distinct (program, input)",
                samples=[dict(program=r["text"], input=r["case"]["inputs"][2], rows=prog.rows_snap(r["impl"][2]["snaps"][-1]) if r["impl"] and "snaps" in r["impl"][2] else None) for r in results[:2]] + hist["samples"],
                distribution=dict(programs=len(results), inputs_with_duplicates=ndup, with_aggregates=sum(1 for r in results if r["case"]["agg"]), **hist["distribution"]),
                mismatches=mism,
                trusted_base=["FRONT hook + plan translation; generated crates; rows printed in Vec order by the harness"] + hist["trusted_base"],
                assumptions=["fresh-value random programs run through the serial macro here (their parallel runs are C02's tie); the race family and every second history program run through ascent_par!"] + hist["assumptions"],
                extra=dict(contention_family=dict(rounds=cont["evaluations"], distribution=cont["distribution"]), cases_skipped_model_too_slow=nskipped, **hist["extra"], parallel_race_runs=race["runs"], parallel_race_distribution=dict(by_program=race["by_program"], pools=race["pools"], schedules_per_pool=race["schedules"])))
