"""C05 — relations are sets: a tuple is inserted exactly once, inputs are never lost."""
import json

from .. import engine_tie, gen_dl, lib, prog

PROP = "C05"
PROP_FILE = "Props/C05.v"


def with_dups(rng, inp):
    out = {}
    for rel, ts in inp.items():
        ts = list(ts)
        if ts and rng.random() < 0.5:
            for _ in range(rng.choice([1, 2])):
                ts.insert(rng.randrange(len(ts) + 1), rng.choice(ts))
        out[rel] = ts
    return out


def gen_cases(tier, seed):
    rng = lib.rng_for(seed, PROP)
    n = 40 if tier == "quick" else 500
    cases = []
    for i in range(n):
        agg = (i % 4 == 3)
        p = gen_dl.gen_strat_program(rng) if agg else gen_dl.gen_program(rng)
        inputs = []
        for k in range(3):
            inp = gen_dl.gen_input(rng, p["rels"], style=rng.choice(["small", "mixed", "sparse_chain", "dense"]))[0]
            # caller-supplied duplicates only for programs without aggregates (an aggregate over a relation with
            # duplicate input rows sees them twice: outside C04's statement, C05 only asks that they are preserved)
            inputs.append(with_dups(rng, inp) if (k == 2 and not agg) else inp)
        cases.append(dict(id="c05_%d" % i, prog=p, inputs=inputs, agg=agg))
    return cases


def check_rows(r, k):
    """the C05 observables on the implementation's rows (in order) for input k"""
    c = r["case"]
    iv = r["impl"][k]
    rows = prog.rows_snap(iv["snaps"][-1])
    spec = engine_tie.group_facts(r["spec"][k], c["prog"]["rels"])
    for name, _, _ in c["prog"]["rels"]:
        inp = [tuple(t) for t in c["inputs"][k].get(name, [])]
        got = rows[name]
        if got[:len(inp)] != inp:
            return "relation %s: the input rows are not an unmodified prefix of the rows after run()" % name
        added = got[len(inp):]
        if len(set(added)) != len(added):
            return "relation %s: a derived tuple was appended twice: %s" % (name, [t for t in added if added.count(t) > 1][:3])
        if set(added) & set(inp):
            return "relation %s: a tuple already present in the input was appended again: %s" % (name, sorted(set(added) & set(inp))[:3])
        if sorted(set(got), key=repr) != spec[name][1]:
            return "relation %s: contents differ from the specification" % name
    return None


def tie(tier, seed, replay):
    cases = gen_cases(tier, seed)
    results = []
    for i in range(0, len(cases), 96):
        results += engine_tie.run(PROP, cases[i:i + 96], tag="c05", spec="strat")
    nskipped = sum(1 for r in results if r.get("skipped"))
    results = [r for r in results if not r.get("skipped")]
    mism, distinct, ndup = [], set(), 0
    for r in results:
        mism += [m for m in engine_tie.compare_case(r, check_counts=False)]
        if r["front_status"] != "ok" or not r["impl"] or r["spec"] is None:
            continue
        for k, inp in enumerate(r["case"]["inputs"]):
            iv = r["impl"][k]
            if "snaps" not in iv or r["spec"][k] is None:
                continue
            why = check_rows(r, k)
            has_dup = any(len(set(map(tuple, ts))) != len(ts) for ts in inp.values())
            ndup += has_dup
            derived = len(r["spec"][k]) > len({(rel, tuple(t)) for rel, ts in inp.items() for t in ts})
            if derived:
                distinct.add((r["text"], json.dumps(inp, sort_keys=True)))
            if why:
                mism.append(dict(case=dict(program=r["text"], input=inp), impl=prog.rows_snap(iv["snaps"][-1]), model=None, spec=why,
                                 kind="impl_violates_spec", known=None, what=why))
            # model rows: same multiset per relation as the implementation (row multiplicity is an observable)
            elif r["model"][k] is not None:
                mg = engine_tie.group_facts(r["model"][k], r["case"]["prog"]["rels"])
                rows = prog.rows_snap(iv["snaps"][-1])
                for name, _, _ in r["case"]["prog"]["rels"]:
                    if len(rows[name]) != mg[name][0]:
                        mism.append(dict(case=dict(program=r["text"], input=inp), impl={name: len(rows[name])}, model={name: mg[name][0]}, spec="implementation meets C05 on this case",
                                         kind="model_differs", known=None, what="correspondence Engine/Eval.v rows vs generated code: row count of %s" % name))
                        break
    return dict(evaluations=sum(len(r["case"]["inputs"]) for r in results), distinct_nontrivial=len(distinct),
                rule="random programs (3/4 positive, 1/4 stratified with aggregates) x 3 inputs, one of them with caller-supplied duplicate rows; observables: input rows are an unmodified prefix, appended rows are pairwise distinct and absent from the input, contents equal the specification, row counts equal the model's; non-trivial = the run derives something; distinct = distinct (program, input)",
                samples=[dict(program=r["text"], input=r["case"]["inputs"][2], rows=prog.rows_snap(r["impl"][2]["snaps"][-1]) if r["impl"] and "snaps" in r["impl"][2] else None) for r in results[:2]],
                distribution=dict(programs=len(results), inputs_with_duplicates=ndup, with_aggregates=sum(1 for r in results if r["case"]["agg"])),
                mismatches=mism,
                trusted_base=["FRONT hook + plan translation; generated crates; rows printed in Vec order by the harness"],
                assumptions=["serial macros only in this tie; the parallel half is exercised by C02's tie and proved at the index level in C19"],
                extra=dict(cases_skipped_model_too_slow=nskipped))
