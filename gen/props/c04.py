"""C04 — negation and aggregation see the complete relation, each tuple once."""
import json

from .. import engine_tie, gen_dl, lib, prog

PROP = "C04"
PROP_FILE = "Props/C04.v"


def gen_cases(tier, seed):
    rng = lib.rng_for(seed, PROP)
    n = 40 if tier == "quick" else 500
    ninp = 3 if tier == "quick" else 4
    cases = []
    for i in range(n):
        p = gen_dl.gen_strat_program(rng)
        inputs = [gen_dl.gen_input(rng, p["rels"], style=rng.choice(["small", "mixed", "dense", "sparse_chain", "some_empty", "some_empty"]))[0] for _ in range(ninp)]
        # one more input: an aggregated / negated relation completely empty, everything else as in the first input
        ag = gen_dl.aggregated_rels(p)
        for a in ag[:3]:
            emptied = dict(inputs[0])
            emptied[a] = []
            inputs.append(emptied)
        cases.append(dict(id="c04_%d" % i, prog=p, inputs=inputs))
    return cases


def tie(tier, seed, replay):
    cases = gen_cases(tier, seed)
    results = []
    for i in range(0, len(cases), 96):
        results += engine_tie.run(PROP, cases[i:i + 96], tag="c04", spec="strat")
    nskipped = sum(1 for r in results if r.get("skipped"))
    results = [r for r in results if not r.get("skipped")]
    mism, feats, distinct = [], {}, set()
    for r in results:
        mism += engine_tie.compare_case(r)
        for f in gen_dl.program_features(r["case"]["prog"]):
            feats[f] = feats.get(f, 0) + 1
        for it_rule in r["case"]["prog"]["rules"]:
            for it in it_rule["body"]:
                if it[0] == "agg":
                    feats["agg_" + it[2]] = feats.get("agg_" + it[2], 0) + 1
        for k, inp in enumerate(r["case"]["inputs"]):
            if r["spec"] and r["spec"][k] is not None and len(r["spec"][k]) > sum(len(v) for v in inp.values()):
                distinct.add((r["text"], json.dumps(inp, sort_keys=True)))
    sample = [dict(program=r["text"], summary=r["summary"], input=r["case"]["inputs"][0],
                   impl={k: v[1][:6] for k, v in prog.canon_snap(r["impl"][0]["snaps"][-1]).items()} if r["impl"] and "snaps" in r["impl"][0] else r["impl"])
              for r in results[:3]]
    return dict(evaluations=sum(len(r["case"]["inputs"]) for r in results), distinct_nontrivial=len(distinct),
                rule="random stratified programs: relations on 2-3 levels, rules of level L aggregate (count/sum/min/max) or negate relations of lower levels with every mix of key / wildcard / aggregated columns, results feed higher levels; x 3-4 inputs; non-trivial = the run derives at least one fact; distinct = distinct (program, input)",
                samples=sample, distribution=dict(programs=len(results), features=feats), mismatches=mism,
                trusted_base=["FRONT hook + gen/dl.py plan translation; gen/prog.py generated crates; python stratification (Tarjan) feeding the Coq oracle strat_fix, checked by Strat.stratified inside Coq",
                              "code generation from MIR to Rust is modelled by hand in Engine/Eval.v and tied by these runs"],
                assumptions=["aggregator semantics as in Agg/AggModel.v (C17)", "small i32 values; count results converted with `as i32`"],
                extra=dict(cases_skipped_model_too_slow=nskipped, plans_validated=sum(1 for r in results if r["valid"] is True)))
