"""C04 — negation and aggregation see the complete relation, each tuple once."""
import json
import os
import time

from .. import c04_gen, dl, engine_tie, gen_dl, lib, prog

PROP = "C04"
PROP_FILE = "Props/C04.v"
CORPUS = os.path.join(lib.VERIF, "corpus", PROP + ".jsonl")


def gen_cases(tier, seed):
    rng = lib.rng_for(seed, PROP)
    n = 40 if tier == "quick" else 500
    ninp = 3 if tier == "quick" else 4
    cases = []
    for i in range(n):
        p = gen_dl.gen_strat_program(rng)
        inputs = [gen_dl.gen_input(rng, p["rels"], style=rng.choice(["small", "mixed", "dense", "sparse_chain", "some_empty", "some_empty"]))[0] for _ in range(ninp)]
        # one more input: an aggregated / negated relation completely empty, everything else as in the first input
        inputs += gen_dl.agg_join_inputs(rng, p)
        ag = gen_dl.aggregated_rels(p)
        for a in ag[:3]:
            emptied = dict(inputs[0])
            emptied[a] = []
            inputs.append(emptied)
        cases.append(dict(id="c04_%d" % i, prog=p, inputs=inputs))
    return cases


# ------------------------------------------------------------------ program ASTs through JSON (corpus, replays)

def _tuplify(x):
    if isinstance(x, list):
        return tuple(_tuplify(y) for y in x)
    return x


def ast_from_json(o):
    """program AST of gen/dl.py read back from JSON (tuples were written as lists)"""
    p = dict(o)
    p["rels"] = [tuple(_tuplify(r)) for r in o["rels"]]
    p["rules"] = [dict(heads=[(h[0], [_tuplify(t) for t in h[1]]) for h in r["heads"]], body=[_tuplify(it) for it in r["body"]]) for r in o["rules"]]
    return p


def input_from_json(inp):
    return {r: [tuple(t) for t in ts] for r, ts in inp.items()}


def load_corpus():
    """corpus/C04.jsonl: one case per line, dict(name, note, prog = program AST, inputs = [{rel: rows}]); run first on every check"""
    out = []
    if not os.path.exists(CORPUS):
        return out
    for k, line in enumerate(open(CORPUS)):
        line = line.strip()
        if not line or line.startswith("#"):
            continue
        o = json.loads(line)
        if o.get("family") == "param":
            continue        # entries of the parameterised-aggregator family are run by gen/c04_param.py (own AST)
        out.append(dict(id="c04corpus_%d" % k, prog=ast_from_json(o["prog"]), inputs=[input_from_json(i) for i in o["inputs"]], family="corpus", note=o.get("note")))
    return out


def with_ast(mism, r):
    """mismatches of one engine_tie result, each carrying the program AST so that `./check C04 --replay <file>` can run it again"""
    for m in mism:
        m["case"] = dict(m["case"], family=r["case"].get("family", "strat"), ast=r["case"]["prog"])
        if m["kind"] == "impl_violates_spec" and isinstance(m.get("impl"), dict):
            for name, v in m["impl"].items():
                if isinstance(v, dict) and "tuples" in v and v.get("len", 0) > len(v["tuples"]) and m.get("spec") and v["tuples"] == m["spec"].get(name):
                    m["what"] += " — the relation holds %d rows for %d distinct tuples: a tuple was appended more than once (a tuple missing from the relation's stored index is derived again by a later stratum)" % (v["len"], len(v["tuples"]))
    return mism


# ------------------------------------------------------------------ family `recprod` (gen/c04_gen.py)

def _par_compare(r, k, iv, pool):
    """ascent_par! run of input k of an engine_tie result vs the stratified model (sets + row counts); no model column"""
    c = r["case"]
    rels = c["prog"]["rels"]
    cs = dict(program=r["text"], id=c["id"], input=c["inputs"][k], macro="ascent_par!", pool_threads=pool, family=c.get("family"), ast=c["prog"])
    if iv is None or "snaps" not in iv:
        return [dict(case=cs, impl=iv, model=None, spec=None, kind="impl_violates_spec", known=None,
                     what="ascent_par!: implementation did not produce a result (compile error / panic / timeout): %s" % json.dumps(iv)[:300])]
    isnap = prog.canon_snap(iv["snaps"][-1])
    sg = engine_tie.group_facts(r["spec"][k], rels)
    for name, _, _ in rels:
        ilen, iset = isnap[name]
        if iset != sg[name][1] or ilen != len(sg[name][1]):
            return [dict(case=cs, impl={name: dict(len=ilen, tuples=iset)}, model=None, spec={name: sg[name][1]}, kind="impl_violates_spec", known=None,
                         what="ascent_par! (pool of %d): relation %s after run(): %d rows; missing %s; not derivable %s" % (
                             pool, name, ilen, [t for t in sg[name][1] if t not in iset][:5], [t for t in iset if t not in sg[name][1]][:5]))]
    return []


def recprod(tier, seed, extra_cases=()):
    """the aggregated / negated relation is produced by a RECURSIVE stratum through extra heads of its rules (gen/c04_gen.py):
    phase 1 graph inputs, phase 2 nearly saturated inputs, then a slice of both through ascent_par!"""
    rng = lib.rng_for(seed, PROP, "recprod")
    quick = tier == "quick"
    cases = list(extra_cases) + c04_gen.gen_cases(rng, 32 if quick else 320, 3 if quick else 4)
    results = []
    for i in range(0, len(cases), 96):
        results += engine_tie.run(PROP, cases[i:i + 96], tag="c04rp", spec="strat")
    sat = []
    rng2 = lib.rng_for(seed, PROP, "recprod_saturated")
    for r in results:
        c = r["case"]
        if r.get("skipped") or not r["spec"] or c.get("family") != "recprod" or len(sat) >= (24 if quick else 220):
            continue
        inputs = []
        for k, inp in enumerate(c["inputs"]):
            if r["spec"][k] is None or len(r["spec"][k]) > 260:
                continue
            inputs += [x for x in c04_gen.saturated_inputs(rng2, c["prog"], inp, r["spec"][k], limit=1) if x not in inputs]
        if inputs:
            sat.append(dict(id=c["id"] + "_sat", prog=c["prog"], inputs=inputs[:3], styles=["saturated"] * len(inputs[:3]), family="recprod"))
    for i in range(0, len(sat), 96):
        results += engine_tie.run(PROP, sat[i:i + 96], tag="c04rps", spec="strat")
    nskipped = sum(1 for r in results if r.get("skipped"))
    results = [r for r in results if not r.get("skipped")]
    mism, distinct = [], set()
    dist = dict(shapes={}, side_relation_modes={}, input_styles={}, aggregators={}, programs=0, saturated_programs=len(sat),
                runs_growing_a_loop_written_unread_relation=0, runs_by_macro={"ascent!": 0, "ascent_par!": 0})
    for r in results:
        c = r["case"]
        p = c["prog"]
        mism += with_ast(engine_tie.compare_case(r), r)
        dist["programs"] += 1
        dist["runs_by_macro"]["ascent!"] += len(c["inputs"])
        for st in c.get("styles", []):
            dist["input_styles"][st] = dist["input_styles"].get(st, 0) + 1
        if c.get("family") == "recprod" and not c["id"].endswith("_sat"):
            dist["shapes"][p["shape"]] = dist["shapes"].get(p["shape"], 0) + 1
            for m in p["side_modes"].values():
                dist["side_relation_modes"][m] = dist["side_relation_modes"].get(m, 0) + 1
            for rule in p["rules"]:
                for it in rule["body"]:
                    if it[0] in ("agg", "neg"):
                        a = it[2] if it[0] == "agg" else "not"
                        dist["aggregators"][a] = dist["aggregators"].get(a, 0) + 1
        unread = [n for n in p.get("written_in_loop", []) if p.get("side_modes", {}).get(n) != "read_in_scc"]
        cons = {n for n, _, _ in p["rels"] if n[0] in "ct" or n == "rd"}
        for k, inp in enumerate(c["inputs"]):
            if not r["spec"] or r["spec"][k] is None:
                continue
            by = engine_tie.group_facts(r["spec"][k], p["rels"])
            grows = any(len(by[n][1]) > len(set(inp.get(n, []))) for n in unread)
            if grows:
                dist["runs_growing_a_loop_written_unread_relation"] += 1
            if grows and any(by[n][1] for n in cons):
                distinct.add((r["text"], json.dumps(inp, sort_keys=True)))
    # the same programs through ascent_par! (same generated head-update path, other index types): implementation vs specification
    pr = [r for r in results if r["spec"] and all(s is not None for s in r["spec"]) and r["front_status"] == "ok" and r["case"].get("family") == "recprod"]
    pr = [r for r in pr if r["case"]["id"].endswith("_sat")][:(6 if quick else 40)] + [r for r in pr if not r["case"]["id"].endswith("_sat")][:(6 if quick else 40)]
    rng3 = lib.rng_for(seed, PROP, "recprod_par")
    jobs, pools = [], {}
    for r in pr:
        c = r["case"]
        pools[c["id"]] = rng3.choice([1, 2, 4])
        jobs.append(dict(id=c["id"] + "_par", text=dl.rust_program_text(dict(c["prog"], attrs=[])), attrs=[], macro="ascent_par", rels=c["prog"]["rels"],
                         scripts=[[("set", inp), ("run",), ("snap",)] for inp in c["inputs"]], threads=pools[c["id"]]))
    impl = prog.build_and_run("c04rpp", jobs) if jobs else {}
    for r in pr:
        c = r["case"]
        res = impl.get(c["id"] + "_par")
        for k in range(len(c["inputs"])):
            mism += _par_compare(r, k, res[k] if res else None, pools[c["id"]])
            dist["runs_by_macro"]["ascent_par!"] += 1
    return dict(mismatches=mism, evaluations=dist["runs_by_macro"]["ascent!"] + dist["runs_by_macro"]["ascent_par!"], distinct=len(distinct), distribution=dist,
                skipped=nskipped, plans_validated=sum(1 for r in results if r["valid"] is True), results=results)


def replay_case(path):
    """./check C04 --replay <file>: the stored program AST + input through the real macro again (serial and, when the stored case
    says so, ascent_par!) vs model vs stratified oracle"""
    rp = json.load(open(path))
    cs = rp["case"]
    if cs.get("family") == "param" and "ast" in cs:
        from .. import c04_param
        return c04_param.replay(cs)
    if "ast" not in cs or "input" not in cs:
        return None
    c = dict(id="c04replay", prog=ast_from_json(cs["ast"]), inputs=[input_from_json(cs["input"])], family=cs.get("family", "replay"))
    results = engine_tie.run(PROP, [c], tag="c04replay", spec="strat")
    mism = []
    for r in results:
        mism += with_ast(engine_tie.compare_case(r), r)
        if cs.get("macro") == "ascent_par!" and r["spec"] and r["spec"][0] is not None:
            pool = cs.get("pool_threads") or 2
            job = dict(id="c04replay_par", text=dl.rust_program_text(dict(c["prog"], attrs=[])), attrs=[], macro="ascent_par", rels=c["prog"]["rels"],
                       scripts=[[("set", c["inputs"][0]), ("run",), ("snap",)]], threads=pool)
            impl = prog.build_and_run("c04replayp", [job])
            mism += _par_compare(r, 0, (impl.get("c04replay_par") or [None])[0], pool)
    return dict(evaluations=1, distinct_nontrivial=1, rule="replay of one stored (program, input)", samples=[dict(program=results[0]["text"], input=c["inputs"][0])],
                distribution={}, mismatches=mism)


def tie(tier, seed, replay):
    if replay:
        t = replay_case(replay)
        if t is not None:
            return t
    times = {}
    t0 = time.time()
    cases = gen_cases(tier, seed)
    results = []
    for i in range(0, len(cases), 96):
        results += engine_tie.run(PROP, cases[i:i + 96], tag="c04", spec="strat")
    nskipped = sum(1 for r in results if r.get("skipped"))
    results = [r for r in results if not r.get("skipped")]
    mism, feats, distinct = [], {}, set()
    for r in results:
        mism += with_ast(engine_tie.compare_case(r), r)
        for f in gen_dl.program_features(r["case"]["prog"]):
            feats[f] = feats.get(f, 0) + 1
        for it_rule in r["case"]["prog"]["rules"]:
            for it in it_rule["body"]:
                if it[0] == "agg":
                    feats["agg_" + it[2]] = feats.get("agg_" + it[2], 0) + 1
        for k, inp in enumerate(r["case"]["inputs"]):
            if r["spec"] and r["spec"][k] is not None and len(r["spec"][k]) > sum(len(v) for v in inp.values()):
                distinct.add((r["text"], json.dumps(inp, sort_keys=True)))
    times["stratified_levels"] = round(time.time() - t0, 1)
    # the aggregated / negated relation is produced by a recursive stratum, through extra heads of its rules (gen/c04_gen.py);
    # the corpus (minimised earlier failures) runs in the same batch, first
    t0 = time.time()
    rp = recprod(tier, seed, extra_cases=load_corpus())
    mism += rp["mismatches"]
    times["recursive_producer"] = round(time.time() - t0, 1)
    # aggregates / negation over LATTICE relations ("one row per key for a lattice"), serial and parallel (gen/c04_lat.py)
    from .. import c04_lat, c04_latmodel
    t0 = time.time()
    lat = c04_lat.run(tier, seed, modes=("serial", "par"), tag="c04lat")
    mism += lat["mismatches"]
    times["lattice_aggregates_vs_oracle"] = round(time.time() - t0, 1)
    # ... and the MODEL column of that family: the serial runs vs LatEngine/LatAggEval.v arun_plan on the plan dumped by the real front
    # end, whose boolean hypotheses (validate, alat_plan_ok, plan_below) are evaluated for every dumped plan (gen/c04_latmodel.py)
    t0 = time.time()
    latm = c04_latmodel.check(tier, seed, tag="c04latmodel")
    mism += latm["mismatches"]
    times["lattice_aggregates_vs_model"] = round(time.time() - t0, 1)
    # aggregators whose EXPRESSION mentions rule variables bound earlier (parameterised aggregators), serial and ascent_par! (gen/c04_param.py)
    from .. import c04_param
    t0 = time.time()
    pm = c04_param.run(tier, seed, corpus_path=CORPUS)
    mism += pm["mismatches"]
    # the two recorded genuine defects (known_findings.json) must still reproduce on the real code: gen/c04_known.py
    from .. import c04_known
    kn = c04_known.run()
    mism += kn["mismatches"]
    times["parameterised_aggregators"] = round(time.time() - t0, 1)
    sample = [dict(program=r["text"], summary=r["summary"], input=r["case"]["inputs"][0],
                   impl={k: v[1][:6] for k, v in prog.canon_snap(r["impl"][0]["snaps"][-1]).items()} if r["impl"] and "snaps" in r["impl"][0] else r["impl"])
              for r in (results[:2] + [r for r in rp["results"] if r["case"].get("family") == "recprod"][:2])]
    return dict(evaluations=sum(len(r["case"]["inputs"]) for r in results) + rp["evaluations"] + lat["evaluations"] + latm["evaluations"] + pm["evaluations"],
                distinct_nontrivial=len(distinct) + rp["distinct"] + lat["distinct"] + pm["distinct"],
                rule="(a) lattice family (impl vs python Kleene + aggregate oracle, and the serial runs vs the Coq model LatEngine/LatAggEval.v arun_plan on the dumped plan): a 2-key lattice raised over many iterations of a recursive stratum (capped longest walks / shortest paths) aggregated (count, sum, min, max, negation) through every index shape (first / second key column bound, nothing bound, all key columns bound, a derived unary-key lattice), ascent! and ascent_par! (pools 1, 3, 8, with / without inter_rule_parallelism, perturbation seeds); (b) random stratified programs: relations on 2-3 levels, rules of level L aggregate (count/sum/min/max) or negate relations of lower levels with every mix of key / wildcard / aggregated columns, results feed higher levels; x 3-4 inputs; non-trivial = the run derives at least one fact; (c) recursive-producer family (gen/c04_gen.py): ONE looping SCC (left / right / non-linear closure, reachability, mutual recursion, capped distance labels) whose rules carry extra heads into side relations (written only / also read in the SCC / also written by an earlier SCC / with input rows; head order varied; multi-head base rules), every level-1 relation aggregated / negated by later strata through every key shape, plain readers, recursive consumers, a third level; inputs = graphs with several routes of different length (diamonds, cycles, dense, chains) and NEARLY SATURATED inputs (the stratified model with one level-1 relation reset to its input rows: the first iteration is the last), serial and a slice through ascent_par!; non-trivial = a relation written in the loop and read by no rule of it gains a tuple and a consumer derives something; distinct = distinct (program, input); (d) parameterised-aggregator family (gen/c04_param.py): the aggregator EXPRESSION of an agg clause mentions rule variables bound by earlier items (clause / cross product / generator / let / simple join / the result of an earlier aggregate of the same rule / the previous iteration of a looping stratum): library percentile(p) and user-defined nth(n), cnt_above(t), at_least(t), top(n), between(lo, hi) (multi-valued), scaled_cnt(m) (no column), sum_where(z) (two columns), over input / copied / joined / recursively closed relations through every key shape, results consumed by later strata, serial and ascent_par!, vs the python stratified evaluation (sets and row counts) and, every serial run, vs the Coq specification semantics of the source language with parameterised aggregates (Engine/AggParamModel.v p_strat_fix over the vocabulary Engine/AggParamVocab.v; c04_param_agg_stratified_model is about that semantics); non-trivial = some agg clause is evaluated for two bindings that share the key, differ in the parameter and must yield different values",
                samples=sample + pm["samples"][:1], distribution=dict(programs=len(results), features=feats, recursive_producer=rp["distribution"], parameterised_aggregators=pm["distribution"]), mismatches=mism,
                trusted_base=["FRONT hook + gen/dl.py plan translation; gen/prog.py generated crates; python stratification (Tarjan) feeding the Coq oracle strat_fix, checked by Strat.stratified inside Coq",
                              "code generation from MIR to Rust is modelled by hand in Engine/Eval.v (and LatEngine/LatAggEval.v for lattices with aggregates) and tied by these runs",
                              "parameterised aggregators: the generated two-step code (collect the matching rows, apply the aggregator closure of the binding) is modelled by the translation Engine/AggParamModel.v tr_rule (proved equal to the source semantics rule by rule); the plan of such programs is NOT read from the FRONT dump (gen/dl.py has no parameterised aggregators): the tie compares the compiled programs with the SOURCE semantics p_strat_fix and the python oracle"],
                assumptions=["aggregator semantics as in Agg/AggModel.v (C17)", "small i32 values; count results converted with `as i32`"],
                extra=dict(lattice_aggregate_runs=lat["evaluations"], lattice_aggregate_distribution=lat["distribution"],
                           lattice_aggregate_model_column={k: v for k, v in latm.items() if k != "mismatches"},
                           cases_skipped_model_too_slow=nskipped + rp["skipped"],
                           plans_validated=sum(1 for r in results if r["valid"] is True) + rp["plans_validated"], phase_seconds=times))
