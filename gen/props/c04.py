"""C04 — negation and aggregation see the complete relation, each tuple once."""
import json

from .. import engine_tie, gen_dl, lib, prog

PROP = "C04"
PROP_FILE = "Props/C04.v"


def gen_cases(tier, seed):
    rng = lib.rng_for(seed, PROP)
    n = 40 if tier == "quick" else 500
    ninp = 3 if tier == "quick" else 4
    cases = []
    for i in range(n):
        p = gen_dl.gen_strat_program(rng)
        inputs = [gen_dl.gen_input(rng, p["rels"], style=rng.choice(["small", "mixed", "dense", "sparse_chain", "some_empty", "some_empty"]))[0] for _ in range(ninp)]
        # one more input: an aggregated / negated relation completely empty, everything else as in the first input
        inputs += gen_dl.agg_join_inputs(rng, p)
        ag = gen_dl.aggregated_rels(p)
        for a in ag[:3]:
            emptied = dict(inputs[0])
            emptied[a] = []
            inputs.append(emptied)
        cases.append(dict(id="c04_%d" % i, prog=p, inputs=inputs))
    return cases


def tie(tier, seed, replay):
    cases = gen_cases(tier, seed)
    results = []
    for i in range(0, len(cases), 96):
        results += engine_tie.run(PROP, cases[i:i + 96], tag="c04", spec="strat")
    nskipped = sum(1 for r in results if r.get("skipped"))
    results = [r for r in results if not r.get("skipped")]
    mism, feats, distinct = [], {}, set()
    for r in results:
        mism += engine_tie.compare_case(r)
        for f in gen_dl.program_features(r["case"]["prog"]):
            feats[f] = feats.get(f, 0) + 1
        for it_rule in r["case"]["prog"]["rules"]:
            for it in it_rule["body"]:
                if it[0] == "agg":
                    feats["agg_" + it[2]] = feats.get("agg_" + it[2], 0) + 1
        for k, inp in enumerate(r["case"]["inputs"]):
            if r["spec"] and r["spec"][k] is not None and len(r["spec"][k]) > sum(len(v) for v in inp.values()):
                distinct.add((r["text"], json.dumps(inp, sort_keys=True)))
    # aggregates / negation over LATTICE relations ("one row per key for a lattice"), serial and parallel (gen/c04_lat.py)
    from .. import c04_lat
    lat = c04_lat.run(tier, seed, modes=("serial", "par"), tag="c04lat")
    mism += lat["mismatches"]
    sample = [dict(program=r["text"], summary=r["summary"], input=r["case"]["inputs"][0],
                   impl={k: v[1][:6] for k, v in prog.canon_snap(r["impl"][0]["snaps"][-1]).items()} if r["impl"] and "snaps" in r["impl"][0] else r["impl"])
              for r in results[:3]]
    return dict(evaluations=sum(len(r["case"]["inputs"]) for r in results) + lat["evaluations"], distinct_nontrivial=len(distinct) + lat["distinct"],
                rule="(a) lattice family (impl vs python Kleene + aggregate oracle, no model column): a 2-key lattice raised over many iterations of a recursive stratum (capped longest walks / shortest paths) aggregated (count, sum, min, max, negation) through every index shape (first / second key column bound, nothing bound, all key columns bound, a derived unary-key lattice), ascent! and ascent_par! (pools 1, 3, 8, with / without inter_rule_parallelism, perturbation seeds); (b) random stratified programs: relations on 2-3 levels, rules of level L aggregate (count/sum/min/max) or negate relations of lower levels with every mix of key / wildcard / aggregated columns, results feed higher levels; x 3-4 inputs; non-trivial = the run derives at least one fact; distinct = distinct (program, input)",
                samples=sample, distribution=dict(programs=len(results), features=feats), mismatches=mism,
                trusted_base=["FRONT hook + gen/dl.py plan translation; gen/prog.py generated crates; python stratification (Tarjan) feeding the Coq oracle strat_fix, checked by Strat.stratified inside Coq",
                              "code generation from MIR to Rust is modelled by hand in Engine/Eval.v and tied by these runs"],
                assumptions=["aggregator semantics as in Agg/AggModel.v (C17)", "small i32 values; count results converted with `as i32`"],
                extra=dict(lattice_aggregate_runs=lat["evaluations"], lattice_aggregate_distribution=lat["distribution"], cases_skipped_model_too_slow=nskipped, plans_validated=sum(1 for r in results if r["valid"] is True)))
