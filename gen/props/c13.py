"""C13 — run() is idempotent; monotone re-runs equal a fresh run.

Halves: plain relations (Engine/Rerun.v; below), lattice relations (LatEngine/LatRerun.v; gen/c13_lat.py), lattices WITH
aggregation / negation (LatEngine/LatAggRerun.v; gen/c13_latagg.py), BYODS relations (gen/c13_byods.py)."""
import json

from .. import c13_lat, engine_tie, gen_dl, lib, prog

PROP = "C13"
PROP_FILE = "Props/C13.v"


def gen_cases(tier, seed):
    rng = lib.rng_for(seed, PROP)
    n = 36 if tier == "quick" else 400
    cases = []
    for i in range(n):
        agg = (i % 3 == 2)
        p = gen_dl.gen_strat_program(rng) if agg else gen_dl.gen_program(rng)
        i0 = gen_dl.gen_input(rng, p["rels"], style=rng.choice(["small", "mixed", "sparse_chain"]))[0]
        scripts = [[("set", i0), ("run",), ("run",)]]
        if not agg:
            f1 = gen_dl.gen_input(rng, p["rels"], style="small")[0]
            f2 = gen_dl.gen_input(rng, p["rels"], style="small")[0]
            scripts.append([("set", i0), ("run",), ("push", f1), ("run",), ("push", f2), ("run",)])
            scripts.append([("set", {}), ("run",), ("push", i0), ("run",), ("run",)])
        cases.append(dict(id="c13_%d" % i, prog=p, scripts=scripts, agg=agg))
    return cases


def tie(tier, seed, replay):
    # lattice half first: its corpus (the duplicate-key finding) runs before everything else
    lat = c13_lat.tie_part(tier, seed)
    # lattices read by aggregates / negation of a later stratum: run; run and run; push; run; run (gen/c13_latagg.py)
    from .. import c13_latagg
    la = c13_latagg.run(tier, seed)
    cases = gen_cases(tier, seed)
    results = []
    for i in range(0, len(cases), 96):
        results += engine_tie.run_scripts(PROP, cases[i:i + 96], tag="c13", spec="strat")
    nskipped = sum(1 for r in results if r.get("skipped"))
    results = [r for r in results if not r.get("skipped")]
    mism, distinct, hist = [], set(), {}
    for r in results:
        # pushed facts may repeat existing rows: caller-supplied duplicates stay, so counts are compared with the model only
        mism += engine_tie.compare_scripts(r)
        for sc in r["case"]["scripts"]:
            shape = ";".join(s[0] for s in sc)
            hist[shape] = hist.get(shape, 0) + 1
            distinct.add((r["text"], json.dumps(sc, sort_keys=True, default=str)))
    # the same histories through ascent_par! (pool of 3): every snapshot must equal the specification
    from .. import dl
    pjobs = []
    for r in results:
        c = r["case"]
        scripts = []
        for sc in c["scripts"]:
            s2 = []
            for st in sc:
                s2.append(st)
                if st[0] == "run":
                    s2.append(("snap",))
            scripts.append(s2)
        pjobs.append(dict(id=c["id"] + "_par", text=dl.rust_program_text(c["prog"]), macro="ascent_par", rels=c["prog"]["rels"], scripts=scripts, threads=3))
    pimpl = prog.build_and_run("c13p", pjobs, run_timeout=300) if pjobs else {}
    npar = 0
    for r in results:
        c = r["case"]
        if r["spec"] is None:
            continue
        for k, sc in enumerate(c["scripts"]):
            iv = (pimpl.get(c["id"] + "_par") or [None] * len(c["scripts"]))[k]
            cs = dict(program=r["text"], script=sc, macro="ascent_par", pool_threads=3)
            if iv is None or "snaps" not in iv:
                mism.append(dict(case=cs, impl=iv, model=None, spec=None, kind="impl_violates_spec", known=None,
                                 what="parallel history did not complete (panic / timeout): %s" % json.dumps(iv)[:300]))
                continue
            npar += 1
            for j, snap in enumerate(iv["snaps"]):
                isnap = prog.canon_snap(snap)
                sg = engine_tie.group_facts(r["spec"][k][j], c["prog"]["rels"])
                bad = [name for name, _, _ in c["prog"]["rels"] if isnap[name][1] != sg[name][1]]
                if bad:
                    mism.append(dict(case=dict(cs, run=j), impl={bad[0]: isnap[bad[0]]}, model=None, spec={bad[0]: sg[bad[0]][1]}, kind="impl_violates_spec", known=None,
                                     what="parallel history: relation %s after run #%d differs from the specification" % (bad[0], j + 1)))
                    break
    # programs with a BYODS relation (#[ds(eqrel | trrel | trrel_uf)]): its state lives only in the provider structure kept between runs
    from .. import c13_byods
    by = c13_byods.run(tier, seed)
    mism += by["mismatches"]
    # the REAL index fields after run() and after run(); push; run() against the per-index engine model (Engine/IndexedEval.v)
    from .. import indexed_tie
    idx = indexed_tie.run_tie(tier, seed + 1000, tag="indexed_c13" + ("" if tier == "quick" else "t"))
    mism += idx["mismatches"]
    sample = [dict(program=r["text"], script=r["case"]["scripts"][-1], impl=[{k: v[1][:5] for k, v in prog.canon_snap(s).items()} for s in r["impl"][-1]["snaps"]] if r["impl"] and "snaps" in r["impl"][-1] else r["impl"]) for r in results[:2]]
    return dict(evaluations=sum(len(r["case"]["scripts"]) for r in results) + lat["evaluations"] + by["evaluations"] + la["evaluations"], distinct_nontrivial=len(distinct) + lat["distinct"] + by["distinct"] + la["distinct"],
                rule="PLAIN HALF: random programs (2/3 positive C01-style, 1/3 stratified with aggregates / negation) x histories run;run | run;push;run;push;run | run(empty);push;run;run with facts pushed into any relation incl. derived ones; every snapshot compared; non-trivial = history with at least two runs; distinct = distinct (program, history).  BYODS HALF (gen/c13_byods.py): programs of the C10 / C11 / C12 generators (eqrel, trrel, trrel_uf relations, binary and ternary) x histories run;run | run;push;run | run;run;push;run | run(empty);push;run;push;run, each compared with the fresh run of the same program on the union of the inputs (plain relations as sets; no model column).  " + lat["rule"] + ".  " + la["rule"],
                samples=sample, distribution=dict(programs=len(results), history_shapes=hist, with_aggregates=sum(1 for r in results if r["case"]["agg"]), **lat["distribution"], **la["distribution"]),
                mismatches=lat["mismatches"] + la["mismatches"] + mism,
                trusted_base=["FRONT hook + gen/dl.py plan translation; gen/prog.py generated crates", "Engine/Rerun.v models the program value between runs (stored indices kept, rows appended)",
                              "gen/c04_lat.py oracle and gen/c04_latmodel.py plan translation (shared with C04); LatEngine/LatAggRerunScript.v lat_agg_script drives LatAggEval.arun_plan through the history"] + lat["trusted_base"],
                assumptions=["facts pushed between runs are appended to the public Vec fields, as a user would"] + lat["assumptions"],
                extra=dict(cases_skipped_model_too_slow=nskipped, parallel_histories=npar, indexed_engine_vs_real_index_fields=dict(idx["coverage"], histories=idx["evaluations"], rule=idx["rule"]), byods_histories=by["evaluations"], byods_distribution=by["distribution"], **lat["extra"], **la["extra"]))
