"""C13 — run() is idempotent; monotone re-runs equal a fresh run."""
import json

from .. import engine_tie, gen_dl, lib, prog

PROP = "C13"
PROP_FILE = "Props/C13.v"


def gen_cases(tier, seed):
    rng = lib.rng_for(seed, PROP)
    n = 36 if tier == "quick" else 400
    cases = []
    for i in range(n):
        agg = (i % 3 == 2)
        p = gen_dl.gen_strat_program(rng) if agg else gen_dl.gen_program(rng)
        i0 = gen_dl.gen_input(rng, p["rels"], style=rng.choice(["small", "mixed", "sparse_chain"]))[0]
        scripts = [[("set", i0), ("run",), ("run",)]]
        if not agg:
            f1 = gen_dl.gen_input(rng, p["rels"], style="small")[0]
            f2 = gen_dl.gen_input(rng, p["rels"], style="small")[0]
            scripts.append([("set", i0), ("run",), ("push", f1), ("run",), ("push", f2), ("run",)])
            scripts.append([("set", {}), ("run",), ("push", i0), ("run",), ("run",)])
        cases.append(dict(id="c13_%d" % i, prog=p, scripts=scripts, agg=agg))
    return cases


def known_class(m):
    return None


def tie(tier, seed, replay):
    cases = gen_cases(tier, seed)
    results = []
    for i in range(0, len(cases), 96):
        results += engine_tie.run_scripts(PROP, cases[i:i + 96], tag="c13", spec="strat")
    nskipped = sum(1 for r in results if r.get("skipped"))
    results = [r for r in results if not r.get("skipped")]
    mism, distinct, hist = [], set(), {}
    for r in results:
        # pushed facts may repeat existing rows: caller-supplied duplicates stay, so counts are compared with the model only
        mism += engine_tie.compare_scripts(r)
        for sc in r["case"]["scripts"]:
            shape = ";".join(s[0] for s in sc)
            hist[shape] = hist.get(shape, 0) + 1
            distinct.add((r["text"], json.dumps(sc, sort_keys=True, default=str)))
    sample = [dict(program=r["text"], script=r["case"]["scripts"][-1], impl=[{k: v[1][:5] for k, v in prog.canon_snap(s).items()} for s in r["impl"][-1]["snaps"]] if r["impl"] and "snaps" in r["impl"][-1] else r["impl"]) for r in results[:2]]
    return dict(evaluations=sum(len(r["case"]["scripts"]) for r in results), distinct_nontrivial=len(distinct),
                rule="random programs (2/3 positive C01-style, 1/3 stratified with aggregates / negation) x histories run;run | run;push;run;push;run | run(empty);push;run;run with facts pushed into any relation incl. derived ones; every snapshot compared; non-trivial = history with at least two runs; distinct = distinct (program, history)",
                samples=sample, distribution=dict(programs=len(results), history_shapes=hist, with_aggregates=sum(1 for r in results if r["case"]["agg"])),
                mismatches=mism,
                trusted_base=["FRONT hook + gen/dl.py plan translation; gen/prog.py generated crates", "Engine/Rerun.v models the program value between runs (stored indices kept, rows appended)"],
                assumptions=["facts pushed between runs are appended to the public Vec fields, as a user would"],
                extra=dict(cases_skipped_model_too_slow=nskipped))
