"""C17 — library aggregators: Coq model Agg/AggModel.v, theorems Props/C17.v,
tie = ds_driver agg vs vm_compute on the same argument lists."""
import itertools
import json
from fractions import Fraction

from .. import lib
from .. import c17_prog
from .. import c17_range
from .. import c17_seq

PROP = "C17"
PROP_FILE = "Props/C17.v"
PRELUDE = "From Coq Require Import List ZArith.\nFrom AV Require Import Agg.AggModel.\nFrom AV Require Import Agg.AggRange.\nImport ListNotations.\nOpen Scope Z_scope.\n"

# percentile parameters: dyadic rationals (exact in f64, so the model's rational index equals the f64 one)
PS = [(0, 1), (1, 1), (25, 1), (33, 1), (50, 1), (75, 1), (99, 1), (100, 1), (25, 2), (199, 2), (1, 4), (399, 4)]
KINDS = ["exact", "filter", "chain", "flat", "mixed", "mixedrev"]   # mixed*: inexact size hint with a positive lower bound


def gen_cases(tier, seed):
    rng = lib.rng_for(seed, PROP)
    cases = []
    dom = [-2, -1, 0, 1, 2]
    maxlen = 4 if tier == "quick" else 5
    for n in range(maxlen + 1):
        for l in itertools.product(dom, repeat=n):
            for name in ("min", "max", "sum", "mean"):
                cases.append(dict(name=name, p=(0, 1), kind="exact", vals=list(l)))
    pdom = [0, 1, 2]
    pmax = 5 if tier == "quick" else 7
    for n in range(pmax + 1):
        for l in itertools.product(pdom, repeat=n):
            if list(l) != sorted(l) and n > 3:
                continue  # longer lists: one representative per multiset, orders covered below
            for p in PS:
                cases.append(dict(name="percentile", p=p, kind="exact", vals=list(l)))
    nrand = 300 if tier == "quick" else 5000
    for _ in range(nrand):
        n = rng.choice([0, 1, 2, 3, 7, 10, 20, 33, 64, 100])
        l = [rng.randint(-1000, 1000) for _ in range(n)]
        name = rng.choice(["min", "max", "sum", "mean", "percentile"])
        p = rng.choice(PS) if name == "percentile" else (0, 1)
        cases.append(dict(name=name, p=p, kind="exact", vals=l))
    # percentile rank sweep: every integer p in 0..100 on inputs 0..len-1 (the result IS the rank); for integer p and
    # len < 2^40 the f64 product len*p is exact and the correctly rounded quotient cannot cross an integer
    lens = (list(range(1, 21)) + [25, 50, 64, 75, 99, 100, 101, 128, 150, 199, 200]) if tier == "quick" else list(range(1, 201))
    for n in lens:
        for pp in range(0, 101):
            cases.append(dict(name="percentile", p=(pp, 1), kind="exact", vals=list(range(n))))
    for n in range(0, 10 if tier == "quick" else 40):
        for kind in KINDS:
            for name in ("count", "not"):
                cases.append(dict(name=name, p=(0, 1), kind=kind, vals=list(range(n))))
    # value range: every aggregator at the integer column types, values at / near the ends of the type, totals outside it;
    # each case on the harness with and without overflow checks (gen/c17_range.py)
    cases += c17_range.gen_cases(tier, seed)
    return cases


def case_line(c):
    """`ty` (optional): the column type the aggregator is instantiated with; absent = the driver's default (mean i32, others i64)"""
    name = c["name"] + ("@" + c["ty"] if c.get("ty") else "")
    return "%s %d %d %s %s" % (name, c["p"][0], c["p"][1], c["kind"], " ".join(map(str, c["vals"])))


def parse_impl(c, line):
    """canonical implementation result: ('ok', [values]) or 'panic'; count/not also carry the hint"""
    if line == "panic":
        return "panic", None
    toks = line.split()
    assert toks[0] == "ok", line
    hint = None
    if "hint" in toks:
        i = toks.index("hint")
        hint = (int(toks[i + 1]), None if toks[i + 2] == "none" else int(toks[i + 2]))
        toks = toks[:i]
    vals = toks[1:]
    if c["name"] == "mean":
        return ("ok", [float(v) for v in vals]), hint
    return ("ok", [int(v) for v in vals]), hint


def coq_expr(c, hint):
    if c.get("ty"):
        e = c17_range.coq_expr(c)     # sum in the column type (checked / wrapped), mean with f64 exactness tracked
        if e:
            return e
    v = c17_range.zlist(c["vals"])
    n = c["name"]
    if n in ("min", "max", "sum", "mean"):
        return "agg_%s %s" % (n, v)
    if n == "percentile":
        return "agg_percentile %s %s %s" % (lib.zz(c["p"][0]), lib.zz(c["p"][1]), v)
    if n == "count":
        h = "(%s, %s)" % (lib.zz(hint[0]), "None" if hint[1] is None else "Some %s" % lib.zz(hint[1]))
        return "agg_count %s %s" % (h, lib.zz(len(c["vals"])))
    if n == "not":
        return "agg_not %s" % lib.zz(len(c["vals"]))
    raise ValueError(n)


def canon_model(c, v):
    n = c["name"]
    if c.get("ty") and c17_range.coq_expr(c):
        return c17_range.canon_model(c, v)
    if n == "percentile":
        if v == "Panic":
            return "panic"
        assert v[0] == "Ok", v
        return ("ok", list(v[1]))
    if n == "mean":
        return ("ok", [float(Fraction(s, k)) for (s, k) in v])     # the rational rounded once, as the code's single division does
    return ("ok", list(v))


def spec(c):
    """the mathematical definition, independent of model and code; None = outside sum's stated precondition (no claim)"""
    l, n = c["vals"], c["name"]
    if c.get("ty") and n in ("sum", "mean"):
        return c17_range.spec(c)
    if n == "min":
        return ("ok", [min(l)] if l else [])
    if n == "max":
        return ("ok", [max(l)] if l else [])
    if n == "sum":
        return ("ok", [sum(l)])
    if n == "count":
        return ("ok", [len(l)])
    if n == "not":
        return ("ok", [] if l else [0])
    if n == "mean":
        return ("ok", [float(Fraction(sum(l), len(l)))] if l else [])
    if n == "percentile":
        if not l:
            return ("ok", [])
        k = min(int(Fraction(len(l) * c["p"][0], c["p"][1] * 100)), len(l) - 1)
        return ("ok", [sorted(l)[k]])


def known_class(c, impl):
    if c["name"] == "percentile" and c["vals"] and Fraction(*c["p"]) >= 100 and impl == "panic":
        return "percentile_p100_panics"
    return None


def tie(tier, seed, replay):
    binary, out = lib.ds_driver_build()
    if binary is None:
        raise lib.Infra("ds_driver does not build against /repo:\n" + out[-3000:])
    pmism, pstats = [], None
    smism, sstats = [], None
    if replay:
        cases = [json.load(open(replay))["case"]]
        if cases[0].get("family") == "prog":
            pmism, pstats = c17_prog.replay(cases[0])
            cases = []
        elif cases[0].get("family") == "seq":
            smism, sstats = c17_seq.run(binary, cases, tag="C17seqreplay")
            cases = []
    else:
        corpus = [json.loads(l) for l in open(lib.VERIF + "/corpus/C17.jsonl")] if lib.os.path.exists(lib.VERIF + "/corpus/C17.jsonl") else []
        # one aggregator VALUE applied to a sequence of inputs (gen/c17_seq.py, driver suite `aggseq`)
        smism, sstats = c17_seq.run(binary, [c for c in corpus if c.get("family") == "seq"] + c17_seq.gen_cases(tier, seed))
        if any(m["kind"] == "impl_violates_spec" for m in smism):
            first = min((m for m in smism if m["kind"] == "impl_violates_spec"), key=lambda m: len(json.dumps(m["case"])))
            small = c17_seq.minimise(binary, first["case"])
            if small["seq"] != first["case"]["seq"]:
                smism += c17_seq.run(binary, [small], tag="C17seqmin")[0]
        corpus = [c for c in corpus if c.get("family") != "seq"]
        cases = [c for c in corpus if c.get("family") != "prog"] + gen_cases(tier, seed)
        pcorpus = [c for c in corpus if c.get("family") == "prog"]
        extra = [dict(id="corpus%d" % i, macro=c["macro"], rules=c["rules"], inputs=[(c.get("input_name", "corpus"), {k: [tuple(t) for t in v] for k, v in c["input"].items()})])
                 for i, c in enumerate(pcorpus)]
        # program level: the aggregators through `agg` items of compiled ascent! / ascent_par! programs (gen/c17_prog.py)
        progs = c17_prog.gen_programs(tier, seed)
        # value range: the same rule shapes (without `sum`) over aggregated columns at / near i32::MIN and i32::MAX
        progs += c17_range.range_programs(tier, seed, c17_prog)
        # the aggregator evaluated ONCE by a `let` of the rule and applied per group (own inputs: many groups of different sizes)
        progs += c17_prog.gen_bound_programs(tier, seed)
        pmism, pstats = c17_prog.run(extra + progs, c17_prog.base_inputs(lib.rng_for(seed, PROP, "proginputs"), tier))
    # two builds of the driver: overflow checks on (dev profile) / off (release profile); `build` of the case selects one
    impl_lines = [None] * len(cases)
    for b in ("debug", "release"):
        idx = [i for i, c in enumerate(cases) if c.get("build", "debug") == b]
        if not idx:
            continue
        bin_b = binary
        if b == "release":
            bin_b, rout = c17_range.release_build()
            if bin_b is None:
                raise lib.Infra("ds_driver (release profile) does not build against the repo:\n" + rout[-3000:])
        for i, l in zip(idx, lib.ds_run(bin_b, "agg", [case_line(cases[i]) for i in idx])):
            impl_lines[i] = l
    impl = [parse_impl(c, l) for c, l in zip(cases, impl_lines)]
    exprs = [coq_expr(c, h if h else (0, None)) for c, (_, h) in zip(cases, impl)]
    uniq = sorted(set(exprs))
    table = dict(zip(uniq, lib.coq_eval(PROP, PRELUDE, uniq)))
    model = [canon_model(c, table[e]) for c, e in zip(cases, exprs)]
    mism, dist, seen, by_ty, by_family, by_build, outside_pre = [], {}, set(), {}, {}, {}, 0
    for c, (iv, hint), mv in zip(cases, impl, model):
        sv = spec(c)
        dist[c["name"]] = dist.get(c["name"], 0) + 1
        by_ty[c.get("ty", "default")] = by_ty.get(c.get("ty", "default"), 0) + 1
        by_build[c.get("build", "debug")] = by_build.get(c.get("build", "debug"), 0) + 1
        if c.get("family"):
            by_family[c["family"]] = by_family.get(c["family"], 0) + 1
        if c["vals"]:
            seen.add((c["name"], tuple(c["p"]), c["kind"], tuple(c["vals"]), c.get("ty"), c.get("build")))
        at = (" at column type %s, overflow checks %s" % (c["ty"], "on" if c.get("build", "debug") == "debug" else "off")) if c.get("ty") else ""
        shown = c["vals"] if len(c["vals"]) <= 12 else "%s ... (%d values)" % (c["vals"][:12], len(c["vals"]))
        if sv is None:
            outside_pre += 1      # sum outside its stated precondition: no claim of the property; the model of the code still applies
        if sv is not None and iv != sv:
            mism.append(dict(case=c, impl=iv, model=mv, spec=sv, kind="impl_violates_spec", known=known_class(c, iv),
                             what="aggregator %s%s on %s (p=%s/%s): implementation %s, definition %s" % (c["name"], at, shown, c["p"][0], c["p"][1], iv, sv)))
        elif mv != iv:
            mism.append(dict(case=c, impl=iv, model=mv, spec=sv, kind="model_differs", known=None,
                             what="correspondence Agg/AggModel.v + Agg/AggRange.v agg_%s vs ascent::aggregators::%s%s" % (c["name"], c["name"], at)))
    lens = {}
    for c in cases:
        b = min(len(c["vals"]), 8)
        lens[b] = lens.get(b, 0) + 1
    mism += smism + pmism
    pst = pstats or dict(evaluations=0, distinct_nontrivial=0, samples=[])
    psamples = pst.pop("samples", [])
    sst = sstats or dict(evaluations=0, distinct_nontrivial=0, samples=[])
    psamples = sst.pop("samples", []) + psamples
    return dict(evaluations=len(cases) + pst["evaluations"] + sst["evaluations"], distinct_nontrivial=len(seen) + pst["distinct_nontrivial"] + sst["distinct_nontrivial"],
                rule="function level: exhaustive lists over {-2..2} up to length 4 (quick) / 5 (thorough) for min/max/sum/mean; percentile: lists over {0,1,2} x 12 dyadic p incl. 0 and 100; random long lists; count/not under 4 iterator shapes (size hints); non-trivial = non-empty input; distinct = distinct (aggregator, p, iterator kind, list, column type, build). "
                     "Value range (gen/c17_range.py): min / max / percentile / sum / count / not at i8 i16 i32 i64 u8 u16 u32 u64 and mean at i8 i16 i32 u8 u16 u32 f32: all lists of length <= 2 over the "
                     "edge values {MIN, MIN+1, MIN/2, -1, 0, 1, MAX/2, MAX/2+1, MAX-1, MAX} of the type, random lists (length 2..100) near MAX / near MIN / at both ends / uniform over the type, with repeated values, "
                     "columns of 300..700 (thorough ..5000) moderate or constant values whose total leaves the type (percentile at every p, count / not under the 4 iterator shapes), one u8 column of 70 000 rows (mean, percentile 99 / 100, count, not); sum additionally on columns whose positive / negative parts total exactly or nearly MAX / MIN; "
                     "sum is compared with the definition only inside its precondition (negative and positive inputs each total within the type), outside it only with the model of the code (panic with overflow checks, wrap without); "
                     "mean is compared bit-exactly (tolerance 0) with the exact rational mean rounded to f64: every case has sum|v| <= 2^53, so the code's f64 additions are exact and its one division is correctly rounded; "
                     "every range case runs on the driver built with overflow checks (dev profile) and without (release profile). "
                     "One aggregator VALUE applied to a sequence (gen/c17_seq.py, driver suite aggseq: `let f = percentile(p)` / `let f = min` .. bound once, applied to 2-5 inputs in a row, every result iterator consumed before the next application): "
                     "all pairs of lists over {0,1,2} of length <= 2 for min / max / sum / mean / percentile x 12 p; count / not on all pairs (thorough: triples) of lengths in {0,1,2,3,5} under the 4 iterator shapes; "
                     "shaped random sequences (non-empty then empty, empty first, long then short, short then long, repeated, same multiset reordered, disjoint value ranges, alternating with empty, random) over small / wide value domains and all column types; "
                     "EVERY application is compared with the definition on its own input and with Agg/AggStateless.v agg_seq (= the definition per input, agg_seq_independent); one evaluation = one sequence; non-trivial = some application follows a non-empty one; a failing sequence is minimised (inputs, then elements dropped). "
                     "Program level (gen/c17_prog.py): every aggregator and `!rel(..)` in `agg` items of compiled ascent! / ascent_par! rules with 0-5 body clauses, aggregate first / middle / last, "
                     "key = bound variable / constant / expression / wildcard, aggregated relation unary / binary / ternary projection, a recursive family; "
                     "the BOUND family: the aggregator evaluated once by a `let` of the rule (`let f = ascent::aggregators::percentile(50.0), a(k), agg s = (f)(x) in r(k, x)`, likewise min / max / sum / count / mean / not through `let f = ascent::aggregators::min` ..; "
                     "`let` first / after the first clause / right before the aggregate; non-recursive, recursive, one ascent_par! program) so that ONE value is applied to every group, on inputs with 8 keys whose groups have sizes 0..6 in shuffled order (+ base, aggregated relations empty, all empty); "
                     "inputs: base, base with each relation emptied in turn, "
                     "all aggregated relations empty, foreign keys only, singletons, all empty, random; value range: all mean rules and a third (thorough: all) of the min / max / count / percentile / not rules "
                     "on inputs whose aggregated relations hold values at / near i32::MIN and i32::MAX under small keys (totals far outside i32; programs are compiled with overflow checks); one evaluation = (rule, input), compared with the python definition oracle and with "
                     "Agg/AggClauseModel.v agg_clause on every (aggregator, key pattern, rows) asked; non-trivial = the aggregate is evaluated for at least one binding; distinct = distinct (macro, rule text, input)",
                samples=[dict(case=c, impl=i[0], model=m) for c, i, m in
                         [x for x in zip(cases, impl, model) if not x[0].get("ty")][:3] + [x for x in zip(cases, impl, model) if x[0].get("ty") and 2 <= len(x[0]["vals"]) <= 5 and x[0]["name"] in ("mean", "sum")][-4:]] + psamples,
                distribution=dict(by_aggregator=dist, by_input_length_capped_8=lens, percentile_ps=["%d/%d" % p for p in PS], by_column_type=by_ty, by_build=by_build, range_families=by_family,
                                  sum_cases_outside_precondition_model_only=outside_pre, one_value_many_applications=sst, program_level=pst),
                mismatches=mism,
                trusted_base=["ds_driver (Rust) + gen/props/c17.py renderers and the python definition oracle",
                              "program level: gen/c17_prog.py (program renderer, naive rule evaluator, definition oracle), gen/prog.py, rustc; the rule-level semantics around the agg item (joins, strata) is C04's subject, here only the oracle's naive evaluation",
                              "Iterator::size_hint contract of the Rust standard library (count's shortcut): hint_ok in Agg/AggLaws.v",
                              "sum: no overflow of the column type (stated precondition: every prefix total is a value of N; checked in the order independent form `negative and positive inputs each total within N`, Props/C17.v c17_sum_in_column_type); "
                              "mean: int -> f64 conversion exact for <= 32 bit integers, f64 addition exact while the result is an integer of magnitude <= 2^53, IEEE division correctly rounded; percentile: f64 arithmetic exact on the dyadic p used",
                              "cargo profiles: dev = overflow-checks on, release = off (harness/ds_driver/Cargo.toml)"],
                assumptions=["min / max / percentile / count / not / mean are modelled over unbounded Z (no intermediate of theirs has the column type; for mean this is c17_mean_not_limited_by_column_type); "
                             "sum at a column type is Agg/AggRange.v agg_sum_checked / agg_sum_wrapped; overflow of N in sum is outside the property's statement",
                             "percentile's p is a rational; for dyadic p and len < 2^20 the f64 product and quotient cannot cross an integer"])
