"""C17 — library aggregators: Coq model Agg/AggModel.v, theorems Props/C17.v,
tie = ds_driver agg vs vm_compute on the same argument lists."""
import itertools
import json
from fractions import Fraction

from .. import lib
from .. import c17_prog

PROP = "C17"
PROP_FILE = "Props/C17.v"
PRELUDE = "From Coq Require Import List ZArith.\nFrom AV Require Import Agg.AggModel.\nImport ListNotations.\nOpen Scope Z_scope.\n"

# percentile parameters: dyadic rationals (exact in f64, so the model's rational index equals the f64 one)
PS = [(0, 1), (1, 1), (25, 1), (33, 1), (50, 1), (75, 1), (99, 1), (100, 1), (25, 2), (199, 2), (1, 4), (399, 4)]
KINDS = ["exact", "filter", "chain", "flat"]


def gen_cases(tier, seed):
    rng = lib.rng_for(seed, PROP)
    cases = []
    dom = [-2, -1, 0, 1, 2]
    maxlen = 4 if tier == "quick" else 5
    for n in range(maxlen + 1):
        for l in itertools.product(dom, repeat=n):
            for name in ("min", "max", "sum", "mean"):
                cases.append(dict(name=name, p=(0, 1), kind="exact", vals=list(l)))
    pdom = [0, 1, 2]
    pmax = 5 if tier == "quick" else 7
    for n in range(pmax + 1):
        for l in itertools.product(pdom, repeat=n):
            if list(l) != sorted(l) and n > 3:
                continue  # longer lists: one representative per multiset, orders covered below
            for p in PS:
                cases.append(dict(name="percentile", p=p, kind="exact", vals=list(l)))
    nrand = 300 if tier == "quick" else 5000
    for _ in range(nrand):
        n = rng.choice([0, 1, 2, 3, 7, 10, 20, 33, 64, 100])
        l = [rng.randint(-1000, 1000) for _ in range(n)]
        name = rng.choice(["min", "max", "sum", "mean", "percentile"])
        p = rng.choice(PS) if name == "percentile" else (0, 1)
        cases.append(dict(name=name, p=p, kind="exact", vals=l))
    # percentile rank sweep: every integer p in 0..100 on inputs 0..len-1 (the result IS the rank); for integer p and
    # len < 2^40 the f64 product len*p is exact and the correctly rounded quotient cannot cross an integer
    lens = (list(range(1, 21)) + [25, 50, 64, 75, 99, 100, 101, 128, 150, 199, 200]) if tier == "quick" else list(range(1, 201))
    for n in lens:
        for pp in range(0, 101):
            cases.append(dict(name="percentile", p=(pp, 1), kind="exact", vals=list(range(n))))
    for n in range(0, 10 if tier == "quick" else 40):
        for kind in KINDS:
            for name in ("count", "not"):
                cases.append(dict(name=name, p=(0, 1), kind=kind, vals=list(range(n))))
    return cases


def case_line(c):
    return "%s %d %d %s %s" % (c["name"], c["p"][0], c["p"][1], c["kind"], " ".join(map(str, c["vals"])))


def parse_impl(c, line):
    """canonical implementation result: ('ok', [values]) or 'panic'; count/not also carry the hint"""
    if line == "panic":
        return "panic", None
    toks = line.split()
    assert toks[0] == "ok", line
    hint = None
    if "hint" in toks:
        i = toks.index("hint")
        hint = (int(toks[i + 1]), None if toks[i + 2] == "none" else int(toks[i + 2]))
        toks = toks[:i]
    vals = toks[1:]
    if c["name"] == "mean":
        return ("ok", [float(v) for v in vals]), hint
    return ("ok", [int(v) for v in vals]), hint


def coq_expr(c, hint):
    v = lib.zlist(c["vals"])
    n = c["name"]
    if n in ("min", "max", "sum", "mean"):
        return "agg_%s %s" % (n, v)
    if n == "percentile":
        return "agg_percentile %s %s %s" % (lib.zz(c["p"][0]), lib.zz(c["p"][1]), v)
    if n == "count":
        h = "(%s, %s)" % (lib.zz(hint[0]), "None" if hint[1] is None else "Some %s" % lib.zz(hint[1]))
        return "agg_count %s %s" % (h, lib.zz(len(c["vals"])))
    if n == "not":
        return "agg_not %s" % lib.zz(len(c["vals"]))
    raise ValueError(n)


def canon_model(c, v):
    n = c["name"]
    if n == "percentile":
        if v == "Panic":
            return "panic"
        assert v[0] == "Ok", v
        return ("ok", list(v[1]))
    if n == "mean":
        return ("ok", [float(s) / float(k) for (s, k) in v])
    return ("ok", list(v))


def spec(c):
    """the mathematical definition, independent of model and code"""
    l, n = c["vals"], c["name"]
    if n == "min":
        return ("ok", [min(l)] if l else [])
    if n == "max":
        return ("ok", [max(l)] if l else [])
    if n == "sum":
        return ("ok", [sum(l)])
    if n == "count":
        return ("ok", [len(l)])
    if n == "not":
        return ("ok", [] if l else [0])
    if n == "mean":
        return ("ok", [float(Fraction(sum(l), len(l)))] if l else [])
    if n == "percentile":
        if not l:
            return ("ok", [])
        k = min(int(Fraction(len(l) * c["p"][0], c["p"][1] * 100)), len(l) - 1)
        return ("ok", [sorted(l)[k]])


def known_class(c, impl):
    if c["name"] == "percentile" and c["vals"] and Fraction(*c["p"]) >= 100 and impl == "panic":
        return "percentile_p100_panics"
    return None


def tie(tier, seed, replay):
    binary, out = lib.ds_driver_build()
    if binary is None:
        raise lib.Infra("ds_driver does not build against /repo:\n" + out[-3000:])
    pmism, pstats = [], None
    if replay:
        cases = [json.load(open(replay))["case"]]
        if cases[0].get("family") == "prog":
            pmism, pstats = c17_prog.replay(cases[0])
            cases = []
    else:
        corpus = [json.loads(l) for l in open(lib.VERIF + "/corpus/C17.jsonl")] if lib.os.path.exists(lib.VERIF + "/corpus/C17.jsonl") else []
        cases = [c for c in corpus if c.get("family") != "prog"] + gen_cases(tier, seed)
        pcorpus = [c for c in corpus if c.get("family") == "prog"]
        extra = [dict(id="corpus%d" % i, macro=c["macro"], rules=c["rules"], inputs=[(c.get("input_name", "corpus"), {k: [tuple(t) for t in v] for k, v in c["input"].items()})])
                 for i, c in enumerate(pcorpus)]
        # program level: the aggregators through `agg` items of compiled ascent! / ascent_par! programs (gen/c17_prog.py)
        progs = c17_prog.gen_programs(tier, seed)
        pmism, pstats = c17_prog.run(extra + progs, c17_prog.base_inputs(lib.rng_for(seed, PROP, "proginputs"), tier))
    impl_lines = lib.ds_run(binary, "agg", [case_line(c) for c in cases]) if cases else []
    impl = [parse_impl(c, l) for c, l in zip(cases, impl_lines)]
    exprs = [coq_expr(c, h if h else (0, None)) for c, (_, h) in zip(cases, impl)]
    model = [canon_model(c, v) for c, v in zip(cases, lib.coq_eval(PROP, PRELUDE, exprs))]
    mism, dist, seen = [], {}, set()
    for c, (iv, hint), mv in zip(cases, impl, model):
        sv = spec(c)
        dist[c["name"]] = dist.get(c["name"], 0) + 1
        if c["vals"]:
            seen.add((c["name"], tuple(c["p"]), c["kind"], tuple(c["vals"])))
        if iv != sv:
            mism.append(dict(case=c, impl=iv, model=mv, spec=sv, kind="impl_violates_spec", known=known_class(c, iv),
                             what="aggregator %s on %s (p=%s/%s): implementation %s, definition %s" % (c["name"], c["vals"], c["p"][0], c["p"][1], iv, sv)))
        elif mv != iv:
            mism.append(dict(case=c, impl=iv, model=mv, spec=sv, kind="model_differs", known=None,
                             what="correspondence Agg/AggModel.v agg_%s vs ascent::aggregators::%s" % (c["name"], c["name"])))
    lens = {}
    for c in cases:
        b = min(len(c["vals"]), 8)
        lens[b] = lens.get(b, 0) + 1
    mism += pmism
    pst = pstats or dict(evaluations=0, distinct_nontrivial=0, samples=[])
    psamples = pst.pop("samples", [])
    return dict(evaluations=len(cases) + pst["evaluations"], distinct_nontrivial=len(seen) + pst["distinct_nontrivial"],
                rule="function level: exhaustive lists over {-2..2} up to length 4 (quick) / 5 (thorough) for min/max/sum/mean; percentile: lists over {0,1,2} x 12 dyadic p incl. 0 and 100; random long lists; count/not under 4 iterator shapes (size hints); non-trivial = non-empty input; distinct = distinct (aggregator, p, iterator kind, list). "
                     "Program level (gen/c17_prog.py): every aggregator and `!rel(..)` in `agg` items of compiled ascent! / ascent_par! rules with 0-5 body clauses, aggregate first / middle / last, "
                     "key = bound variable / constant / expression / wildcard, aggregated relation unary / binary / ternary projection, a recursive family; inputs: base, base with each relation emptied in turn, "
                     "all aggregated relations empty, foreign keys only, singletons, all empty, random; one evaluation = (rule, input), compared with the python definition oracle and with "
                     "Agg/AggClauseModel.v agg_clause on every (aggregator, key pattern, rows) asked; non-trivial = the aggregate is evaluated for at least one binding; distinct = distinct (macro, rule text, input)",
                samples=[dict(case=c, impl=i[0], model=m) for c, i, m in list(zip(cases, impl, model))[:3] + list(zip(cases, impl, model))[-2:]] + psamples,
                distribution=dict(by_aggregator=dist, by_input_length_capped_8=lens, percentile_ps=["%d/%d" % p for p in PS], program_level=pst),
                mismatches=mism,
                trusted_base=["ds_driver (Rust) + gen/props/c17.py renderers and the python definition oracle",
                              "program level: gen/c17_prog.py (program renderer, naive rule evaluator, definition oracle), gen/prog.py, rustc; the rule-level semantics around the agg item (joins, strata) is C04's subject, here only the oracle's naive evaluation",
                              "Iterator::size_hint contract of the Rust standard library (count's shortcut): hint_ok in Agg/AggLaws.v",
                              "sum: no overflow of the column type (stated precondition); mean/percentile: f64 arithmetic exact on the small integers / dyadic p used"],
                assumptions=["values are modelled as unbounded Z; overflow of N in sum is outside the property's statement",
                             "percentile's p is a rational; for dyadic p and len < 2^20 the f64 product and quotient cannot cross an integer"])
