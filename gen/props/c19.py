"""C19 — index building blocks behave as multimaps.

Coq: Index/MultiMap.v (specification), Index/IndexModel.v (executable mirror of ascent/src/{internal,
rel_index_read,c_rel_*,c_lat_index}.rs), Index/IndexRefine.v + Index/ConcIndex.v (theorems), Props/C19.v.
Tie: operation histories run (a) against the real types by harness/ds_index, (b) in the Coq model by
vm_compute, (c) through an independent python multimap / set / map oracle; compared three ways.
For concurrent phases the real schedule is not observable: the oracle states the final content
(multiset union of all inserts; one winner per racing key), the model is run under one random interleaving
and everything schedule-dependent (value kept for a raced key, order inside a vector) is masked."""
import collections
import itertools
import concurrent.futures as cf
import json
import os
import subprocess

from .. import lib
from .. import c19_contention

PROP = "C19"
PROP_FILE = "Props/C19.v"
HARNESS = "ds_index"
TYPES = ["hv", "hvt", "fm", "lat", "ni", "cri", "cfi", "clat", "cni"]
CONC = {"cri", "cfi", "clat", "cni"}
DASH = {"cri", "cfi", "clat"}
MULTI = {"hv", "hvt", "ni", "cri", "cni"}      # vector backed: multiset of (key, value), order inside a vector is deterministic
SETS = {"lat", "clat"}                          # set of (key, value)
MAPS = {"fm", "cfi"}                            # set of keys, one value each
SUITES = {"p1": 4, "p2": 8, "p4": 16}           # harness process flavour -> number of DashMap shards
NKEYS = 16                                      # keys for which the real shard placement is measured
MODES = ["r1", "r2", "r3", "r8", "std"]
BATCH = 40


# ---------------------------------------------------------------------------------------------- generation

def reads_all(t, keys, slots=(2, 1, 0), combined=True):
    ops = []
    for s in slots:
        for k in keys:
            ops.append(["get", s, k])
            if t in MAPS:
                ops.append(["has", s, k])
        ops.append(["len", s])
        ops.append(["emp", s])
        if t != "ni":
            ops.append(["iter", s])
    if combined and t != "ni":
        for k in keys:
            ops.append(["cget", k])
        ops += [["clen"], ["cemp"], ["citer"]]
    return ops


def freeze_all(t):
    return [["frz", 0], ["frz", 1], ["frz", 2]] if t in CONC else []


def exhaustive(t, m_all, m_two, kinds):
    """every sequence of up to m_all inserts into (slot in new/delta/total) x (key in 0,1), and of exactly
    m_all+1 .. m_two inserts into (delta/total) x (key in 0,1); then merge; then every read.  Both relative
    sizes of delta and total (map level and per-key vector level) occur."""
    cases = []
    keys = [0, 1]
    probe = [0] if t in ("ni", "cni") else [0, 1, 2]
    for kind in kinds:
        fams = [(m, (0, 1, 2)) for m in range(m_all + 1)] + [(m, (1, 2)) for m in range(m_all + 1, m_two + 1)]
        for m, slots in fams:
            for seq in itertools.product(list(itertools.product(slots, keys)), repeat=m):
                ops = []
                for i, (s, k) in enumerate(seq):
                    v = 10 + i if t not in SETS else (i % 2)
                    ops.append([kind, s, k, v])
                ops.append(["merge"])
                ops += freeze_all(t)
                ops += reads_all(t, probe)
                cases.append(dict(type=t, suite="p1", P=2, n=[2, 2, 2], ops=ops, family="exhaustive"))
    return cases


def rand_par(rng, t, slot):
    ntasks = rng.choice([1, 2, 2, 3, 3, 4, 8])
    tasks = []
    kmax = 2 if rng.random() < 0.5 else 5
    for ti in range(ntasks):
        items = []
        for _ in range(rng.randint(0, 4)):
            kind = "n" if (t == "cfi" and rng.random() < 0.7) else "i"
            k = rng.randint(0, kmax)
            v = rng.randint(0, 2) if t in SETS else rng.randint(0, 99)
            items.append([kind, k, v])
        tasks.append(items)
    # one interleaving for the model
    order = [ti for ti, tk in enumerate(tasks) for _ in tk]
    rng.shuffle(order)
    return ["par", slot, rng.choice(MODES), rng.randint(0, 10 ** 6), tasks, order]


def random_history(rng, t):
    suite = "p1" if t not in DASH else rng.choice(["p1", "p1", "p2", "p4"])
    P = rng.choice([1, 2, 3])
    n = [P, P, P]
    unequal = False
    if t == "cni" and rng.random() < 0.25:
        n = [rng.choice([1, 2, 3]) for _ in range(3)]
        unequal = len(set(n)) > 1
    if t in DASH and rng.random() < 0.3:
        # DashMap-backed indices created inside pools of different sizes: the shard count is a process constant
        # (`shards_count()` is evaluated once), so the model does not depend on n; `unequal` stays False
        n = [rng.choice([1, 2, 3, 4]) for _ in range(3)]
    violate = t in CONC and rng.random() < 0.08     # leave the freeze protocol once in a while
    frozen = [False] * 3
    ops = []
    nk = rng.choice([2, 3, 6])
    vdom = 3 if t in SETS else 50

    def key():
        if t == "cni":
            return rng.randrange(P)
        return rng.randrange(nk)

    def want(s, fr):
        if t in CONC and frozen[s] != fr and not (violate and rng.random() < 0.3):
            ops.append(["frz" if fr else "unf", s])
            frozen[s] = fr

    for _ in range(rng.randint(3, 22)):
        r = rng.random()
        s = rng.choice([0, 0, 1, 1, 2, 2, 2])
        if r < 0.42:
            kind = "ins"
            if t in CONC and rng.random() < 0.4:
                kind = "cins"
            if t in MAPS and rng.random() < 0.6:
                kind = "np" if kind == "ins" else "cnp"
            want(s, False)
            if kind == "np" and t == "cfi":
                frozen[s] = False
            ops.append([kind, s, key(), rng.randrange(vdom)])
        elif r < 0.50 and t in CONC:
            want(s, False)
            ops.append(rand_par(rng, t, s))
        elif r < 0.62:
            for x in (0, 1, 2):
                want(x, False)
            ops.append(["merge"])
            frozen[0], frozen[1] = frozen[1], frozen[0]
        elif r < 0.68:
            a, b = rng.sample([0, 1, 2], 2)
            want(a, False)
            want(b, False)
            ops.append(["move", a, b])
        elif r < 0.74 and t != "ni":
            want(1, True)
            want(2, True)
            ops.append(rng.choice([["cget", key()], ["clen"], ["cemp"], ["citer"]]))
        elif r < 0.78 and t in CONC:
            fr = rng.random() < 0.5
            ops.append(["frz" if fr else "unf", s])
            frozen[s] = fr
        else:
            want(s, True)
            c = rng.random()
            if c < 0.5:
                ops.append(["get", s, rng.randrange(nk + 1) if t != "cni" else 0])
            elif c < 0.6 and t in MAPS:
                ops.append(["has", s, rng.randrange(nk + 1)])
            elif c < 0.7:
                ops.append(["len", s])
            elif c < 0.8:
                ops.append(["emp", s])
            elif t != "ni":
                ops.append(["iter", s])
    # epilogue: everything is read once
    if t in CONC:
        ops += [["frz", 0], ["frz", 1], ["frz", 2]]
    ops += reads_all(t, [0] if t in ("ni", "cni") else list(range(nk)), combined=(t != "ni"))
    return dict(type=t, suite=suite, P=P, n=n, ops=ops, unequal=unequal, family="random")


def conc_focus(rng, t):
    """many threads racing on few keys, then a full read"""
    s = 2
    ops = []
    if rng.random() < 0.5:
        ops.append(["ins" if t != "cfi" else "np", s, 0, 1])
    for _ in range(rng.randint(1, 3)):
        ops.append(rand_par(rng, t, s))
    ops += [["frz", 0], ["frz", 1], ["frz", 2]]
    ops += reads_all(t, [0] if t == "cni" else list(range(6)), slots=(2,), combined=False)
    P = rng.choice([1, 2, 3])
    return dict(type=t, suite=rng.choice(["p1", "p2"]) if t in DASH else "p1", P=P, n=[P, P, P], ops=ops, unequal=False, family="race")


def gen_cases(tier, seed):
    rng = lib.rng_for(seed, PROP)
    cases = []
    quick = tier == "quick"
    for t in TYPES:
        kinds = ["ins"]
        if t in MAPS:
            kinds = ["ins", "np"]
        if quick:
            cases += exhaustive(t, 2, 3, kinds) if t in MAPS else exhaustive(t, 3, 3, kinds)
        else:
            cases += exhaustive(t, 3, 5, kinds) if t in MAPS else exhaustive(t, 4, 5, kinds)
        nrand = 260 if quick else 7500
        for _ in range(nrand):
            cases.append(random_history(rng, t))
        if t in CONC:
            for _ in range(60 if quick else 2000):
                cases.append(conc_focus(rng, t))
    return cases


# ---------------------------------------------------------------------------------------------- rendering

def case_line(c):
    toks = [c["type"], str(c["P"])] + [str(x) for x in c["n"]]
    for o in c["ops"]:
        if o[0] == "par":
            _, s, mode, sd, tasks, _order = o
            script = "/".join("+".join("%s:%d:%d" % (k, a, b) for k, a, b in tk) for tk in tasks) if tasks else "-"
            toks.append("par,%d,%s,%d,%s" % (s, mode, sd, script))
        else:
            toks.append(",".join(str(x) for x in o))
    return " ".join(toks)


COQ_OP = dict(ins="OIns", cins="OCIns", np="ONp", cnp="OCNp", get="OGet", has="OHas", len="OLen", emp="OEmp",
              iter="OIter", move="OMove", frz="OFrz", unf="OUnf", cget="OCombGet")


def coq_ops(c, tidl=()):
    """tidl: for each parallel phase (in order) the rayon worker index that ran each task, as observed in the
    harness run — CRelNoIndex places an insert in the shard of the calling worker"""
    out = []
    npar = 0
    for o in c["ops"]:
        h = o[0]
        if h == "merge":
            out.append("OMerge")
        elif h in ("clen", "cemp", "citer"):
            out.append({"clen": "OCombLen", "cemp": "OCombEmp", "citer": "OCombIter"}[h])
        elif h == "par":
            _, s, _mode, _sd, tasks, order = o
            pos = [0] * len(tasks)
            sched = []
            tids = tidl[npar] if npar < len(tidl) else []
            npar += 1
            for ti in order:
                kind, k, v = tasks[ti][pos[ti]]
                pos[ti] += 1
                kk = (tids[ti] if ti < len(tids) else 0) if c["type"] == "cni" else k     # CRelNoIndex: the key field carries a thread index
                sched.append("(%d, %d, %d)" % (0 if kind == "i" else 1, kk, v))
            out.append("OPar %d [%s]" % (s, "; ".join(sched)))
        else:
            out.append("%s %s" % (COQ_OP[h], " ".join(str(x) for x in o[1:])))
    return "[" + "; ".join(out) + "]"


def coq_impl(c):
    t = c["type"]
    if t in ("hv", "hvt"):
        return "(I_hv sh_rev)"
    if t == "fm":
        return "(I_fm sh_rev)"
    if t == "lat":
        return "(I_lat sh_rev)"
    if t == "ni":
        return "I_ni"
    if t == "cni":
        return "(I_cni %d %d %d)" % tuple(c["n"])
    return "(I_%s sh_rev H_%s_%s %d)" % (t, t, c["suite"], SUITES[c["suite"]])


def coq_expr(c, tidl=()):
    return "run0 %s %s" % (coq_impl(c), coq_ops(c, tidl))


# ---------------------------------------------------------------------------------------------- parsing results

def parse_vals(s):
    return [] if s == "-" else [int(x) for x in s.split(",")]


def parse_impl(line):
    """list of ('g', None | [v..]) ('b', bool) ('n', int) ('it', [(k, [v..])..]) ('w', [(k, c)..]) 'panic' 'unsup'"""
    res = []
    tidl = []
    for tok in [x.strip() for x in line.split(" ; ")] if line.strip() else []:
        if tok in ("panic", "unsup"):
            res.append(tok)
            continue
        h, _, rest = tok.partition(" ")
        rest = rest.strip()
        if h == "g":
            res.append(("g", None if rest == "none" else parse_vals(rest)))
        elif h == "b":
            res.append(("b", rest == "1"))
        elif h == "n":
            res.append(("n", int(rest)))
        elif h == "it":
            ents = []
            for e in rest.split("|") if rest else []:
                k, _, vs = e.partition("=")
                ents.append((int(k), parse_vals(vs)))
            res.append(("it", ents))
        elif h == "w":
            ents = []
            wins, _, tids = rest.partition("@")
            for e in wins.strip().split(",") if wins.strip() else []:
                k, _, cnt = e.partition(":")
                ents.append((int(k), int(cnt)))
            res.append(("w", ents))
            tidl.append([int(x) for x in tids.strip().split(",")] if tids.strip() else [])
        else:
            raise lib.Infra("unparsable harness token %r in %r" % (tok, line))
    return res, tidl


def parse_model(v):
    res = []
    for r in v:
        if r == "RPanic":
            res.append("panic")
        elif r == "RUnsup":
            res.append("unsup")
        elif r[0] == "RGet":
            res.append(("g", None if r[1] == "None" else list(r[1][1])))
        elif r[0] == "RBool":
            res.append(("b", bool(r[1])))
        elif r[0] == "RNum":
            res.append(("n", int(r[1])))
        elif r[0] == "RIter":
            res.append(("it", [(k, list(vs)) for (k, vs) in r[1]]))
        elif r[0] == "RPar":
            per = collections.OrderedDict()
            for (k, b) in r[1]:
                per[k] = per.get(k, 0) + (1 if b else 0)
            res.append(("w", sorted(per.items())))
        else:
            raise lib.Infra("unparsable model value %r" % (r,))
    return res


# ---------------------------------------------------------------------------------------------- specification oracle

class Spec:
    """independent statement of the property on one history: three abstract containers
    multimap: Counter of (k, v);  set: set of (k, v);  map: dict k -> set of admissible values.
    check() walks the history with the implementation's outputs and returns (reason or None, masks)."""

    def __init__(self, c):
        self.c = c
        self.t = c["type"]
        self.kind = "multi" if self.t in MULTI else ("set" if self.t in SETS else "map")
        self.st = [self.empty() for _ in range(3)]
        self.nd = [set() for _ in range(3)]        # keys whose value depends on the schedule (map kind)
        self.frozen = [False] * 3

    def empty(self):
        return collections.Counter() if self.kind == "multi" else (set() if self.kind == "set" else {})

    def key_of(self, k):
        return 0 if self.t in ("ni", "cni") else k

    def add(self, s, k, v):
        k = self.key_of(k)
        if self.kind == "multi":
            self.st[s][(k, v)] += 1
        elif self.kind == "set":
            self.st[s].add((k, v))
        else:
            self.st[s][k] = {v}
            self.nd[s].discard(k)

    def union_into(self, a, b):
        """b := b + a ; a := empty"""
        if self.kind == "multi":
            self.st[b].update(self.st[a])
        elif self.kind == "set":
            self.st[b] |= self.st[a]
        else:
            for k, vs in self.st[a].items():
                if k in self.st[b]:
                    # one of the two values survives; which one is decided by the sizes (the model is exact here)
                    self.st[b][k] = self.st[b][k] | vs
                    if k in self.nd[a]:
                        self.nd[b].add(k)
                else:
                    self.st[b][k] = set(vs)
                    if k in self.nd[a]:
                        self.nd[b].add(k)
                    else:
                        self.nd[b].discard(k)
        self.st[a] = self.empty()
        self.nd[a] = set()

    def lookup(self, s, k):
        k = self.key_of(k)
        if self.kind == "multi":
            r = sorted(v for (kk, v), n in self.st[s].items() if kk == k for _ in range(n))
        elif self.kind == "set":
            r = sorted(v for (kk, v) in self.st[s] if kk == k)
        else:
            return self.st[s].get(k)
        return r or None

    def keys(self, s):
        if self.kind == "map":
            return set(self.st[s])
        return set(k for (k, _v) in self.st[s])

    def entries(self, s):
        """sorted [(k, sorted values)] ; map kind: [(k, admissible set)]"""
        if self.kind == "map":
            return sorted(self.st[s].items())
        return [(k, self.lookup(s, k)) for k in sorted(self.keys(s))]

    # ---- checking one output
    def chk_get(self, got, s, k):
        if got[0] != "g":
            return "expected a lookup result, got %r" % (got,)
        if self.t in ("ni", "cni"):
            exp = self.lookup(s, 0) or []
            # the vector types answer Some(all values) even when empty
            return None if got[1] is not None and sorted(got[1]) == exp else "lookup returned %r, inserted %r" % (got[1], exp)
        exp = self.lookup(s, k)
        if self.kind == "map":
            if exp is None:
                return None if got[1] is None else "lookup of absent key %d returned %r" % (k, got[1])
            ok = got[1] is not None and len(got[1]) == 1 and got[1][0] in exp
            return None if ok else "lookup of key %d returned %r, admissible %r" % (k, got[1], sorted(exp))
        if exp is None:
            return None if got[1] is None else "lookup of absent key %d returned %r" % (k, got[1])
        return None if got[1] is not None and sorted(got[1]) == exp else "lookup of key %d returned %r, inserted %r" % (k, got[1], exp)

    def chk_entries(self, got, ents):
        """ents: list of per-container entry lists (combined view = two containers chained)"""
        if got[0] != "it":
            return "expected an iteration result, got %r" % (got,)
        g = sorted((k, sorted(vs)) for k, vs in got[1])
        if self.t in ("ni", "cni"):
            exp = sorted((0, e[0][1] if e else []) for e in ents)
            return None if g == exp else "iteration returned %r, content %r" % (g, exp)
        if self.kind == "map":
            exp = sorted((k, vs) for e in ents for (k, vs) in e)
            if len(g) != len(exp):
                return "iteration returned %r, content %r" % (g, exp)
            for (k, vs), (ek, evs) in zip(g, sorted(exp, key=lambda x: x[0])):
                pass
            gm = collections.Counter(k for k, _ in g)
            em = collections.Counter(k for k, _ in exp)
            if gm != em:
                return "iteration keys %r, content keys %r" % (sorted(gm.elements()), sorted(em.elements()))
            adm = collections.defaultdict(list)
            for k, vs in exp:
                adm[k].append(vs)
            for k, vs in g:
                if len(vs) != 1 or not any(vs[0] in a for a in adm[k]):
                    return "iteration entry %d=%r not admissible %r" % (k, vs, [sorted(a) for a in adm[k]])
            return None
        exp = sorted((k, vs) for e in ents for (k, vs) in e)
        return None if g == exp else "iteration returned %r, content %r" % (g, exp)

    def exact_len(self):
        return self.t not in ("cri", "cni")

    def size(self, s):
        return sum(self.st[s].values()) if self.t == "ni" else len(self.keys(s))

    def check(self, impl):
        """returns (reason or None, masks, n_outputs_checked); masks[i] = set of keys to blank in output i
        (schedule dependent) for the implementation / model comparison"""
        t, c = self.t, self.c
        masks = []
        i = 0
        unequal = c.get("unequal")
        inserted = collections.Counter()
        eqn_broken = False       # cni with unequal shard counts: a move/merge happened
        unspec = False           # the history left the freeze protocol: nothing is specified from there on
        self.left_protocol_at = None
        for o in c["ops"]:
            h = o[0]
            produces = h in ("np", "cnp", "get", "has", "len", "emp", "iter", "cget", "clen", "cemp", "citer", "par")
            got = None
            if produces:
                if i >= len(impl):
                    return "history ended early: no output for %r" % (o,), masks, i
                got = impl[i]
            # ---- protocol (typestate) of the concurrent types: outside it nothing is specified
            if t in CONC:
                viol = False
                if h in ("ins", "cins", "cnp", "par") and self.frozen[o[1]]:
                    viol = not (t == "cni" and h == "ins")
                if h == "np" and self.frozen[o[1]]:
                    viol = True
                if h in ("get", "has", "iter") and not self.frozen[o[1]]:
                    viol = True
                if h in ("len", "emp") and not self.frozen[o[1]] and t != "cni":
                    viol = True
                if h in ("cget", "citer", "clen", "cemp") and not (self.frozen[1] and self.frozen[2]):
                    viol = not (t == "cni" and h in ("clen", "cemp"))
                if h in ("move",) and (self.frozen[o[1]] or self.frozen[o[2]]) and t != "cni":
                    viol = True
                if h == "merge" and (self.frozen[1] or self.frozen[2]) and t != "cni":
                    viol = True
                if viol and not unspec:
                    unspec = True      # unspecified from here on: only implementation vs model is compared
                    self.left_protocol_at = i
            if got in ("panic", "unsup"):
                if unspec:
                    return None, masks, i
                return "%s at %r inside the protocol" % (got, o), masks, i
            if (unspec or (unequal and eqn_broken)) and h not in ("ins", "cins", "merge", "move", "frz", "unf"):
                # equal shard counts are a stated precondition of the merge equation (only conservation is specified
                # without it); outside the freeze protocol nothing is specified.  The abstract state is still advanced
                # (it decides what is schedule dependent and must be masked when implementation and model are compared).
                if h in ("np", "cnp"):
                    if self.kind == "map" and got == ("b", True):
                        self.add(o[1], o[2], o[3])
                    if t == "cfi" and h == "np":
                        self.frozen[o[1]] = False
                    masks.append(None)
                elif h == "par":
                    _, s, _mode, _sd, tasks, _order = o
                    items = [it for tk in tasks for it in tk]
                    ndw = set()
                    if self.kind == "map":
                        for k in sorted(set(k for _, k, _ in items)):
                            ivals = [v for kd, kk, v in items if kk == k and kd == "i"]
                            nvals = [v for kd, kk, v in items if kk == k and kd == "n"]
                            present = k in self.st[s]
                            if nvals and ivals:
                                ndw.add(k)
                            if ivals:
                                self.st[s][k] = set(ivals)
                            elif not present:
                                self.st[s][k] = set(nvals)
                            else:
                                continue
                            if len(self.st[s][k]) > 1:
                                self.nd[s].add(k)
                            else:
                                self.nd[s].discard(k)
                    else:
                        for kd, k, v in items:
                            self.add(s, k, v)
                    masks.append(ndw)
                elif h in ("get", "iter"):
                    masks.append(set(self.nd[o[1]]))
                elif h in ("cget", "citer"):
                    masks.append(set(self.nd[1]) | set(self.nd[2]))
                else:
                    masks.append(None)
                i += 1
                continue
            if h in ("ins", "cins"):
                self.add(o[1], o[2], o[3])
                inserted[o[3]] += 1
            elif h in ("np", "cnp"):
                if self.kind != "map":
                    return "insert_if_not_present on a non-full index", masks, i
                absent = o[2] not in self.st[o[1]]
                if got != ("b", absent):
                    return "insert_if_not_present key %d returned %r, key %s" % (o[2], got, "absent" if absent else "present"), masks, i
                if absent:
                    self.add(o[1], o[2], o[3])
                masks.append(None)
                i += 1
            elif h == "par":
                _, s, _mode, _sd, tasks, _order = o
                items = [it for tk in tasks for it in tk]
                wexp = {}
                ndw = set()
                if self.kind == "map":
                    for k in sorted(set(k for _, k, _ in items)):
                        ivals = [v for kd, kk, v in items if kk == k and kd == "i"]
                        nvals = [v for kd, kk, v in items if kk == k and kd == "n"]
                        present = k in self.st[s]
                        if nvals:
                            if present:
                                wexp[k] = {0}
                            elif ivals:
                                wexp[k] = {0, 1}
                                ndw.add(k)
                            else:
                                wexp[k] = {1}
                        if ivals:
                            self.st[s][k] = set(ivals)
                        elif not present:
                            self.st[s][k] = set(nvals)
                        else:
                            continue
                        if len(self.st[s][k]) > 1:
                            self.nd[s].add(k)
                        else:
                            self.nd[s].discard(k)
                else:
                    for kd, k, v in items:
                        if kd != "i":
                            return "insert_if_not_present on a non-full index", masks, i
                        self.add(s, k, v)
                        inserted[v] += 1
                if got[0] != "w":
                    return "expected winners, got %r" % (got,), masks, i
                gw = dict(got[1])
                if set(gw) != set(wexp):
                    return "winner keys %r expected %r" % (sorted(gw), sorted(wexp)), masks, i
                for k, cnt in gw.items():
                    if cnt not in wexp[k]:
                        return "insert_if_not_present racing on key %d: %d winners, expected %r" % (k, cnt, sorted(wexp[k])), masks, i
                masks.append(ndw)
                i += 1
            elif h == "merge":
                if unequal:
                    eqn_broken = True
                self.union_into(1, 2)
                self.st[0], self.st[1] = self.st[1], self.st[0]
                self.nd[0], self.nd[1] = self.nd[1], self.nd[0]
                self.frozen[0], self.frozen[1] = self.frozen[1], self.frozen[0]   # the values are swapped, flags included
            elif h == "move":
                if unequal and c["n"][o[1]] != c["n"][o[2]]:
                    eqn_broken = True
                self.union_into(o[1], o[2])
            elif h == "frz":
                self.frozen[o[1]] = True
            elif h == "unf":
                self.frozen[o[1]] = False
            elif h == "get":
                r = self.chk_get(got, o[1], o[2])
                if r:
                    return r, masks, i
                masks.append(set(self.nd[o[1]]))
                i += 1
            elif h == "has":
                exp = ("b", o[2] in self.keys(o[1]))
                if got != exp:
                    return "contains_key %d returned %r" % (o[2], got), masks, i
                masks.append(None)
                i += 1
            elif h == "len":
                if self.exact_len() and got != ("n", self.size(o[1])):
                    return "len_estimate %r, distinct keys %d" % (got, self.size(o[1])), masks, i
                masks.append(None)
                i += 1
            elif h == "emp":
                if t != "cni" and got != ("b", self.size(o[1]) == 0):
                    return "is_empty %r, size %d" % (got, self.size(o[1])), masks, i
                if t == "cni" and got == ("b", True) and self.size(o[1]) > 0:
                    return "is_empty true on a non-empty index", masks, i
                masks.append(None)
                i += 1
            elif h == "iter":
                r = self.chk_entries(got, [self.entries(o[1])])
                if r:
                    return r, masks, i
                masks.append(set(self.nd[o[1]]))
                i += 1
            elif h == "cget":
                k = o[1]
                a, b = self.lookup(2, k), self.lookup(1, k)
                if self.t in ("ni", "cni"):
                    exp = sorted((a or []) + (b or []))
                    if got[0] != "g" or got[1] is None or sorted(got[1]) != exp:
                        return "combined lookup %r, total+delta %r" % (got, exp), masks, i
                elif self.kind == "map":
                    n = (a is not None) + (b is not None)
                    if got[0] != "g" or (got[1] is None) != (n == 0) or (got[1] is not None and len(got[1]) != n):
                        return "combined lookup of key %d returned %r, total %r delta %r" % (k, got, a, b), masks, i
                    if got[1] is not None:
                        adm = [x for x in (a, b) if x is not None]
                        rest = list(got[1])
                        if not all(any(v in x for x in adm) for v in rest):
                            return "combined lookup of key %d returned %r, admissible %r" % (k, got, [sorted(x) for x in adm]), masks, i
                else:
                    exp = sorted((a or []) + (b or [])) or None
                    g = None if got[1] is None else sorted(got[1])
                    if got[0] != "g" or g != exp:
                        return "combined lookup of key %d returned %r, total+delta %r" % (k, got, exp), masks, i
                masks.append(set(self.nd[1]) | set(self.nd[2]))
                i += 1
            elif h == "clen":
                if self.exact_len() and got != ("n", self.size(2) + self.size(1)):
                    return "combined len_estimate %r" % (got,), masks, i
                masks.append(None)
                i += 1
            elif h == "cemp":
                if t != "cni" and got != ("b", self.size(2) + self.size(1) == 0):
                    return "combined is_empty %r" % (got,), masks, i
                masks.append(None)
                i += 1
            elif h == "citer":
                r = self.chk_entries(got, [self.entries(2), self.entries(1)])
                if r:
                    return r, masks, i
                masks.append(set(self.nd[1]) | set(self.nd[2]))
                i += 1
        if i != len(impl):
            return "extra output %r" % (impl[i:],), masks, i
        return None, masks, i


def conservation(c, impl):
    """CRelNoIndex with different shard counts: the three final lookups together hold every inserted value once"""
    if any(r in ("panic", "unsup") for r in impl):
        return None   # the history left the freeze protocol and stopped: the read-out did not happen
    ins = collections.Counter()
    for o in c["ops"]:
        if o[0] in ("ins", "cins"):
            ins[o[3]] += 1
        elif o[0] == "par":
            for tk in o[4]:
                for _, _, v in tk:
                    ins[v] += 1
    # the epilogue reads slots 2, 1, 0 (get,s,0) then the combined view; take the last three plain lookups
    gets = []
    j = 0
    outs = [o for o in c["ops"] if o[0] in ("np", "cnp", "get", "has", "len", "emp", "iter", "cget", "clen", "cemp", "citer", "par")]
    for o, r in zip(outs, impl):
        if o[0] == "get":
            gets.append((o[1], r))
        j += 1
    last = {}
    for s, r in gets:
        last[s] = r
    if set(last) != {0, 1, 2} or any(r in ("panic", "unsup") or r[1] is None for r in last.values()):
        return None   # not readable: nothing to say
    got = collections.Counter(v for r in last.values() for v in r[1])
    return None if got == ins else "values lost or duplicated across new+delta+total: inserted %r, found %r" % (sorted(ins.elements()), sorted(got.elements()))


# ---------------------------------------------------------------------------------------------- canonical comparison

def canon(outs, masks, ordered):
    res = []
    for j, r in enumerate(outs):
        m = masks[j] if j < len(masks) else None
        if r in ("panic", "unsup"):
            res.append(r)
        elif r[0] == "g":
            if r[1] is None:
                res.append(("g", None))
            elif m:
                res.append(("g", "?" if len(m) else None))
            else:
                res.append(("g", tuple(r[1]) if ordered else tuple(sorted(r[1]))))
        elif r[0] == "it":
            ents = []
            for k, vs in r[1]:
                if m and k in m:
                    ents.append((k, "?"))
                else:
                    ents.append((k, tuple(vs) if ordered else tuple(sorted(vs))))
            res.append(("it", tuple(sorted(ents, key=repr))))
        elif r[0] == "w":
            res.append(("w", tuple((k, "?" if (m and k in m) else cnt) for k, cnt in sorted(r[1]))))
        else:
            res.append(r)
    return res


def mask_get(c, masks):
    """for 'get' outputs the mask is the set of schedule dependent keys of the slot; reduce it to the probed key"""
    outs = [o for o in c["ops"] if o[0] in ("np", "cnp", "get", "has", "len", "emp", "iter", "cget", "clen", "cemp", "citer", "par")]
    res = []
    for j, m in enumerate(masks):
        o = outs[j]
        if m is not None and o[0] in ("get", "cget"):
            k = o[2] if o[0] == "get" else o[1]
            res.append({k} if k in m else set())
        else:
            res.append(m)
    return res


def known_class(c, what):
    return None


def has_par(c):
    return any(o[0] == "par" for o in c["ops"])


def nontrivial(c):
    w = any(o[0] in ("ins", "cins", "np", "cnp", "par") for o in c["ops"])
    r = any(o[0] in ("get", "iter", "cget", "citer") for o in c["ops"])
    return w and r


SHARD_ANOMALY = []


def shard_tables(binary):
    """measure the real shard placement of keys 0..NKEYS-1 for each DashMap type and process flavour"""
    prelude = []
    tables = {}
    for suite, nsh in SUITES.items():
        lines = ["shards %s %s" % (t, " ".join(str(k) for k in range(NKEYS))) for t in ("cri", "cfi", "clat")]
        outl = lib.ds_run(binary, suite, lines)
        for t, l in zip(("cri", "cfi", "clat"), outl):
            f = [int(x) for x in l.split()]
            if f[0] != nsh:
                # not raised here: the histories run first, so that a failing input (e.g. a merge of indices created in
                # pools of different sizes) is reported when there is one; run() raises it afterwards otherwise
                SHARD_ANOMALY.append("shards_count in flavour %s is %d, expected %d" % (suite, f[0], nsh))
            tables[(t, suite)] = f[1:]
            prelude.append("Definition H_%s_%s := tbl_hash [%s]." % (t, suite, "; ".join("(%d, %d)" % (k, s) for k, s in enumerate(f[1:]))))
    return "\n".join(prelude) + "\n", tables


def run_histories(binary, suite, lines):
    """lib.ds_run; when a batch kills the driver (abort / SIGSEGV: the batch's results are lost) every history is run again in a
    process of its own, so that the crash is attributed to a history: result = the output line, or dict(how, err) if it died"""
    try:
        return lib.ds_run(binary, suite, lines)
    except lib.Infra as e:
        if "results (rc=" not in str(e):
            raise
        print("note: the history driver died in a batch (%s); re-running %d histories one process each" % (str(e)[:160].replace("\n", " "), len(lines)))

    def one(line):
        try:
            p = subprocess.run([binary, suite], input=line + "\n", stdout=subprocess.PIPE, stderr=subprocess.PIPE, text=True, timeout=300)
        except subprocess.TimeoutExpired:
            return dict(how="no answer within 300 s", err="")
        outl = p.stdout.splitlines()
        if p.returncode != 0 or len(outl) != 1:
            return dict(how="exit status %s, %d result lines" % (p.returncode, len(outl)), err=p.stderr.strip()[-200:])
        return outl[0]
    with cf.ThreadPoolExecutor(lib.NCPU) as ex:
        return list(ex.map(one, lines))


PRELUDE = ("From Coq Require Import List ZArith.\nFrom AV Require Import Index.IndexModel.\nImport ListNotations.\n"
           "Open Scope Z_scope.\n")


def load_corpus():
    p = os.path.join(lib.VERIF, "corpus", "C19.jsonl")
    if not os.path.exists(p):
        return []
    return [json.loads(l) for l in open(p) if l.strip()]


def tie(tier, seed, replay):
    binary, out = lib.harness_build(HARNESS)
    if binary is None:
        raise lib.Infra("ds_index does not build against /repo:\n" + out[-3000:])
    cont = None
    if replay:
        cases = [json.load(open(replay))["case"]]
        if cases[0].get("family") == c19_contention.FAMILY:
            # a big concurrent fill: judged by the specification only, several rounds (the schedule is not reproducible)
            cont = c19_contention.replay(binary, cases[0])
            return dict(evaluations=cont["evaluations"], distinct_nontrivial=1, rule="replay of one contention case, %d rounds" % cont["evaluations"],
                        samples=[], distribution=cont["distribution"], mismatches=cont["mismatches"])
    else:
        corpus = load_corpus()
        # CONTENTION family first: one process per case, one case at a time, before the machine is loaded by the batch runs
        cont = c19_contention.run(binary, tier, seed)
        for c in corpus:
            if c.get("family") == c19_contention.FAMILY:
                r = c19_contention.replay(binary, c)
                cont["mismatches"] += r["mismatches"]
                cont["evaluations"] += r["evaluations"]
        cases = [c for c in corpus if c.get("family") != c19_contention.FAMILY] + gen_cases(tier, seed)
    del SHARD_ANOMALY[:]
    hprelude, tables = shard_tables(binary)
    # implementation
    impl = [None] * len(cases)
    tids = [None] * len(cases)
    crashed = {}
    by_suite = collections.defaultdict(list)
    for idx, c in enumerate(cases):
        by_suite[c["suite"]].append(idx)
    for suite, idxs in by_suite.items():
        lines = run_histories(binary, suite, [case_line(cases[i]) for i in idxs])
        for i, l in zip(idxs, lines):
            if isinstance(l, dict):
                crashed[i] = l
                impl[i], tids[i] = ["crash"], []
            else:
                impl[i], tids[i] = parse_impl(l)
    # model: BATCH histories per Eval
    exprs = []
    for b in range(0, len(cases), BATCH):
        exprs.append("[" + "; ".join(coq_expr(c, tl) for c, tl in zip(cases[b:b + BATCH], tids[b:b + BATCH])) + "]")
    vals = lib.coq_eval(PROP, PRELUDE + hprelude, exprs, per_shard=max(1, (len(exprs) + lib.NCPU - 1) // lib.NCPU))
    model = []
    for v in vals:
        for h in v:
            model.append(parse_model(h))
    if len(model) != len(cases):
        raise lib.Infra("model returned %d histories for %d cases" % (len(model), len(cases)))
    mism = list(cont["mismatches"]) if cont else []
    dist = collections.Counter()
    ops_dist = collections.Counter()
    seen = set()
    n_unequal = 0
    unequal_eqn_fail = []
    n_viol = 0
    n_par = 0
    for ci_, (c, iv, mv) in enumerate(zip(cases, impl, model)):
        t = c["type"]
        dist[t] += 1
        if ci_ in crashed:
            # the driver process died on this history (run alone): memory unsafety behind a safe API, whatever the history
            why = crashed[ci_]
            reason = "the driver process died on this history run alone (%s; stderr: %s)" % (why["how"], why["err"] or "-")
            mism.append(dict(case=c, impl=why, model=mv, spec=reason, kind="impl_violates_spec", known=None,
                             what="index type %s: %s  [history: %s]" % (t, reason, case_line(c))))
            continue
        for o in c["ops"]:
            ops_dist[o[0]] += 1
        if nontrivial(c):
            seen.add(case_line(c))
        if has_par(c):
            n_par += 1
        sp = Spec(c)
        reason, masks, upto = sp.check(iv)
        if sp.left_protocol_at is not None:
            n_viol += 1
        if c.get("unequal"):
            n_unequal += 1
            r2 = conservation(c, iv)
            if r2 and reason is None:
                reason = r2
            # informational: does the merge equation itself hold on this history?
            c2 = dict(c, unequal=False)
            r3, _, _ = Spec(c2).check(iv)
            if r3 and len(unequal_eqn_fail) < 3:
                unequal_eqn_fail.append(dict(case=case_line(c), deviation=r3))
            elif r3:
                unequal_eqn_fail.append(None)
        ordered = t in MULTI and not has_par(c)
        masks = mask_get(c, masks) + [None] * (len(iv) - len(masks))
        ci, cm = canon(iv, masks, ordered), canon(mv, masks, ordered)
        if reason is not None:
            mism.append(dict(case=c, impl=iv, model=mv, spec=reason, kind="impl_violates_spec", known=known_class(c, reason),
                             what="index type %s: %s  [history: %s]" % (t, reason, case_line(c))))
        elif ci != cm:
            j = next((j for j, (a, b) in enumerate(zip(ci, cm)) if a != b), min(len(ci), len(cm)))
            mism.append(dict(case=c, impl=ci, model=cm, spec="satisfied", kind="model_differs", known=None,
                             what="correspondence Index/IndexModel.v (%s) vs ascent::internal on output %d: impl %r model %r  [history: %s]" % (
                                 t, j, ci[j] if j < len(ci) else None, cm[j] if j < len(cm) else None, case_line(c))))
    nfail = len(unequal_eqn_fail)
    if SHARD_ANOMALY and not mism:
        raise lib.Infra("; ".join(SHARD_ANOMALY))
    # the model index types UNDER the generated code: Engine/ConcreteEval.v (every index field a value of IndexModel.v's hvec / fmap,
    # every step the modelled operation) on FRONT-dumped plans vs the real index fields of compiled programs after run() / push; run()
    conc = None
    if not replay:
        from .. import concrete_tie
        conc = concrete_tie.run_tie(tier, seed, tag="concrete_c19" + ("" if tier == "quick" else "t"))
        mism += conc["mismatches"]
    samples = []
    fam = collections.Counter(c.get("family", "corpus") for c in cases)
    for t in TYPES:
        for want in (("race", "random") if t in CONC else ("random",)):
            for c, iv, mv in zip(cases, impl, model):
                if c["type"] == t and c.get("family") == want and nontrivial(c) and len(c["ops"]) < 45:
                    samples.append(dict(case=case_line(c), impl=repr(iv)[:500], model=repr(mv)[:500]))
                    break
    if not samples:
        samples = [dict(case=case_line(c), impl=repr(iv)[:500], model=repr(mv)[:500]) for c, iv, mv in list(zip(cases, impl, model))[:3]]
    if n_unequal:
        print("note: CRelNoIndex values created in pools of different sizes: %d histories, merge equation total' = total + delta "
              "fails on %d of them (outside C19's stated precondition, see c19_noindex_merge_unequal_refuted); "
              "conservation over new+delta+total held on all" % (n_unequal, nfail))
    ncont = cont["evaluations"] if cont else 0
    if cont:
        samples = samples[:10] + cont["samples"][:3]
    return dict(evaluations=len(cases) + ncont, distinct_nontrivial=len(seen) + ncont,
                rule="per index type: every sequence of <= 3 (quick) / 4 (thorough) inserts over {new,delta,total} x 2 keys and of <= 3 / 5 inserts over {delta,total} x 2 keys, "
                     "followed by merge and all reads (present and absent keys, iteration, len, is_empty, combined view); plus random histories of 3-22 operations "
                     "(insert, insert_if_not_present, move either direction, merge, freeze / unfreeze, reads, parallel phases of 1-8 tasks under rayon pools of 1,2,3,8 threads or std threads) "
                     "with a full read-out at the end; non-trivial = at least one write and one lookup / iteration; distinct = distinct harness input line; "
                     "plus the CONTENTION family (gen/c19_contention.py, judged by the specification only): per concurrent index type big concurrent fills "
                     "(2*10^5 inserts quick / 8*10^5 thorough from 4-16 std threads or the workers of a rayon pool larger than the creating pool, into 1-8 keys / "
                     "4-8 shards, or 10^4-10^5 keys; insert_if_not_present with every key raced by every thread), one process per case, then freeze and a complete "
                     "read-out; a crash / hang of that process is a failing input",
                samples=samples[:13],
                distribution=dict(by_type=dict(dist), by_family=dict(fam), by_operation=dict(ops_dist), histories_with_parallel_phase=n_par,
                                  histories_leaving_freeze_protocol=n_viol, cni_unequal_shard_counts=n_unequal,
                                  dashmap_shards=SUITES, contention=(cont["distribution"] if cont else None),
                                  histories_whose_driver_process_died=len(crashed)),
                mismatches=mism,
                extra=dict(engine_on_model_types_vs_real_index_fields=(dict(conc["coverage"], index_field_comparisons=conc["evaluations"], rule=conc["rule"]) if conc else None), partial=[
                    "Engine/ConcreteEval.v: the generated `len_estimate() <= len_estimate()` join-order decision is covered by the simulation theorem only for plans without reorderable simple joins (c19_engine_real_len_estimate_partial); with them the decision is an oracle, as in Engine/Eval.v",
                    "CRelIndex::len_estimate (samples the first four shards) has no theorem: it is an estimate; only model = implementation is checked",
                    "whole-history (all operation sequences) theorems are stated for RelIndexType1 (c19_hv_history) and for the CRelIndex stratum protocol (c19_cri_stratum_protocol); "
                    "for the other types each operation is proved to commute with the abstraction and to preserve the invariant (composition by induction is not spelled out)",
                    "atomicity of DashMap entry operations / RwLock pushes is an assumption of the concurrency theorems (they quantify over all orders of atomic steps)"],
                    cni_unequal_shards=dict(histories=n_unequal, merge_equation_fails_on=nfail,
                                                   conservation_checked="new+delta+total together hold every inserted value exactly once",
                                                   examples=[e for e in unequal_eqn_fail if e][:3])),
                trusted_base=["ds_index (Rust harness) + gen/props/c19.py renderers, canonicaliser and the python multimap/set/map oracle",
                              "DashMap shard locks, RwLock, hashbrown / std HashMap / HashSet / Vec meet their documented semantics; every DashMap entry operation is one atomic step (ConcIndex.v quantifies over all orders of those steps)",
                              "CONTENTION family: the schedule is whatever the machine produces (not reproducible, not observed); a race that needs real overlap is found with the frequency measured in DESIGN 10.5, not with certainty",
                              "the real schedule of a parallel phase is not observed: the implementation is compared with the specified final content, the model is run under one random interleaving"],
                assumptions=["keys and values are modelled as unbounded Z; the harness uses (i32,), (i32,i32) keys and usize / (i32,) values",
                             "hash-map iteration order and DashMap shard placement are arbitrary oracles in the theorems; the tie instantiates them with list reversal and the placement measured on the real DashMap",
                             "reads of an unfrozen / writes to a frozen concurrent index are outside the property (typestate protocol); there implementation and model are still compared (both panic)",
                             "CRelNoIndex: total' = total + delta needs equal shard counts (stated precondition); with different counts only conservation over new+delta+total is specified"])
