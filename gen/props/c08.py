"""C08 — in-program macros expand hygienically.
Coq: Macros/MacroModel.v (faithful expansion + hygienic reference expansion), Macros/MacroProofs.v, Props/C08.v.
Tie (real rustc only: spans do not exist in the in-process front end):
  each generated program with macros                      -> real macro + rustc + run            (impl)
  its hygienic hand expansion, explicitly fresh names     -> real macro + rustc + run            (spec, python expander)
  the Coq model's expansion, evaluated by Engine/Sem.v    -> vm_compute                          (model)
  the Coq reference expansion, evaluated the same way     -> vm_compute                          (spec, Coq)
Recursive macro tables must be rejected at compile time with the dedicated message, in bounded time."""
import json
import os
import signal
import subprocess
import time

from .. import c08_gen, c08_macros as cm, dl, lib, prog

PROP = "C08"
PROP_FILE = "Props/C08.v"
PRELUDE = ("From Coq Require Import List String ZArith Bool.\n"
           "From AV Require Import Engine.Core Macros.MacroModel Macros.MacroEval.\n"
           "Import ListNotations.\nClose Scope Z_scope.\nOpen Scope string_scope.\n")
REC_MSG = "recursively defined Ascent macro"
HANG_BUDGET = 10          # seconds; a rejected recursive macro costs well under a second of expansion
CORPUS = os.path.join(lib.VERIF, "corpus", "C08.jsonl")

KNOWN = {
    # index of the failing hypothesis in MacroEval.wf_report -> known-finding key
    0: "generated_name_collides_with_user_identifier",
    1: "unbound_macro_identifier_captured",
    2: "unbound_macro_identifier_captured",      # a head-position macro with identifiers of its own: nothing binds them
}


def tup(x):
    return tuple(tup(i) for i in x) if isinstance(x, (list, tuple)) else x


def coq_case_expr(p, inputs):
    R = dl.Names()
    for name, _, _ in p["rels"]:
        R(name)
    try:
        hand = cm.hand_expand(p)
        strata = cm.stratify(hand["rules"])
    except (cm.Recursive, RecursionError, AssertionError, KeyError):
        hand = None
        strata = [[i for i in range(len(p["rules"]))]]
    st = cm.q_list(cm.q_list("%d" % j for j in comp) for comp in strata)
    hm = cm.q_list("%d" % k for k in p.get("head_macros", []))
    runs = []
    for inp in inputs:
        f0 = cm.q_list("(%d, [%s])" % (R(n), "; ".join("(%d)%%Z" % v for v in t)) for n, _, _ in p["rels"] for t in inp.get(n, []))
        runs.append("(run_model M RS %s %s, run_hygienic M RS %s %s)" % (st, f0, st, f0))
    e = "let M := %s in let RS := %s in (wf_report (fun m => m) %s M RS, %s)" % (cm.q_macros(p, R), cm.q_rules(p, R), hm, cm.q_list(runs))
    inv = {v: k for k, v in R.d.items()}
    return e, inv, hand


def decode_outcome(v, inv):
    """parsed Coq outcome -> ('facts', {rel: sorted tuples}) | ('compile_error', why) | ('rejected', err) | (other, None)"""
    if isinstance(v, list) and v[0] == "Facts":
        out = {}
        for r, t in v[1]:
            out.setdefault(inv[r], set()).add(tuple(t))
        return ("facts", {k: sorted(s) for k, s in out.items()})
    if isinstance(v, list) and v[0] == "CompileError":
        return ("compile_error", v[1])
    if isinstance(v, list) and v[0] == "Rejected":
        return ("rejected", v[1])
    return (str(v), None)


def impl_outcome(res, rels):
    if res is None:
        return ("missing", None)
    if "compile_error" in res:
        return ("compile_error", res["compile_error"])
    if "snaps" in res:
        s = prog.canon_snap(res["snaps"][-1])
        return ("facts", {n: [tuple(t) for t in s[n][1]] for n, _, _ in rels if s[n][1]})
    return ("other", json.dumps(res)[:300])


def same(a, b):
    """two outcomes agree: same facts, or both do not compile (the expansion error counts as a compile error)"""
    ka = "compile_error" if a[0] == "rejected" else a[0]
    kb = "compile_error" if b[0] == "rejected" else b[0]
    if ka != kb:
        return False
    if ka == "facts":
        fa = {k: [tup(t) for t in v] for k, v in a[1].items() if v}
        fb = {k: [tup(t) for t in v] for k, v in b[1].items() if v}
        return fa == fb
    return True


def gen_cases(tier, seed):
    rng = lib.rng_for(seed, PROP)
    n = 40 if tier == "quick" else 400
    ndef = 9 if tier == "quick" else 60
    ninp = 2 if tier == "quick" else 3
    cases = []
    for i in range(n - ndef):
        p, feats = c08_gen.gen_program(rng)
        cases.append(dict(id="c08_%d" % i, prog=p, feats=feats, inputs=[c08_gen.gen_input(rng) for _ in range(ninp)], origin="generated well-formed"))
    for i in range(ndef):
        kind, f = c08_gen.DEFECTS[i % len(c08_gen.DEFECTS)]
        inside = kind in c08_gen.INSIDE
        cases.append(dict(id="c08_x%d" % i, prog=f(rng), feats=[("template:" if inside else "outside_hypotheses:") + kind], inputs=[c08_gen.gen_input(rng) for _ in range(ninp)],
                          origin="generated %s (%s)" % ("from a template" if inside else "outside the hypotheses", kind)))
    npat = len(c08_gen.PATTERNS) if tier == "quick" else 6 * len(c08_gen.PATTERNS)
    for i in range(npat):
        kind, p, designed = c08_gen.gen_pattern(rng, i)
        cases.append(dict(id="c08_p%d" % i, prog=p, feats=["pattern:" + kind], inputs=[designed] + [c08_gen.gen_input(rng) for _ in range(ninp - 1)],
                          origin="generated call pattern around a disjunction (%s), designed input first" % kind))
    # macro locals bound only through the arguments of nested invocations (two_hops family): every kind, rule shapes rotating
    nnp = 2 * len(c08_gen.NPATTERNS) if tier == "quick" else 6 * len(c08_gen.NPATTERNS)
    for i in range(nnp):
        kind, shape, p, designed, leak = c08_gen.gen_nested_pattern(rng, i)
        cases.append(dict(id="c08_q%d" % i, prog=p, feats=["nested_only_local:" + kind, "nested_only_local_rule:" + shape] + sorted(c08_gen.nested_only_feats(p)),
                          inputs=[designed] + [c08_gen.gen_input(rng) for _ in range(ninp - 1)], leak=leak,
                          origin="generated macro local bound only through nested invocations (%s, rule shape %s), designed input first" % (kind, shape)))
    nneg = 6 if tier == "quick" else 40
    negs = []
    for i in range(nneg):
        kind, p = c08_gen.gen_recursive(rng, i)
        negs.append(dict(id="c08_n%d" % i, prog=p, kind=kind))
    return cases, negs


def load_corpus():
    cases, negs, raws, hangs = [], [], [], []
    if not os.path.exists(CORPUS):
        return cases, negs, raws, hangs
    for k, line in enumerate(open(CORPUS)):
        line = line.strip()
        if not line or line.startswith("#"):
            continue
        o = json.loads(line)
        o["id"] = "c08_c%d" % k
        if o["kind"] == "prog":
            o.setdefault("feats", ["corpus:" + o["name"]])
            o["origin"] = "corpus: " + o["name"]
            o["inputs"] = [{r: [tuple(t) for t in ts] for r, ts in inp.items()} for inp in o["inputs"]]
            cases.append(o)
        elif o["kind"] == "chain":
            o["prog"] = c08_gen.chain(o["n"], o.get("disj", False))
            negs.append(o) if o["expect"] == "rejected" else cases.append(dict(o, feats=["corpus:" + o["name"]], origin="corpus: " + o["name"], inputs=[{"e0": [(1, 2), (2, 3)], "u0": [(1,), (2,)]}]))
        elif o["kind"] == "neg":
            negs.append(o)
        elif o["kind"] == "raw":
            raws.append(o)
        elif o["kind"] == "hang":
            hangs.append(o)
    return cases, negs, raws, hangs


def job(jid, text, rels, inputs):
    return dict(id=jid, text=text, rels=[tuple(r) for r in rels], scripts=[[("set", {k: [tuple(t) for t in v] for k, v in inp.items()}), ("run",), ("snap",)] for inp in inputs])


def build_terminates(tag, text, rels, budget):
    """compile one program in a crate of its own, in its own process group, under a wall-clock budget.
    returns ('rejected', msg) | ('compiled', '') | ('hang', seconds)"""
    d, groups = prog.write_crate(tag, [job("h", text, rels, [{}])], 1)
    tdir = os.path.join(lib.BUILD, "target_c08hang")
    open(os.path.join(d, ".cargo", "config.toml"), "w").write('[net]\noffline = true\n[build]\ntarget-dir = "%s"\n' % tdir)
    with lib.Lock("cargo_c08hang"):
        # dependencies first (not counted in the budget)
        warm = os.path.join(lib.BUILD, "prog", tag + "_warm")
        d2, _ = prog.write_crate(tag + "_warm", [job("w", "relation w(i32);", [("w", 1, "rel")], [{}])], 1)
        open(os.path.join(d2, ".cargo", "config.toml"), "w").write('[net]\noffline = true\n[build]\ntarget-dir = "%s"\n' % tdir)
        rc, out = lib.sh(["cargo", "build", "--offline", "--bins", "--message-format=short"], cwd=d2, timeout=1500)
        if rc != 0:
            raise lib.Infra("cannot build the warm-up crate for the termination test:\n" + out[-2000:])
        t0 = time.time()
        p = subprocess.Popen(["cargo", "build", "--offline", "--bins", "--message-format=short"], cwd=d, env=lib.ENV, stdout=subprocess.PIPE,
                             stderr=subprocess.STDOUT, text=True, start_new_session=True)
        try:
            out, _ = p.communicate(timeout=budget)
        except subprocess.TimeoutExpired:
            os.killpg(p.pid, signal.SIGKILL)
            p.communicate()
            return ("hang", round(time.time() - t0, 1))
    if p.returncode == 0:
        return ("compiled", "")
    errs = [l for l in out.splitlines() if "error" in l]
    if not any(": error" in l and "/m_h.rs:" in l for l in errs):
        errs = ["compiler crashed / failed without a diagnostic at the program: " + " | ".join(out.splitlines()[-3:])[:300]]
    return ("rejected", "\n".join(errs)[:400])


def tie(tier, seed, replay):
    t_start = time.time()
    ccases, cnegs, raws, hangs = load_corpus()
    if replay:
        o = json.load(open(replay))
        c = o.get("case", o)
        gcases, gnegs = [], []
        if "prog" in c:
            one = dict(id="c08_r0", prog=c["prog"], feats=c.get("feats", []), inputs=[c["input"]] if "input" in c else c.get("inputs", [{}]), origin="replay", kind=c.get("kind"))
            if c.get("negative"):
                ccases, cnegs, raws, hangs = [], [one], [], []
            else:
                ccases, cnegs, raws, hangs = [one], [], [], []
        elif c.get("raw"):
            ccases, cnegs, hangs = [], [], []
            raws = [dict(id="c08_r0", name=c.get("name", "replay"), text=c["program"], hand=c["hand_expansion"], rels=c["rels"], inputs=[c["input"]], known=None)]
        elif c.get("hang"):
            ccases, cnegs, raws = [], [], []
            hangs = [dict(id="c08_r0", name=c.get("name", "replay"), text=c["program"], rels=c["rels"], known=None)]
        else:
            raise lib.Infra("replay file has no program")
    else:
        gcases, gnegs = gen_cases(tier, seed)
    cases = ccases + gcases
    negs = cnegs + gnegs
    mism = []

    # ---- Coq: hypotheses report, model outcome, reference outcome (per input); model verdict of the negatives
    exprs, meta = [], []
    for c in cases:
        e, inv, hand = coq_case_expr(c["prog"], c["inputs"])
        c["hand"] = hand
        exprs.append(e)
        meta.append(inv)
    for c in negs:
        R = dl.Names()
        for name, _, _ in c["prog"]["rels"]:
            R(name)
        exprs.append("expand_prog %s %s" % (cm.q_macros(c["prog"], R), cm.q_rules(c["prog"], R)))
    vals = lib.coq_eval("c08", PRELUDE, exprs, per_shard=6, timeout=600)
    for c, inv, v in zip(cases, meta, vals[:len(cases)]):
        rep, runs = v
        c["wf"] = list(rep)
        c["model"] = [decode_outcome(m, inv) for (m, h) in runs]
        c["hyg"] = [decode_outcome(h, inv) for (m, h) in runs]
    for c, v in zip(negs, vals[len(cases):]):
        c["model"] = v

    # ---- real tool chain: macro program and hand expansion; jobs expected not to compile go to a crate of their own
    main_jobs, exp_fail_jobs = [], []
    for c in cases:
        c["text"] = cm.rust_text(c["prog"])
        jm = job(c["id"] + "_m", c["text"], c["prog"]["rels"], c["inputs"])
        (exp_fail_jobs if any(m[0] != "facts" for m in c["model"]) else main_jobs).append(jm)
        if c["hand"] is not None:
            c["hand_text"] = cm.rust_text(c["hand"])
            jh = job(c["id"] + "_h", c["hand_text"], c["prog"]["rels"], c["inputs"])
            (exp_fail_jobs if any(h[0] != "facts" for h in c["hyg"]) else main_jobs).append(jh)
        if c.get("leak") and c["hand"] is not None:
            # the deliberately unhygienic expansion (the listed locals keep their spelling) on the designed input: it must
            # differ from the hygienic one, otherwise the designed input would not notice sharing / capture of the local
            c["leak_text"] = cm.rust_text(cm.hand_expand(c["prog"], leak=c["leak"]))
            exp_fail_jobs.append(job(c["id"] + "_k", c["leak_text"], c["prog"]["rels"], c["inputs"][:1]))
    for c in negs:
        c["text"] = cm.rust_text(c["prog"])
        exp_fail_jobs.append(job(c["id"] + "_m", c["text"], c["prog"]["rels"], [{}]))
    for o in raws:
        main_jobs.append(job(o["id"] + "_m", o["text"], o["rels"], o["inputs"]))
        main_jobs.append(job(o["id"] + "_h", o["hand"], o["rels"], o["inputs"]))
    impl = {}
    if main_jobs:
        impl.update(prog.build_and_run("c08", main_jobs))
    if exp_fail_jobs:
        try:
            impl.update(prog.build_and_run("c08x", exp_fail_jobs, nbins=1))
        except lib.Infra as e:
            # the compiler itself died on the batch (e.g. stack overflow inside the macro): find out on which program
            for j in exp_fail_jobs:
                r = build_terminates("c08iso", j["text"], j["rels"], 60)
                if r[0] == "rejected":
                    impl[j["id"]] = [dict(compile_error=r[1] or "compiler failed without a diagnostic")] * len(j["scripts"])
                else:
                    impl[j["id"]] = [dict(crash="batch build failed (%s); alone: %s" % (str(e)[:200], r[0]))] * len(j["scripts"])

    # ---- compare
    feats, distinct, evaluations = {}, set(), 0
    nwf = nwf_nested = 0
    sensitive, insensitive = 0, []
    for c in cases:
        rels = c["prog"]["rels"]
        if c.get("leak_text"):
            ik = impl_outcome((impl.get(c["id"] + "_k") or [None])[0], rels)
            i0 = impl_outcome((impl.get(c["id"] + "_h") or [None])[0], rels)
            if i0[0] == "facts" and ik[0] != "missing" and not same(ik, i0):
                sensitive += 1
            else:
                insensitive.append(dict(id=c["id"], feats=c["feats"][:2], hygienic=short(i0), leaking=short(ik)))
        wf = c["wf"]
        all_wf = bool(wf[3])
        nwf += 1 if all_wf else 0
        nwf_nested += 1 if (all_wf and not wf[4]) else 0
        failing = [i for i in (0, 1, 2) if not wf[i]]
        for f in c["feats"]:
            feats[f] = feats.get(f, 0) + 1
        for k, inp in enumerate(c["inputs"]):
            evaluations += 1
            cs = dict(id=c["id"], origin=c["origin"], program=c["text"], hand_expansion=c.get("hand_text"), prog=c["prog"], input={r: [list(t) for t in ts] for r, ts in inp.items()},
                      hypotheses=dict(identifiers_ok=wf[0], locals_bound=wf[1], head_macros_closed=wf[2], all=wf[3], locals_bound_by_direct_items=wf[4]))
            im = impl_outcome((impl.get(c["id"] + "_m") or [None] * len(c["inputs"]))[k], rels)
            ih = impl_outcome((impl.get(c["id"] + "_h") or [None] * len(c["inputs"]))[k], rels) if c["hand"] is not None else ("rejected", "hand expansion does not terminate")
            mo, hy = c["model"][k], c["hyg"][k]
            if im[0] == "facts" and im[1]:
                distinct.add((c["text"], json.dumps(cs["input"], sort_keys=True)))
            if not same(im, ih):
                known = None
                if not all_wf and len(failing) == 1 and same(im, mo):
                    known = KNOWN.get(failing[0])
                if c.get("known") and same(im, mo):
                    known = c["known"]
                mism.append(dict(case=cs, impl=im, model=mo, spec=ih, kind="impl_violates_spec", known=known,
                                 what="program with macros differs from its hygienic hand expansion (both through the real macro and rustc): macro program -> %s ; hand expansion -> %s" % (short(im), short(ih))))
            if not same(im, mo):
                mism.append(dict(case=cs, impl=im, model=mo, spec=ih, kind="model_differs", known=None,
                                 what="correspondence Macros/MacroModel.v expand (evaluated by Engine/Sem.v) vs the real macro: impl %s ; model %s" % (short(im), short(mo))))
            if not same(ih, hy):
                mism.append(dict(case=cs, impl=ih, model=hy, spec=None, kind="model_differs", known=None,
                                 what="python hand expansion (through the real macro) vs the Coq reference expansion hexpand (evaluated by Engine/Sem.v): %s ; %s" % (short(ih), short(hy))))
            if all_wf and not same(mo, hy):
                mism.append(dict(case=cs, impl=im, model=mo, spec=hy, kind="model_differs", known=None,
                                 what="the hypotheses of c08_hygiene hold but the model's expansion and the reference expansion evaluate differently"))
    # raw corpus cases (outside the model's syntax): real macro vs hand expansion only
    for o in raws:
        for k, inp in enumerate(o["inputs"]):
            evaluations += 1
            im = impl_outcome((impl.get(o["id"] + "_m") or [None] * len(o["inputs"]))[k], o["rels"])
            ih = impl_outcome((impl.get(o["id"] + "_h") or [None] * len(o["inputs"]))[k], o["rels"])
            if not same(im, ih):
                mism.append(dict(case=dict(id=o["id"], name=o["name"], program=o["text"], hand_expansion=o["hand"], input=inp, rels=o["rels"], raw=True), impl=im, model=None, spec=ih,
                                 kind="impl_violates_spec", known=o.get("known"), what="%s: macro program -> %s ; hand expansion -> %s" % (o["name"], short(im), short(ih))))
    # negatives
    neg_kinds = {}
    for c in negs:
        evaluations += 1
        neg_kinds[c.get("kind", "corpus")] = neg_kinds.get(c.get("kind", "corpus"), 0) + 1
        res = (impl.get(c["id"] + "_m") or [None])[0]
        cs = dict(id=c["id"], program=c["text"], prog=c["prog"], negative=True, kind=c.get("kind"))
        msg, merr = c.get("expect_msg", REC_MSG), c.get("expect_model", "ERecursive")
        ok_impl = res is not None and "compile_error" in res and msg in res["compile_error"]
        ok_model = c["model"] == ["Err", merr]
        if not ok_impl:
            mism.append(dict(case=cs, impl=res, model=c["model"], spec="rejected with: " + msg, kind="impl_violates_spec" if merr == "ERecursive" else "model_differs", known=None,
                             what="a macro table that must be rejected (%s) is not rejected with the expected message `%s`: %s" % (c.get("kind") or c.get("name"), msg, json.dumps(res)[:300])))
        if not ok_model:
            mism.append(dict(case=cs, impl=res, model=c["model"], spec=None, kind="model_differs", known=None,
                             what="model expand_prog does not return Err %s: %s" % (merr, c["model"])))
    # termination of the rejection (exponential expansion witnesses)
    for o in hangs:
        evaluations += 1
        r = build_terminates("c08hang", o["text"], [tuple(x) for x in o["rels"]], HANG_BUDGET)
        if not (r[0] == "rejected" and REC_MSG in r[1]):
            mism.append(dict(case=dict(id=o["id"], name=o["name"], program=o["text"], rels=o["rels"], hang=True), impl=r, model="Err ERecursive (the model has no notion of cost)", spec="rejected with '%s' in bounded time" % REC_MSG,
                             kind="impl_violates_spec", known=o.get("known") if r[0] == "hang" else None,
                             what=("recursive macro: the compiler does not come back within %d s" % HANG_BUDGET) if r[0] == "hang" else
                                  ("recursive macro not rejected with the dedicated message: %s %s" % (r[0], r[1][:200]))))
    samples = [dict(program=c["text"], hand_expansion=c.get("hand_text"), input={r: v for r, v in c["inputs"][0].items() if v},
                    impl=impl_outcome((impl.get(c["id"] + "_m") or [None])[0], c["prog"]["rels"])) for c in gcases[:3]]
    return dict(evaluations=evaluations, distinct_nontrivial=len(distinct),
                rule="random macro tables (1-4 macros: ident / expr parameters; bodies with clauses, if / let / if-let / for, negations, disjunctions, nested invocations; head-position macros, nested) and rules invoking them "
                     "(same macro twice in a rule, call-site variables spelled like macro locals, actuals spelled like locals, invocations inside disjunctions, macros in heads), all variable names from one pool of 6; "
                     "x 2-3 input databases; every program is run (a) through the real macro, (b) as its python hand expansion through the real macro, (c) as the Coq model's expansion and (d) as the Coq reference expansion under Engine/Sem.v; "
                     "plus programs violating exactly one hypothesis of the theorem, recursive macro tables, and the corpus; non-trivial = the macro program derives at least one fact; distinct = distinct (program text, input)",
                samples=samples,
                distribution=dict(programs=len(cases), satisfying_theorem_hypotheses=nwf, of_which_only_through_nested_binders=nwf_nested,
                                  designed_inputs_telling_a_leaking_local_apart=dict(sensitive=sensitive, insensitive=insensitive), negatives=len(negs), negative_kinds=neg_kinds, raw_corpus=len(raws), termination_witnesses=len(hangs), features=feats),
                mismatches=mism,
                trusted_base=["gen/c08_macros.py renderers (Rust text, Gallina term) and the python hand expander; gen/prog.py generated crates",
                              "Macros/MacroEval.v: translation of an expanded rule to Engine/Core.v and the scoping check standing for rustc's / ascent's compile errors",
                              "origin tags stand for token spans: every token of the program text has its own span under rustc (spans_eq compares Debug output)"],
                assumptions=["an `expr` actual is one expression node (since fix 7f45914 the macro parenthesises non-atomic actuals; corpus case `expr_param_precedence` checks it on raw Rust operators outside the model's vocabulary)",
                             "macro definitions and rules are written directly in the ascent! invocation (no include_source!, no macro_rules! producing the program)"],
                extra=dict(wall_tie_s=round(time.time() - t_start, 1)))


def short(o):
    if o[0] == "facts":
        return "facts %s" % json.dumps({k: v[:6] for k, v in sorted(o[1].items())})[:260]
    return "%s %s" % (o[0], str(o[1])[:160])
