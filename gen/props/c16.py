"""C16 — lattice laws of the types shipped in ascent_base.

Coq model Lattice/LatModel.v (`denote : lty -> LatImpl`), theorems Props/C16.v; tie = harness/ds_lat (the
real impls on explicit argument pairs / triples) vs vm_compute of `rows (denote ty)` on the same pairs, plus a
python specification oracle: the mathematical order / join / meet of every type AND the laws of the property
checked directly on the implementation's answers (commutativity, associativity, idempotence, absorption,
order agreement, flag exactness, in-place == by-value, Dual / Reverse swapping, top / bottom extremal)."""
import functools
import itertools
import json
import os

from .. import lib

PROP = "C16"
PROP_FILE = "Props/C16.v"
PRELUDE = ("From Coq Require Import List ZArith Bool.\nFrom AV Require Import Lattice.LatModel.\n"
           "Import ListNotations.\nOpen Scope Z_scope.\n")

# ------------------------------------------------------------------ type table (mirrors harness/ds_lat table!)
INTS = {"i8": (-2 ** 7, 2 ** 7 - 1), "u8": (0, 2 ** 8 - 1), "i16": (-2 ** 15, 2 ** 15 - 1), "u16": (0, 2 ** 16 - 1),
        "i32": (-2 ** 31, 2 ** 31 - 1), "u32": (0, 2 ** 32 - 1), "i64": (-2 ** 63, 2 ** 63 - 1), "u64": (0, 2 ** 64 - 1),
        "i128": (-2 ** 127, 2 ** 127 - 1), "u128": (0, 2 ** 128 - 1), "isize": (-2 ** 63, 2 ** 63 - 1), "usize": (0, 2 ** 64 - 1)}


def I(n): return ("int", n)


B, U = ("bool",), ("unit",)
i32 = I("i32")
SET = ("set", i32)


def Opt(t): return ("opt", t)
def Rc(t): return ("rc", t)
def Arc(t): return ("arc", t)
def Box(t): return ("box", t)
def Rev(t): return ("rev", t)
def Dual(t): return ("dual", t)
def Ord(t): return ("ord", t)
def Tup(*ts): return ("tup", tuple(ts))
def Prod(*ts): return ("prod", tuple(ts))
def Arr(n, t): return ("arr", n, t)
def BSet(n, t=i32): return ("bset", n, t)
def Set(t): return ("set", t)
def CP(t): return ("cp", t)


T11 = (B, i32, B, U, B, Opt(B), B, i32, B, Dual(B), i32)
TYPES = dict([(n, I(n)) for n in INTS] + [
    ("bool", B), ("unit", U),
    ("opt_i32", Opt(i32)), ("opt_opt_bool", Opt(Opt(B))), ("opt_prod", Opt(Prod(i32, B))), ("opt_cp", Opt(CP(i32))),
    ("rc_i32", Rc(i32)), ("rc_prod2", Rc(Prod(i32, i32))), ("rc_opt_set", Rc(Opt(SET))),
    ("arc_i32", Arc(i32)), ("arc_set", Arc(SET)), ("arc_rc_prod", Arc(Rc(Prod(B, SET)))),
    ("box_opt_i32", Box(Opt(i32))), ("box_prod", Box(Prod(B, SET))),
    ("rev_i32", Rev(i32)), ("rev_set", Rev(SET)), ("rev_prod", Rev(Prod(i32, B))), ("rev_bset2", Rev(BSet(2))),
    ("dual_i32", Dual(i32)), ("dual_opt_prod", Dual(Opt(Prod(i32, B)))), ("dual_dual_set", Dual(Dual(SET))),
    ("dual_bset2", Dual(BSet(2))), ("dual_rev_cp", Dual(Rev(CP(i32)))),
    ("ord_i32", Ord(i32)), ("ord_tup", Ord(Tup(i32, B))), ("ord_opt", Ord(Opt(i32))), ("ord_rev", Ord(Rev(i32))),
    ("tup1", Tup(i32)), ("tup2", Tup(i32, B)), ("tup3", Tup(i32, Opt(B), Dual(i32))),
    ("tup3n", Tup(Rev(B), Ord(Tup(B, i32)), U)), ("tup_nest", Tup(Tup(i32, B), Opt(Tup(B)))), ("tup11", Tup(*T11)),
    ("prod1", Prod(i32)), ("prod2", Prod(i32, i32)), ("prod3", Prod(B, Opt(B), SET)), ("prod3b", Prod(B, CP(i32), BSet(1))),
    ("prod_nest", Prod(Prod(B, B), Tup(i32, B))), ("prod11", Prod(*T11)),
    ("arr0", Arr(0, i32)), ("arr1", Arr(1, B)), ("arr2", Arr(2, i32)), ("arr3", Arr(3, Opt(B))), ("arr4", Arr(4, B)),
    ("arr2set", Arr(2, SET)), ("arr2prod", Arr(2, Prod(B, i32))),
    ("set", SET), ("bset0", BSet(0)), ("bset1", BSet(1)), ("bset2", BSet(2)), ("bset3", BSet(3)),
    ("set_tup", Set(Tup(i32, B))), ("set_opt", Set(Opt(i32))), ("set_rev", Set(Rev(i32))), ("set_dual_tup", Set(Tup(Dual(i32), B))),
    ("prod_set_tup", Prod(Set(Tup(B, B)), B)),
    ("cp_i32", CP(i32)), ("cp_bool", CP(B)), ("cp_set", CP(SET)), ("cp_cp", CP(CP(B))), ("cp_rev", Rev(CP(i32))),
    # tuple lattices (tuple.rs: join_mut / meet_mut through Ord::cmp of the tuple, hence of every component type) with Dual / Reverse /
    # Option components at every position, nested, and the wrappers / containers around such tuples
    ("tup_du", Tup(Dual(i32), i32)), ("tup_ud", Tup(i32, Dual(i32))), ("tup_dd", Tup(Dual(i32), Dual(B))), ("tup_ru", Tup(Rev(i32), B)),
    ("tup_od", Tup(Opt(i32), Dual(B))), ("tup_udu", Tup(B, Dual(i32), i32)), ("tup_dud", Tup(Dual(B), i32, Dual(i32))),
    ("tup_nest_d", Tup(Tup(Dual(i32), B), Rev(B))), ("dual_tup", Dual(Tup(i32, B))), ("dual_tup_d", Dual(Tup(Dual(i32), B))),
    ("rev_tup_d", Rev(Tup(B, Dual(i32)))), ("opt_tup_d", Opt(Tup(Dual(i32), B))), ("ord_tup_d", Ord(Tup(Dual(i32), i32))),
    ("ord_dual", Ord(Dual(i32))), ("rc_tup_d", Rc(Tup(Dual(i32), B))), ("box_tup_d", Box(Tup(B, Dual(i32)))), ("set_dual", Set(Dual(i32))),
    ("prod_tup_d", Prod(Tup(Dual(i32), B), i32)), ("arr_tup_d", Arr(2, Tup(Dual(i32), B))),
])
WRAP = {"rc": "alloc::rc::Rc", "arc": "alloc::sync::Arc", "box": "alloc::boxed::Box", "rev": "core::cmp::Reverse",
        "dual": "ascent_base::lattice::dual::Dual", "ord": "ascent_base::lattice::ord_lattice::OrdLattice",
        "opt": "core::option::Option", "cp": "ascent_base::lattice::constant_propagation::ConstPropagation"}
TRANSPARENT = ("rc", "arc", "box", "rev", "dual", "ord")


def rust_name(t):
    k = t[0]
    if k == "int":
        return t[1]
    if k == "bool":
        return "bool"
    if k == "unit":
        return "()"
    if k in WRAP:
        return "%s<%s>" % (WRAP[k], rust_name(t[1]))
    if k == "tup":
        return "(%s%s)" % (", ".join(rust_name(x) for x in t[1]), "," if len(t[1]) == 1 else "")
    if k == "prod":
        return "ascent_base::lattice::product::Product<%s>" % rust_name(("tup", t[1]))
    if k == "arr":
        return "ascent_base::lattice::product::Product<[%s; %d]>" % (rust_name(t[2]), t[1])
    if k == "set":
        return "ascent_base::lattice::set::Set<%s>" % rust_name(t[1])
    if k == "bset":
        return "ascent_base::lattice::bounded_set::BoundedSet<%d, %s>" % (t[1], rust_name(t[2]))
    raise ValueError(t)


# ------------------------------------------------------------------ values: harness encoding
# python values: int | bool | () | ("N",) / ("S", v) | tuples of components | sorted tuple (set)
#                | "T" / ("B", sorted tuple) | "bot" / "top" / ("c", v); wrappers are transparent
def enc(t, v):
    k = t[0]
    if k == "int":
        return [str(v)]
    if k == "bool":
        return ["t" if v else "f"]
    if k == "unit":
        return ["u"]
    if k == "opt":
        return ["N"] if v == ("N",) else ["S"] + enc(t[1], v[1])
    if k in TRANSPARENT:
        return enc(t[1], v)
    if k in ("tup", "prod"):
        return [x for ti, vi in zip(t[1], v) for x in enc(ti, vi)]
    if k == "arr":
        return [x for vi in v for x in enc(t[2], vi)]
    if k == "set":
        return [str(len(v))] + [y for x in v for y in enc(t[1], x)]
    if k == "bset":
        return ["T"] if v == "T" else ["B"] + enc(("set", t[2]), v[1])
    if k == "cp":
        return [v] if v in ("bot", "top") else ["c"] + enc(t[1], v[1])
    raise ValueError(t)


def dec(t, toks, i=0):
    k = t[0]
    if k == "int":
        return int(toks[i]), i + 1
    if k == "bool":
        return {"t": True, "f": False}[toks[i]], i + 1
    if k == "unit":
        assert toks[i] == "u"
        return (), i + 1
    if k == "opt":
        if toks[i] == "N":
            return ("N",), i + 1
        assert toks[i] == "S", toks[i]
        v, i = dec(t[1], toks, i + 1)
        return ("S", v), i
    if k in TRANSPARENT:
        return dec(t[1], toks, i)
    if k in ("tup", "prod", "arr"):
        comps = t[1] if k != "arr" else (t[2],) * t[1]
        out = []
        for ti in comps:
            v, i = dec(ti, toks, i)
            out.append(v)
        return tuple(out), i
    if k == "set":
        n = int(toks[i])
        i += 1
        out = []
        for _ in range(n):
            v, i = dec(t[1], toks, i)
            out.append(v)
        return canon_set(t[1], out), i          # canonicalised: the order of the printout is not compared
    if k == "bset":
        if toks[i] == "T":
            return "T", i + 1
        assert toks[i] == "B"
        s, i = dec(("set", t[2]), toks, i + 1)
        return ("B", s), i
    if k == "cp":
        if toks[i] in ("bot", "top"):
            return toks[i], i + 1
        assert toks[i] == "c"
        v, i = dec(t[1], toks, i + 1)
        return ("c", v), i
    raise ValueError(t)


def canon_set(te, xs):
    """a set as the tuple of its elements in increasing order of the element type"""
    return tuple(sorted(set(xs), key=functools.cmp_to_key(lambda x, y: 0 if x == y else (-1 if s_le(te, x, y) else 1))))


def dec_all(t, s):
    toks = s.split()
    v, i = dec(t, toks, 0)
    assert i == len(toks), (t, s)
    return v


# ------------------------------------------------------------------ Coq rendering / reading
def coq_ty(t):
    k = t[0]
    if k == "int":
        lo, hi = INTS[t[1]]
        return "(LInt (%d) (%d))" % (lo, hi)
    if k in ("bool", "unit"):
        return {"bool": "LBool", "unit": "LUnit"}[k]
    if k == "set":
        return "(LSet %s)" % coq_ty(t[1])
    if k in ("opt", "rc", "arc", "box", "rev", "dual", "ord", "cp"):
        return "(%s %s)" % ({"opt": "LOption", "rc": "LRc", "arc": "LArc", "box": "LBox", "rev": "LReverse",
                             "dual": "LDual", "ord": "LOrd", "cp": "LCP"}[k], coq_ty(t[1]))
    if k in ("tup", "prod"):
        ts = t[1]
        s = "(LOne %s)" % coq_ty(ts[-1])
        for x in reversed(ts[:-1]):
            s = "(LCons %s %s)" % (coq_ty(x), s)
        return "(%s %s)" % ("LTuple" if k == "tup" else "LProd", s)
    if k == "arr":
        return "(LProdArr %d %s)" % (t[1], coq_ty(t[2]))
    if k == "bset":
        return "(LBSet %d %s)" % (t[1], coq_ty(t[2]))
    raise ValueError(t)


def coq_val(t, v):
    k = t[0]
    if k == "int":
        return "(%d)" % v
    if k == "bool":
        return "true" if v else "false"
    if k == "unit":
        return "tt"
    if k == "opt":
        return "None" if v == ("N",) else "(Some %s)" % coq_val(t[1], v[1])
    if k in TRANSPARENT:
        return coq_val(t[1], v)
    if k in ("tup", "prod"):
        s = coq_val(t[1][-1], v[-1])
        for ti, vi in zip(reversed(t[1][:-1]), reversed(v[:-1])):
            s = "(%s, %s)" % (coq_val(ti, vi), s)
        return s
    if k == "arr":
        return "[" + "; ".join(coq_val(t[2], x) for x in v) + "]"
    if k == "set":
        return "[" + "; ".join(coq_val(t[1], x) for x in v) + "]"
    if k == "bset":
        return "None" if v == "T" else "(Some %s)" % coq_val(("set", t[2]), v[1])
    if k == "cp":
        return {"bot": "CBot", "top": "CTop"}[v] if v in ("bot", "top") else "(CConst %s)" % coq_val(t[1], v[1])
    raise ValueError(t)


def fst_snd(p):
    """Coq prints left-nested pairs flat: (x, y, z) is ((x, y), z)"""
    assert isinstance(p, tuple) and len(p) >= 2, p
    return (p[0] if len(p) == 2 else p[:-1]), p[-1]


def from_coq(t, p):
    k = t[0]
    if k == "int":
        assert isinstance(p, int) and not isinstance(p, bool), p
        return p
    if k == "bool":
        assert isinstance(p, bool), p
        return p
    if k == "unit":
        assert p == "tt", p
        return ()
    if k == "opt":
        if p == "None":
            return ("N",)
        assert p[0] == "Some" and len(p) == 2, p
        return ("S", from_coq(t[1], p[1]))
    if k in TRANSPARENT:
        return from_coq(t[1], p)
    if k in ("tup", "prod"):
        out = []
        for ti in t[1][:-1]:
            x, p = fst_snd(p)
            out.append(from_coq(ti, x))
        out.append(from_coq(t[1][-1], p))
        return tuple(out)
    if k == "arr":
        assert isinstance(p, list), p
        return tuple(from_coq(t[2], x) for x in p)
    if k == "set":
        assert isinstance(p, list), p
        return tuple(from_coq(t[1], x) for x in p)          # NOT sorted here: the model must produce the canonical order itself
    if k == "bset":
        if p == "None":
            return "T"
        assert p[0] == "Some", p
        return ("B", from_coq(("set", t[2]), p[1]))
    if k == "cp":
        if p in ("CBot", "CTop"):
            return {"CBot": "bot", "CTop": "top"}[p]
        assert p[0] == "CConst", p
        return ("c", from_coq(t[1], p[1]))
    raise ValueError(t)


def from_coq_cmp(p):
    if p == "None":
        return "N"
    assert p[0] == "Some", p
    return {"Lt": "L", "Eq": "E", "Gt": "G"}[p[1]]


# ------------------------------------------------------------------ python specification oracle
def s_le(t, a, b):
    k = t[0]
    if k in ("int", "bool"):
        return a <= b
    if k == "unit":
        return True
    if k == "opt":
        if a == ("N",):
            return True
        return b != ("N",) and s_le(t[1], a[1], b[1])
    if k in ("rc", "arc", "box", "ord"):
        return s_le(t[1], a, b)
    if k in ("rev", "dual"):
        return s_le(t[1], b, a)
    if k == "tup":                      # lexicographic order of std tuples
        for ti, x, y in zip(t[1], a, b):
            if x != y:
                return s_le(ti, x, y)
        return True
    if k == "prod":                     # product order
        return all(s_le(ti, x, y) for ti, x, y in zip(t[1], a, b))
    if k == "arr":
        return all(s_le(t[2], x, y) for x, y in zip(a, b))
    if k == "set":
        return set(a) <= set(b)
    if k == "bset":
        return b == "T" or (a != "T" and set(a[1]) <= set(b[1]))
    if k == "cp":
        return a == "bot" or b == "top" or a == b
    raise ValueError(t)


def s_pcmp(t, a, b):
    if a == b:
        return "E"
    if s_le(t, a, b):
        return "L"
    if s_le(t, b, a):
        return "G"
    return "N"


def s_join(t, a, b, meet=False):
    """least upper bound (greatest lower bound when meet) by the mathematical definition of each type"""
    k = t[0]
    if k in ("int", "bool"):
        return min(a, b) if meet else max(a, b)
    if k == "unit":
        return ()
    if k == "opt":
        if a == ("N",) or b == ("N",):
            return ("N",) if meet else (b if a == ("N",) else a)
        return ("S", s_join(t[1], a[1], b[1], meet))
    if k in ("rc", "arc", "box"):
        return s_join(t[1], a, b, meet)
    if k in ("rev", "dual"):
        return s_join(t[1], a, b, not meet)
    if k in ("ord", "tup"):             # total orders: max / min
        lo, hi = (a, b) if s_le(t, a, b) else (b, a)
        return lo if meet else hi
    if k == "prod":
        return tuple(s_join(ti, x, y, meet) for ti, x, y in zip(t[1], a, b))
    if k == "arr":
        return tuple(s_join(t[2], x, y, meet) for x, y in zip(a, b))
    if k == "set":
        return canon_set(t[1], set(a) & set(b) if meet else set(a) | set(b))
    if k == "bset":
        if meet:
            if a == "T":
                return b
            if b == "T":
                return a
            return ("B", canon_set(t[2], set(a[1]) & set(b[1])))
        if a == "T" or b == "T":
            return "T"
        u = canon_set(t[2], set(a[1]) | set(b[1]))
        return "T" if len(u) > t[1] else ("B", u)
    if k == "cp":
        if a == b:
            return a
        lo, hi = ("top", "bot") if meet else ("bot", "top")
        if a == lo:
            return b
        if b == lo:
            return a
        return hi
    raise ValueError(t)


def s_bounds(t):
    """(bottom, top) where the Rust type implements BoundedLattice, else None"""
    k = t[0]
    if k == "int":
        return INTS[t[1]]
    if k == "bool":
        return (False, True)
    if k == "unit":
        return ((), ())
    if k == "opt":
        b = s_bounds(t[1])
        return b and (("N",), ("S", b[1]))
    if k in ("rc", "arc", "box", "ord", "set"):
        return None
    if k in ("rev", "dual"):
        b = s_bounds(t[1])
        return b and (b[1], b[0])
    if k in ("tup", "prod", "arr"):
        comps = t[1] if k != "arr" else (t[2],) * t[1]
        bs = [s_bounds(x) for x in comps]
        if any(b is None for b in bs):
            return None
        return (tuple(b[0] for b in bs), tuple(b[1] for b in bs))
    if k == "bset":
        return (("B", ()), "T")
    if k == "cp":
        return ("bot", "top")
    raise ValueError(t)


def s_has_ord(t):
    k = t[0]
    if k in ("int", "bool", "unit"):
        return True
    if k in ("opt", "rc", "arc", "box", "rev", "dual", "ord"):
        return s_has_ord(t[1])
    if k == "tup":
        return all(s_has_ord(x) for x in t[1])
    return False


# ------------------------------------------------------------------ carriers
def carrier(t, rng, cap, depth=0):
    """values of type t: exhaustive over small component carriers when that fits under cap, else a sample of
    cap values (bottom / top when the type is bounded, random values, and neighbours of earlier values that
    differ in one component, so that comparable / nearly equal pairs are frequent)"""
    k = t[0]
    if k == "int":
        lo, hi = INTS[t[1]]
        rich = cap >= 100
        vals = [x for x in (([-3, -2, -1, 0, 1, 2, 3] if rich else [-2, -1, 0, 1, 2]) if lo < 0 else ([0, 1, 2, 3, 4] if rich else [0, 1, 2, 3])) if lo <= x <= hi]
        return ([lo] + vals + [hi]) if depth == 0 else vals
    if k == "bool":
        return [False, True]
    if k == "unit":
        return [()]
    if k == "opt":
        return [("N",)] + [("S", v) for v in carrier(t[1], rng, cap - 1, depth)]
    if k in TRANSPARENT:
        return carrier(t[1], rng, cap, depth)
    if k in ("tup", "prod", "arr"):
        comps = t[1] if k != "arr" else (t[2],) * t[1]
        cs = [carrier(x, rng, cap, depth + 1) for x in comps]
        size = 1
        for c in cs:
            size *= len(c)
        if size <= cap:
            return [tuple(p) for p in itertools.product(*cs)]
        out, seen = [], set()
        b = s_bounds(t)
        for v in (list(b) if b else []):
            if all(x in c for x, c in zip(v, cs)) and v not in seen:
                seen.add(v)
                out.append(v)
        tries = 0
        while len(out) < cap and tries < cap * 50:
            tries += 1
            if out and rng.random() < 0.6:
                base = list(rng.choice(out))
                j = rng.randrange(len(cs))
                base[j] = rng.choice(cs[j])
                v = tuple(base)
            else:
                v = tuple(rng.choice(c) for c in cs)
            if v not in seen:
                seen.add(v)
                out.append(v)
        return out
    if k in ("set", "bset"):
        te = t[1] if k == "set" else t[2]
        nu = (4 if depth == 0 else 3) if cap >= 100 else (3 if depth == 0 else 2)
        if te[0] == "int":
            u = list(range(nu))
        else:                                   # nu elements spread over the element type's carrier
            ev = carrier(te, rng, cap, depth + 1)
            u = [ev[(i * (len(ev) - 1)) // max(1, nu - 1)] for i in range(min(nu, len(ev)))]
            u = list(dict.fromkeys(u))
        subsets = [canon_set(te, s) for n in range(len(u) + 1) for s in itertools.combinations(u, n)]
        if k == "set":
            return subsets
        return [("B", s) for s in subsets if len(s) <= t[1]] + ["T"]
    if k == "cp":
        return ["bot"] + [("c", v) for v in carrier(t[1], rng, cap - 2, depth)] + ["top"]
    raise ValueError(t)


def gen_tables(tier, seed):
    """per type tag: the carrier (every ordered pair over it becomes a pair row) and the triple cases"""
    rng = lib.rng_for(seed, PROP)
    cap = 40 if tier == "quick" else 620
    tcap = 5 if tier == "quick" else 12
    tables, triples = {}, []
    for tag, t in TYPES.items():
        vals = carrier(t, rng, cap)
        if len(vals) > cap:
            b = s_bounds(t)
            keep = [v for v in (b or ()) if v in vals]
            rest = [v for v in vals if v not in keep]
            rng.shuffle(rest)
            vals = keep + rest[:cap - len(keep)]
        tables[tag] = vals
        sub = list(vals)
        rng.shuffle(sub)
        sub = sub[:tcap]
        for a in sub:
            for b in sub:
                for c in sub:
                    triples.append(dict(mode="3", tag=tag, a=" ".join(enc(t, a)), b=" ".join(enc(t, b)), c=" ".join(enc(t, c))))
    return tables, triples


def model_rows(tables, extra):
    """Coq side: rows (denote ty) over carrier x carrier (the carrier is elaborated once per coqc process as a
    Definition, the pairs are built inside Coq by list_prod) and over the explicit extra pairs"""
    out = {}

    def read(index, res):
        for (tag, keys), rs in zip(index, res):
            t = TYPES[tag]
            assert len(rs) == len(keys), (tag, len(rs), len(keys))
            for key, r in zip(keys, rs):
                assert r[0] == "R" and len(r) == 14, r
                out[(tag, key)] = dict(j=from_coq(t, r[1]), m=from_coq(t, r[2]), jm=from_coq(t, r[3]), jmf=r[4], mm=from_coq(t, r[5]), mmf=r[6],
                                       pc=from_coq_cmp(r[7]), eq=r[8], cmp="-" if r[9] == "None" else from_coq_cmp(r[9]),
                                       abs1=from_coq(t, r[10]), abs2=from_coq(t, r[11]), wf_in=r[12], wf_out=r[13])
    small_pre, small_exprs, small_index = PRELUDE, [], []
    for tag, vals in tables.items():
        t = TYPES[tag]
        ty = coq_ty(t)
        defn = "Definition vs_%s : list (carrier (denote %s)) := [%s].\n" % (tag, ty, "; ".join(coq_val(t, v) for v in vals))
        step = max(1, 600 // max(1, len(vals)))
        exprs, index = [], []
        for i in range(0, len(vals), step):
            ch = vals[i:i + step]
            exprs.append("rows (denote %s) (list_prod ([%s] : list (carrier (denote %s))) vs_%s)" % (ty, "; ".join(coq_val(t, a) for a in ch), ty, tag))
            index.append((tag, [(a, b) for a in ch for b in vals]))
        if len(vals) > 64:
            read(index, lib.coq_eval(PROP + "_" + tag, PRELUDE + defn, exprs, per_shard=max(1, len(exprs) // (3 * lib.NCPU))))
        else:
            small_pre += defn
            small_exprs += exprs
            small_index += index
    for tag, keys in extra.items():
        t = TYPES[tag]
        for i in range(0, len(keys), 300):
            ch = keys[i:i + 300]
            small_exprs.append("rows (denote %s) [%s]" % (coq_ty(t), "; ".join("(%s, %s)" % (coq_val(t, a), coq_val(t, b)) for a, b in ch)))
            small_index.append((tag, ch))
    read(small_index, lib.coq_eval(PROP, small_pre, small_exprs, per_shard=max(1, len(small_exprs) // (3 * lib.NCPU))))
    return out


def case_line(c):
    if c["mode"] == "2":
        return "2 %s %s %s" % (c["tag"], c["a"], c["b"])
    if c["mode"] == "3":
        return "3 %s %s %s %s" % (c["tag"], c["a"], c["b"], c["c"])
    if c["mode"] == "O":
        return "O %s %s %s" % (c["tag"], c["a"], c["b"])
    return "B %s" % c["tag"]


PAIR_FIELDS = ["j", "m", "jm", "jmf", "mm", "mmf", "jms", "jmsf", "mms", "mmsf", "pc", "eq", "ops", "cmp", "abs1", "abs2", "ea", "eb"]
VAL_FIELDS = ("j", "m", "jm", "mm", "jms", "mms", "abs1", "abs2", "ea", "eb")


def parse_pair(t, line):
    if line.strip() == "panic":
        return "panic"
    f = [x.strip() for x in line.split(";")]
    assert len(f) == len(PAIR_FIELDS), line
    r = dict(zip(PAIR_FIELDS, f))
    for k in VAL_FIELDS:
        r[k] = dec_all(t, r[k])
    for k in ("jmf", "mmf", "jmsf", "mmsf", "eq"):
        r[k] = r[k] == "1"
    return r


def parse_triple(t, line):
    if line.strip() == "panic":
        return "panic"
    f = [x.strip() for x in line.split(";")]
    assert len(f) == 7, line
    return dict(jl=dec_all(t, f[0]), jr=dec_all(t, f[1]), ml=dec_all(t, f[2]), mr=dec_all(t, f[3]), ab=f[4], bc=f[5], ac=f[6])


ORD_PRELUDE = PRELUDE + "From AV Require Import Lattice.LatOrdOps.\n"


def parse_ord(t, line):
    """mode O: cmp(a,b) ; cmp(b,a) ; max ; min ; sort_by(cmp) ; sort() ; BTreeSet order ; binary_search(b) ; max_by(cmp) ; a.clamp(lo, hi)"""
    if line.strip() in ("panic", "-"):
        return line.strip()
    f = [x.strip() for x in line.split(";")]
    assert len(f) == 10, line
    lst = lambda x: [dec_all(t, y) for y in x.split("|")]
    return dict(cab=f[0], cba=f[1], omax=dec_all(t, f[2]), omin=dec_all(t, f[3]), sortby=lst(f[4]), sort=lst(f[5]), bts=lst(f[6]), bs=f[7],
                maxby=dec_all(t, f[8]), clamp=dec_all(t, f[9]))


def check_ord(t, a, b, r):
    """every consumer of Ord answers what the order of the type (PartialOrd, total on these types) says"""
    if r == "panic":
        return [("no-panic", "a consumer of Ord panicked (clamp asserts lo <= hi on the pair sorted by cmp)")]
    if r == "-":
        return [("table", "harness says not Ord, table says Ord")]
    bad = []
    sj, sm, spc = s_join(t, a, b), s_join(t, a, b, True), s_pcmp(t, a, b)
    if r["cab"] != spc or r["cba"] != FLIP[spc]:
        bad.append(("cmp-is-the-order", "cmp(a,b) = %s cmp(b,a) = %s, the order says %s" % (r["cab"], r["cba"], spc)))
    if r["omax"] != sj or r["omin"] != sm or r["maxby"] != sj:
        bad.append(("max-min-are-join-meet", "Ord::max = %s Ord::min = %s max_by(cmp) = %s, join = %s meet = %s" % (r["omax"], r["omin"], r["maxby"], sj, sm)))
    if r["sortby"] != [sm, sj] or r["sort"] != [sm, sj]:
        bad.append(("sort-is-the-order", "sort_by(cmp) = %s sort() = %s, expected %s" % (r["sortby"], r["sort"], [sm, sj])))
    if r["bts"] != ([a] if a == b else [sm, sj]):
        bad.append(("btreeset-is-the-order", "BTreeSet::from([a, b]) iterates %s" % (r["bts"],)))
    if r["bs"] == "!" or [sm, sj][int(r["bs"])] != b:
        bad.append(("binary_search-finds", "[a, b] sorted by cmp, binary_search(b) = %s" % r["bs"]))
    if r["clamp"] != a:
        bad.append(("clamp", "a.clamp(lo, hi) = %s for the pair sorted by cmp" % (r["clamp"],)))
    return bad


def from_coq_ord(t, v):
    """Some (OR cab cba max min (x, y) [..]) of Lattice/LatOrdOps.v"""
    if v == "None":
        return None
    assert v[0] == "Some" and v[1][0] == "OR" and len(v[1]) == 7, v
    _, cab, cba, mx, mn, srt, st = v[1]
    x, y = fst_snd(srt)
    c = {"Lt": "L", "Eq": "E", "Gt": "G"}
    return dict(cab=c[cab], cba=c[cba], omax=from_coq(t, mx), omin=from_coq(t, mn), sortby=[from_coq(t, x), from_coq(t, y)], bts=[from_coq(t, z) for z in st])


def ops_of(pc):
    return "".join("1" if x else "0" for x in (pc in "LE", pc == "L", pc in "GE", pc == "G"))


def check_pair(t, a, b, r):
    """the property's laws + the mathematical definition, on the implementation's answers for (a, b).
    returns a list of (law, detail)"""
    if r == "panic":
        return [("no-panic", "the implementation panicked")]
    bad = []

    def need(cond, law, detail=""):
        if not cond:
            bad.append((law, detail))
    sj, sm, spc = s_join(t, a, b), s_join(t, a, b, True), s_pcmp(t, a, b)
    need(r["ea"] == a and r["eb"] == b, "arguments-intact", "arguments read back as %s, %s" % (r["ea"], r["eb"]))
    need(r["j"] == sj, "join-is-lub", "join = %s, least upper bound = %s" % (r["j"], sj))
    need(r["m"] == sm, "meet-is-glb", "meet = %s, greatest lower bound = %s" % (r["m"], sm))
    need(r["pc"] == spc, "partial_cmp-is-the-order", "partial_cmp = %s, order says %s" % (r["pc"], spc))
    need(r["eq"] == (a == b), "eq-structural", "== is %s" % r["eq"])
    need(r["ops"] == ops_of(r["pc"]), "operators-agree-with-partial_cmp", "<= < >= > = %s but partial_cmp = %s" % (r["ops"], r["pc"]))
    if s_has_ord(t):
        need(r["cmp"] == r["pc"], "cmp-agrees-with-partial_cmp", "cmp = %s partial_cmp = %s" % (r["cmp"], r["pc"]))
    else:
        need(r["cmp"] == "-", "table", "harness says Ord, table says not")
    need(r["jm"] == r["j"], "join_mut-equals-join", "join_mut leaves %s, join returns %s" % (r["jm"], r["j"]))
    need(r["mm"] == r["m"], "meet_mut-equals-meet", "meet_mut leaves %s, meet returns %s" % (r["mm"], r["m"]))
    need(r["jmf"] == (r["jm"] != a), "join_mut-flag-exact", "join_mut returned %s, receiver %s -> %s" % (r["jmf"], a, r["jm"]))
    need(r["mmf"] == (r["mm"] != a), "meet_mut-flag-exact", "meet_mut returned %s, receiver %s -> %s" % (r["mmf"], a, r["mm"]))
    need((r["jms"], r["jmsf"]) == (r["jm"], r["jmf"]), "join_mut-sharing-independent", "shared: %s %s unique: %s %s" % (r["jms"], r["jmsf"], r["jm"], r["jmf"]))
    need((r["mms"], r["mmsf"]) == (r["mm"], r["mmf"]), "meet_mut-sharing-independent", "shared: %s %s unique: %s %s" % (r["mms"], r["mmsf"], r["mm"], r["mmf"]))
    need(r["abs1"] == a, "absorption", "a v (a ^ b) = %s" % (r["abs1"],))
    need(r["abs2"] == a, "absorption", "a ^ (a v b) = %s" % (r["abs2"],))
    le = r["pc"] in "LE"
    need(le == (r["j"] == b), "order-agreement", "a <= b is %s but join(a,b) == b is %s" % (le, r["j"] == b))
    need(le == (r["m"] == a), "order-agreement", "a <= b is %s but meet(a,b) == a is %s" % (le, r["m"] == a))
    if a == b:
        need(r["j"] == a and r["m"] == a, "idempotence", "a v a = %s, a ^ a = %s" % (r["j"], r["m"]))
        need(r["pc"] == "E", "reflexive", "partial_cmp(a, a) = %s" % r["pc"])
    return bad


FLIP = {"L": "G", "G": "L", "E": "E", "N": "N"}


def known_class(tag, law):
    return None     # no deviation of the real code from the property is known


def tie(tier, seed, replay):
    binary, out = lib.harness_build("ds_lat")
    if binary is None:
        raise lib.Infra("ds_lat does not build against /repo:\n" + out[-3000:])
    # --- the harness' type table must be the one this file renders to Coq
    tab = lib.ds_run(binary, "lat", ["T"])[0].split("|")
    tab = {x.split("=")[0]: x.split("=")[1:] for x in tab}
    if set(tab) != set(TYPES):
        raise lib.Infra("type tables differ: %s" % sorted(set(tab) ^ set(TYPES)))
    for tag, t in TYPES.items():
        if tab[tag][0] != rust_name(t):
            raise lib.Infra("type table: tag %s is %s in ds_lat, %s here" % (tag, tab[tag][0], rust_name(t)))
    mism = []
    # --- static facts: the type is well-formed in the model, Ord / BoundedLattice are implemented where the
    #     model says, bottom / top are the model's
    tags = list(TYPES)
    stat_model = lib.coq_eval(PROP + "s", PRELUDE, ["static %s" % coq_ty(TYPES[tag]) for tag in tags], per_shard=8)
    stat_impl = lib.ds_run(binary, "lat", ["B %s" % tag for tag in tags])
    bounds = {}
    for tag, sm, si in zip(tags, stat_model, stat_impl):
        t = TYPES[tag]
        (wf, hasord), mb = fst_snd(sm)[0], fst_snd(sm)[1]
        if not wf:
            raise lib.Infra("wf_lty is false for %s" % tag)
        ib = None if si.strip() == "none" else tuple(dec_all(t, x.strip()) for x in si.split(";"))
        mbv = None if mb == "None" else tuple(from_coq(t, x) for x in fst_snd(mb[1]))
        case = dict(mode="B", tag=tag)
        sb = s_bounds(t)
        if ib != sb or (tab[tag][1] == "ord") != s_has_ord(t):
            mism.append(dict(case=case, impl=[ib, tab[tag][1]], model=[mbv, hasord], spec=[sb, s_has_ord(t)], kind="impl_violates_spec", known=None,
                             what="bottom/top or Ord-ness of %s: implementation %s, expected %s" % (rust_name(t), ib, sb)))
        elif mbv != ib or hasord != (tab[tag][1] == "ord") or (mbv is None) != (tab[tag][2] == "nb"):
            mism.append(dict(case=case, impl=[ib, tab[tag][1:]], model=[mbv, hasord], spec=[sb], kind="model_differs", known=None,
                             what="correspondence Lattice/LatModel.v bnd/ocmp of %s vs BoundedLattice / Ord impls" % coq_ty(t)))
        bounds[tag] = ib
    # --- cases
    tables, triple_cases, extra_cases = {}, [], []
    if replay:
        extra_cases = [c for c in [json.load(open(replay))["case"]] if c.get("mode") in ("2", "3", "O")]
    else:
        cp = os.path.join(lib.VERIF, "corpus", "C16.jsonl")
        extra_cases = [json.loads(l) for l in open(cp) if l.strip()] if os.path.exists(cp) else []
        tables, triple_cases = gen_tables(tier, seed)
    o_cases = [c for c in extra_cases if c["mode"] == "O"]
    extra_cases = [c for c in extra_cases if c["mode"] != "O"]
    cases = list(extra_cases) + triple_cases
    for tag, vals in tables.items():
        t = TYPES[tag]
        es = [" ".join(enc(t, v)) for v in vals]
        cases += [dict(mode="2", tag=tag, a=ea, b=eb) for ea in es for eb in es]
    lines = lib.ds_run(binary, "lat", [case_line(c) for c in cases])
    pairs, triples, extra = {}, [], {}
    for c, l in zip(cases, lines):
        t = TYPES[c["tag"]]
        if c["mode"] == "2":
            a, b = dec_all(t, c["a"]), dec_all(t, c["b"])
            pairs.setdefault(c["tag"], {})[(a, b)] = (c, parse_pair(t, l))
        else:
            triples.append((c, t, [dec_all(t, c[x]) for x in "abc"], parse_triple(t, l)))
    tabset = {tag: set(vals) for tag, vals in tables.items()}
    for c in extra_cases:
        if c["mode"] == "2":
            t = TYPES[c["tag"]]
            a, b = dec_all(t, c["a"]), dec_all(t, c["b"])
            if not (a in tabset.get(c["tag"], ()) and b in tabset.get(c["tag"], ())):
                extra.setdefault(c["tag"], []).append((a, b))
    model = model_rows(tables, extra)
    # --- compare
    dist, seen = {}, set()
    MODEL_FIELDS = ("j", "m", "jm", "jmf", "mm", "mmf", "pc", "eq", "cmp", "abs1", "abs2")
    for tag, tabp in pairs.items():
        t = TYPES[tag]
        for (a, b), (c, r) in tabp.items():
            dist[tag] = dist.get(tag, 0) + 1
            if a != b:
                seen.add((tag, a, b))
            mr = model[(tag, (a, b))]
            bad = check_pair(t, a, b, r)
            if r != "panic":
                # laws that need a second row of the table
                other = tabp.get((b, a))
                if other and other[1] != "panic":
                    o = other[1]
                    if o["j"] != r["j"] or o["m"] != r["m"]:
                        bad.append(("commutativity", "join(a,b) = %s join(b,a) = %s meet(a,b) = %s meet(b,a) = %s" % (r["j"], o["j"], r["m"], o["m"])))
                    if o["pc"] != FLIP[r["pc"]]:
                        bad.append(("partial_cmp-duality", "cmp(a,b) = %s cmp(b,a) = %s" % (r["pc"], o["pc"])))
                bd = bounds.get(tag)
                if bd:
                    if a == bd[0] and not (r["pc"] in "LE" and r["j"] == b and r["m"] == a):
                        bad.append(("bottom-extremal", "bottom = %s vs %s: cmp %s join %s meet %s" % (a, b, r["pc"], r["j"], r["m"])))
                    if b == bd[1] and not (r["pc"] in "LE" and r["j"] == b and r["m"] == a):
                        bad.append(("top-extremal", "%s vs top = %s: cmp %s join %s meet %s" % (a, b, r["pc"], r["j"], r["m"])))
                # Dual / Reverse swap, against the implementation's own table of the inner type
                if t[0] in ("dual", "rev"):
                    for tag2, t2 in TYPES.items():
                        if t2 == t[1] and (a, b) in pairs.get(tag2, {}):
                            o = pairs[tag2][(a, b)][1]
                            if o != "panic" and not (o["j"] == r["m"] and o["m"] == r["j"] and o["pc"] == FLIP[r["pc"]] and
                                                     (o["jm"], o["jmf"]) == (r["mm"], r["mmf"]) and (o["mm"], o["mmf"]) == (r["jm"], r["jmf"])):
                                bad.append(("dual-reverse-swap", "%s vs %s on the same arguments: %s / %s" % (tag, tag2, r, o)))
                            break
            if bad:
                law, detail = bad[0]
                mism.append(dict(case=c, impl=r, model=mr, spec=dict(join=s_join(t, a, b), meet=s_join(t, a, b, True), cmp=s_pcmp(t, a, b)),
                                 kind="impl_violates_spec", known=known_class(tag, law), laws=[x[0] for x in bad],
                                 what="%s: law %s fails for a = %s, b = %s: %s" % (rust_name(t), law, c["a"], c["b"], detail)))
            elif not (mr["wf_in"] and mr["wf_out"]) or any(mr[k] != r[k] for k in MODEL_FIELDS):
                diff = [k for k in MODEL_FIELDS if mr[k] != r[k]] + ([] if mr["wf_in"] else ["wf(input)"]) + ([] if mr["wf_out"] else ["wf(output)"])
                mism.append(dict(case=c, impl=r, model=mr, spec=None, kind="model_differs", known=None,
                                 what="correspondence Lattice/LatModel.v denote %s vs %s (fields %s)" % (coq_ty(t), rust_name(t), ",".join(diff))))
    for c, t, (a, b, cc), r in triples:
        dist[c["tag"] + "/3"] = dist.get(c["tag"] + "/3", 0) + 1
        if len({a, b, cc}) == 3:
            seen.add((c["tag"], a, b, cc))
        bad = []
        if r == "panic":
            bad.append(("no-panic", "the implementation panicked"))
        else:
            sj = s_join(t, s_join(t, a, b), cc)
            sm = s_join(t, s_join(t, a, b, True), cc, True)
            if not (r["jl"] == r["jr"] == sj):
                bad.append(("associativity", "(a v b) v c = %s, a v (b v c) = %s, expected %s" % (r["jl"], r["jr"], sj)))
            if not (r["ml"] == r["mr"] == sm):
                bad.append(("associativity", "(a ^ b) ^ c = %s, a ^ (b ^ c) = %s, expected %s" % (r["ml"], r["mr"], sm)))
            if r["ab"] in "LE" and r["bc"] in "LE" and r["ac"] not in "LE":
                bad.append(("transitivity", "a <= b <= c but cmp(a,c) = %s" % r["ac"]))
            if (r["ab"], r["bc"], r["ac"]) != (s_pcmp(t, a, b), s_pcmp(t, b, cc), s_pcmp(t, a, cc)):
                bad.append(("partial_cmp-is-the-order", "cmp = %s %s %s" % (r["ab"], r["bc"], r["ac"])))
        if bad:
            law, detail = bad[0]
            mism.append(dict(case=c, impl=r, model=None, spec=None, kind="impl_violates_spec", known=known_class(c["tag"], law),
                             what="%s: law %s fails for a = %s, b = %s, c = %s: %s" % (rust_name(t), law, c["a"], c["b"], c["c"], detail)))
    # --- the consumers of Ord (mode O) on every type that implements it: every ordered pair over a sub-carrier
    ocap = 12 if tier == "quick" else 40
    for tag, vals in tables.items():
        t = TYPES[tag]
        if s_has_ord(t):
            es = [" ".join(enc(t, v)) for v in vals[:ocap]]
            o_cases += [dict(mode="O", tag=tag, a=ea, b=eb) for ea in es for eb in es]
    o_lines = lib.ds_run(binary, "lat", [case_line(c) for c in o_cases]) if o_cases else []
    o_bytag = {}
    for c, l in zip(o_cases, o_lines):
        t = TYPES[c["tag"]]
        o_bytag.setdefault(c["tag"], []).append((c, dec_all(t, c["a"]), dec_all(t, c["b"]), parse_ord(t, l)))
    o_exprs, o_index = [], []
    for tag, rows_ in o_bytag.items():
        t = TYPES[tag]
        for i in range(0, len(rows_), 300):
            ch = rows_[i:i + 300]
            o_exprs.append("ord_rows (denote %s) [%s]" % (coq_ty(t), "; ".join("(%s, %s)" % (coq_val(t, a), coq_val(t, b)) for _, a, b, _ in ch)))
            o_index.append((tag, ch))
    o_model = lib.coq_eval(PROP + "o", ORD_PRELUDE, o_exprs, per_shard=max(1, len(o_exprs) // (3 * lib.NCPU))) if o_exprs else []
    nord = 0
    for (tag, ch), ms in zip(o_index, o_model):
        t = TYPES[tag]
        assert len(ms) == len(ch), (tag, len(ms), len(ch))
        for (c, a, b, r), mv_ in zip(ch, ms):
            nord += 1
            dist[tag + "/O"] = dist.get(tag + "/O", 0) + 1
            if a != b:
                seen.add((tag, "O", a, b))
            mr = from_coq_ord(t, mv_)
            bad = check_ord(t, a, b, r)
            if bad:
                law, detail = bad[0]
                mism.append(dict(case=c, impl=r, model=mr, spec=dict(join=s_join(t, a, b), meet=s_join(t, a, b, True), cmp=s_pcmp(t, a, b)),
                                 kind="impl_violates_spec", known=known_class(tag, law), laws=[x[0] for x in bad],
                                 what="%s: consumer of Ord: law %s fails for a = %s, b = %s: %s" % (rust_name(t), law, c["a"], c["b"], detail)))
            elif mr is None or any(mr[k] != r[k] for k in mr):
                mism.append(dict(case=c, impl=r, model=mr, spec=None, kind="model_differs", known=None,
                                 what="correspondence Lattice/LatOrdOps.v ord_row (denote %s) vs the consumers of Ord on %s" % (coq_ty(t), rust_name(t))))
    npairs = sum(len(v) for v in pairs.values())
    some = [v for tag in ("dual_opt_prod", "bset2", "prod11") for v in list(pairs.get(tag, {}).values())[7:8]]
    return dict(evaluations=npairs + len(triples) + len(tags) + nord, distinct_nontrivial=len(seen),
                rule="Ord rows (types that implement Ord: direct cmp both ways, Ord::max / min, max_by(cmp), sort_by(cmp), sort(), BTreeSet order, binary_search, clamp over the pair sorted by cmp - every ordered pair over the first 12 (thorough: 40) carrier values; oracle: each is what the order of the type says; model Lattice/LatOrdOps.v); pair rows: every ordered pair over the per-type carrier (exhaustive over small component carriers: ints MIN,-2..2,MAX at top level, -2..2 nested (thorough: -3..3); sets over {0,1,2} (top level) / {0,1} (nested) (thorough: {0..3} / {0,1,2}); all Option / ConstPropagation / BoundedSet shapes; sampled with neighbours + bottom/top when the product exceeds the cap); triple rows: all triples over a random sub-carrier; non-trivial = the arguments are pairwise distinct; distinct = distinct (type, arguments)",
                samples=[dict(case=c, impl=r, model=model[(c["tag"], (dec_all(TYPES[c["tag"]], c["a"]), dec_all(TYPES[c["tag"]], c["b"])))]) for c, r in some],
                distribution=dict(rows_by_type=dist, types={tag: rust_name(t) for tag, t in TYPES.items()}, pair_rows=npairs, triple_rows=len(triples), static_rows=len(tags), ord_rows=nord),
                mismatches=mism,
                trusted_base=["harness/ds_lat (Rust, value parser/printer; BoundedSet read through its derived Debug output) + gen/props/c16.py renderers and the python order / lub / glb oracle",
                              "hand-written Gallina mirror Lattice/LatModel.v of ascent_base/src/lattice*.rs (tied by these runs, not verified)",
                              "Rust std: BTreeSet set semantics, derived PartialEq / PartialOrd / Ord of Option and tuples, Ord::min / Ord::max, Rc / Arc make_mut + try_unwrap ownership glue"],
                assumptions=["integers are modelled as Z restricted to the type's range (no lattice operation performs arithmetic)",
                             "Set<T> / BoundedSet<N, T>: theorems for every element type of the syntax that implements Ord (canonical sorted lists); the tie exercises Set over i32, tuples, Option, Reverse, Dual and BoundedSet over i32 (its private field is read through Debug)",
                             "tuple / Product arities: theorems cover every arity >= 1; the crate ships 1..11; the tie exercises 1, 2, 3, 11",
                             "tuple lattices are exercised with Dual / Reverse / Option components at the first, a middle and the last position, nested, and under Dual / Reverse / Option / OrdLattice / Rc / Box / Set / Product"])
