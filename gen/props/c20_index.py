"""C20, index level (DS harness): the CRelNoIndex protocol of a run across rayon pools of different sizes.

Theorems: coq/Index/NoIndexPools.v, coq/Props/C20.v (c20_noindex_*).  This module is the correspondence for them:
the stratum protocol  "field (created in a pool of size a, filled by workers) -> delta; total, new created in the run
pool (size c); rounds { freeze total+delta; read; workers insert into new; unfreeze; merge }; final merge"  is run
 (a) against the real ascent::internal::CRelNoIndex by harness/ds_index (values really created inside rayon pools of
     the given sizes, inserts really performed by the given worker threads),
 (b) in the shard-exact C19 interpreter (Index/IndexModel.v run0 / I_cni),
 (c) in the protocol model of Index/NoIndexPools.v (run_index / run_index_noreset),
and compared with (d) the statement itself: every row is readable from total afterwards, once — required whenever
a <= c (in particular a = c, the only combination that arises since update_indices re-creates the index in the run
pool); for a > c (only reachable without that reset) the loss predicted by c20_noindex_without_reset_large_refuted
is counted and must agree between implementation and both models.  (e) Index/NoIndexLife.v: the same history as a LIFE
(rows assigned, index built in a pool of a threads by the given workers, one run in a pool of c) under AlwaysRebuild (a = c) resp.
KeepIfSizeUnchanged (a != c: the run keeps the index built in pool a) must give the same total as (c).  Family protocol_big:
150-500 rows in a field built by the workers of a pool of 4 / 8 / 16.

Not a ./check entry point of its own: gen/props/c20.py (program level tie) may call run(tier, seed) and merge the
result; `python3 -m gen.props.c20_index quick|thorough` runs it alone."""
import collections
import sys

from .. import lib
from . import c19

PROP = "C20"
POOLS = [1, 2, 3]
BATCH = 40
PRELUDE = ("From Coq Require Import List ZArith.\nFrom AV Require Import Index.IndexModel.\n"
           "From AV Require Import Index.ConcIndex.\nFrom AV Require Import Index.NoIndexPools.\nFrom AV Require Import Index.NoIndexLife.\nImport ListNotations.\n"
           "Open Scope Z_scope.\n"
           "Definition show (r : res cni) : out := match r with Ok f => RGet (Some (concat (snd f))) | _ => RPanic end.\n"
           "Definition show_life (r : res lstate) : out := match r with Ok st => RGet (Some (concat (snd (l_index st)))) | _ => RPanic end.\n")


def protocol_case(a, c, rows, rounds, par_round, reads, seed):
    """rows: [(tid, v)] inserted into the field (a shards) by workers tid; rounds: [[(tid, v)]] with tid < c"""
    P = max(a, c, 1)
    ops = []
    for tid, v in rows:
        ops.append(["cins", 1, tid, v])
    for j, r in enumerate(rounds + [[]]):
        ops += [["frz", 1], ["frz", 2]]
        if reads:
            ops.append(["cget", 0])
        if r and par_round == j:
            tasks = collections.defaultdict(list)
            for tid, v in r:
                tasks[tid].append(["i", tid, v])
            tl = [tasks[t] for t in sorted(tasks)]
            order = [ti for ti, tk in enumerate(tl) for _ in tk]
            ops.append(["par", 0, "r%d" % c, seed, tl, order])
        else:
            for tid, v in r:
                ops.append(["cins", 0, tid, v])
        ops += [["unf", 1], ["unf", 2], ["merge"]]
    ops += [["frz", 0], ["frz", 1], ["frz", 2], ["get", 2, 0], ["get", 1, 0], ["get", 0, 0], ["iter", 2]]
    return dict(type="cni", suite="p1", P=P, n=[c, a, c], ops=ops, unequal=(a != c), family="protocol",
                a=a, c=c, rows=rows, rounds=rounds, par_round=par_round)


def gen_cases(tier, seed):
    rng = lib.rng_for(seed, PROP, "index")
    cases = []
    # exhaustive small: every (a, c), every placement of up to 3 rows over the a shards, one round with one insert per worker subset
    for a in POOLS:
        for c in POOLS:
            for nrows in range(0, 4):
                for place in __import__("itertools").product(range(a), repeat=nrows):
                    rows = [(t, 10 + i) for i, t in enumerate(place)]
                    for k in range(0, c + 1):
                        rounds = [[(t, 50 + t) for t in range(k)]] if k else []
                        cases.append(protocol_case(a, c, rows, rounds, None, True, 0))
    # hundreds of rows in a field built in a LARGE pool (4 / 8 / 16 workers: what Default::default() of a program with initial values
    # or update_indices() leaves behind), run protocol in a small one; also the harmless directions
    nbig = 16 if tier == "quick" else 120
    v = 100000
    for i in range(nbig):
        a = rng.choice([4, 8, 16])
        c = rng.choice([1, 2, 3, 4]) if i % 4 else a
        if i % 7 == 3:
            a, c = c, a
        rows = []
        for _ in range(rng.randint(150, 500)):
            v += 1
            rows.append((rng.randrange(a), v))
        rounds = []
        for _ in range(rng.randint(0, 3)):
            r = []
            for _ in range(rng.randint(1, 12)):
                v += 1
                r.append((rng.randrange(c), v))
            rounds.append(r)
        bc = protocol_case(a, c, rows, rounds, None, True, 0)
        bc["family"] = "protocol_big"
        cases.append(bc)
    nrand = 400 if tier == "quick" else 6000
    v = 100
    for _ in range(nrand):
        a, c = rng.choice(POOLS), rng.choice(POOLS)
        if rng.random() < 0.4:
            a = c                                  # the combination that arises in a run
        rows = []
        for _ in range(rng.randint(0, 6)):
            v += 1
            rows.append((rng.randrange(max(a, 1)), v))
        rounds = []
        for _ in range(rng.randint(0, 4)):
            r = []
            for _ in range(rng.randint(1, 4)):
                v += 1
                r.append((rng.randrange(c), v))
            rounds.append(r)
        par_round = rng.randrange(len(rounds)) if rounds and rng.random() < 0.4 else None
        cases.append(protocol_case(a, c, rows, rounds, par_round, rng.random() < 0.5, rng.randint(0, 10 ** 6)))
    return cases


def pools_expr(c, tidl):
    """the NoIndexPools term for the case; parallel rounds use the worker indices the harness observed"""
    def sched(l):
        return "[" + "; ".join("(%d%%nat, %d)" % (t, v) for t, v in l) + "]"
    rounds = []
    npar = 0
    for j, r in enumerate(c["rounds"]):
        if c["par_round"] == j and r:
            tids = tidl[npar] if npar < len(tidl) else []
            npar += 1
            keys = sorted(set(t for t, _ in r))
            real = {k: (tids[i] if i < len(tids) else 0) for i, k in enumerate(keys)}
            rounds.append([(real[t], v) for t, v in r])
        else:
            rounds.append(r)
    rs = "[" + "; ".join(sched(r) for r in rounds) + "]"
    # the same history in the life model (Index/NoIndexLife.v): rows assigned, index built in a pool of a threads by the given workers
    # (what Default::default() with initial values / update_indices() does), then one run in a pool of c threads
    ids = "[" + "; ".join("%d" % v for _, v in c["rows"]) + "]"
    tids = "[" + "; ".join("%d%%nat" % t for t, _ in c["rows"]) + "]"
    if c["a"] == c["c"]:
        # with the reset: the stored value (here: frozen, 5 shards, stale content) is irrelevant
        return ("show (run_index %d %s [VDyn %s] (true, [[91]; []; [92]; []; []])); "
                "show_life (life AlwaysRebuild [ESet %s; EBuild 5 []; ERun %d %s [VDyn %s]] (fresh_state 3))" % (
                    c["c"], sched(c["rows"]), rs, ids, c["c"], tids, rs))
    return ("show (run_index_noreset %d %s [VDyn %s] (cni_default %d)); "
            "show_life (life KeepIfSizeUnchanged [ESet %s; EBuild %d %s; ERun %d [] [VDyn %s]] (fresh_state 1))" % (
                c["c"], sched(c["rows"]), rs, c["a"], ids, c["a"], tids, c["c"], rs))


def run(tier="quick", seed=0):
    binary, out = lib.harness_build(c19.HARNESS)
    if binary is None:
        raise lib.Infra("ds_index does not build against /repo:\n" + out[-3000:])
    cases = gen_cases(tier, seed)
    lines = lib.ds_run(binary, "p1", [c19.case_line(c) for c in cases])
    impl, tids = [], []
    for l in lines:
        r, t = c19.parse_impl(l)
        impl.append(r)
        tids.append(t)
    exprs = []
    for b in range(0, len(cases), BATCH):
        items = []
        for c, tl in zip(cases[b:b + BATCH], tids[b:b + BATCH]):
            items.append("(%s, [%s])" % (c19.coq_expr(c, tl), pools_expr(c, tl)))
        exprs.append("[" + "; ".join(items) + "]")
    vals = lib.coq_eval("C20idx", PRELUDE, exprs, per_shard=max(1, (len(exprs) + lib.NCPU - 1) // lib.NCPU))
    model0, model1 = [], []
    for v in vals:
        for (h0, h1) in v:
            model0.append(c19.parse_model(h0))
            model1.append(c19.parse_model(h1))
    mism = []
    dist = collections.Counter()
    lossy = 0
    lossy_ex = []
    for c, iv, m0, m1 in zip(cases, impl, model0, model1):
        a, cc = c["a"], c["c"]
        dist["a%s c" % ("=" if a == cc else ("<" if a < cc else ">"))] += 1
        ordered = c["par_round"] is None
        ci, cm = c19.canon(iv, [None] * len(iv), ordered), c19.canon(m0, [None] * len(m0), ordered)
        inserted = sorted([v for _, v in c["rows"]] + [v for r in c["rounds"] for _, v in r])
        line = c19.case_line(c)
        if "panic" in iv or "unsup" in iv:
            mism.append(dict(case=c, impl=iv, model=m0, spec="no panic", kind="impl_violates_spec", known=None,
                             what="CRelNoIndex protocol panicked (a=%d c=%d)  [history: %s]" % (a, cc, line)))
            continue
        gets = [r for o, r in zip([o for o in c["ops"] if o[0] in ("cget", "par", "get", "iter")], iv) if o[0] == "get"]
        total = sorted(gets[0][1])
        rest = sorted(gets[1][1] + gets[2][1])
        if ci != cm:
            mism.append(dict(case=c, impl=ci, model=cm, spec="-", kind="model_differs", known=None,
                             what="correspondence IndexModel.v run0/I_cni vs CRelNoIndex on the pool protocol (a=%d c=%d)  [history: %s]" % (a, cc, line)))
            continue
        if m1[1] != m1[0]:
            mism.append(dict(case=c, impl=None, model=dict(pools=m1[0], life=m1[1]), spec="-", kind="model_differs", known=None,
                             what="Index/NoIndexLife.v life (%s) and Index/NoIndexPools.v run_index%s disagree on the final total (a=%d c=%d)  [history: %s]" % (
                                 "AlwaysRebuild" if a == cc else "KeepIfSizeUnchanged: index built in pool a kept by the run", "" if a == cc else "_noreset", a, cc, line)))
            continue
        mt = m1[0]
        mtotal = None if mt in ("panic", "unsup") else (list(mt[1]) if ordered else sorted(mt[1]))
        itotal = list(gets[0][1]) if ordered else total
        if mtotal != itotal:
            mism.append(dict(case=c, impl=itotal, model=mtotal, spec="-", kind="model_differs", known=None,
                             what="correspondence NoIndexPools.v run_index%s vs CRelNoIndex: final total differs (a=%d c=%d)  [history: %s]" % (
                                 "" if a == cc else "_noreset", a, cc, line)))
            continue
        if a <= cc:
            if total != inserted or rest:
                mism.append(dict(case=c, impl=dict(total=total, delta_new=rest), model=mtotal, spec=inserted, kind="impl_violates_spec", known=None,
                                 what="CRelNoIndex protocol lost or duplicated rows with a=%d <= c=%d: total %r, left in delta/new %r, inserted %r  [history: %s]" % (
                                     a, cc, total, rest, inserted, line)))
        else:
            if sorted(total + rest) != inserted:
                mism.append(dict(case=c, impl=dict(total=total, delta_new=rest), model=mtotal, spec=inserted, kind="impl_violates_spec", known=None,
                                 what="rows vanished altogether (not even left in delta/new) a=%d c=%d  [history: %s]" % (a, cc, line)))
            elif total != inserted:
                lossy += 1
                if len(lossy_ex) < 3:
                    lossy_ex.append(dict(case=line, total=total, left_behind=rest))
    return dict(evaluations=len(cases), distinct_nontrivial=len(set(c19.case_line(c) for c in cases if c["rows"] or c["rounds"])),
                rule="big: field of 150-500 rows built by the workers of a pool of 4 / 8 / 16, protocol in a pool of 1-4 (and the reverse, and equal); exhaustive: field pool a x run pool c in {1,2,3}^2, every placement of <= 3 rows over the a shards, one round with 0..c inserting workers; "
                     "random: 0-6 rows, 0-4 rounds of 1-4 inserts (one round optionally as a real rayon scope in a pool of size c), a = c in 40%; "
                     "non-trivial = at least one row or round",
                distribution=dict(dist), mismatches=mism,
                samples=[dict(case=c19.case_line(c), impl=repr(i)[:300]) for c, i in list(zip(cases, impl))[-3:]],
                extra=dict(index_level=dict(
                    a_greater_c_histories=dist["a> c"], of_which_lose_rows_from_total=lossy, examples=[dict(e, case=e["case"][:400], total=e["total"][:20], left_behind=e["left_behind"][:20]) for e in lossy_ex],
                    big_histories=sum(1 for c in cases if c.get("family") == "protocol_big"),
                    note="a > c does not arise in a run BECAUSE run() re-creates every index in the run pool first (commit 949309d) — that the generated run() really does so when "
                         "indices built elsewhere are present is what the program-level family gen/c20_pools.py checks; the losses counted here reproduce "
                         "c20_noindex_without_reset_large_refuted / c20_noindex_keep_prebuilt_large_pool_refuted on the real CRelNoIndex")),
                trusted_base=["harness/ds_index creates each CRelNoIndex inside a rayon pool of the stated size and performs each serial insert on the stated worker (ThreadPool::broadcast)"],
                assumptions=["one dynamic SCC visit per history at this level (several visits and the reset itself are covered by the theorem and by the program-level tie)"])


if __name__ == "__main__":
    tier = sys.argv[1] if len(sys.argv) > 1 else "quick"
    r = run(tier, int(lib.os.environ.get("VERIF_SEED", "0") or 0))
    print("C20 index level: evaluations=%d distinct_nontrivial=%d mismatches=%d distribution=%s" % (
        r["evaluations"], r["distinct_nontrivial"], len(r["mismatches"]), r["distribution"]))
    print("a>c (only without the reset): %s" % r["extra"]["index_level"])
    for m in r["mismatches"][:5]:
        print(m["kind"], m["what"][:700])
    sys.exit(1 if r["mismatches"] else 0)
