"""C18 — public union-find structures (byods/ascent-byods-rels: uf.rs UnionFind, trrel_union_find.rs
TrRelUnionFind).  Coq models UF/UfModel.v, UF/TrUfModel.v, theorems Props/C18.v.

tie: operation histories are applied to the real structures by harness/ds_uf, which prints every
observable answer (and the Debug dump of the internal state) after EVERY operation; the same
histories are evaluated by the Coq models with vm_compute; a python reference (connected components /
reflexive transitive closure on mentioned elements, computed naively) is the specification oracle.
  impl vs spec  -> kind='impl_violates_spec'   (genuine violation of the property)
  impl vs model -> kind='model_differs'        (correspondence model <-> code broken)
The model's observation of a step is one flat list of integers (see obs_state / obs_queries /
obs_tr_state in the model files); python renders the implementation's answers into the same list and
the two are compared through a 63-bit fingerprint per step (full lists are fetched on a mismatch)."""
import itertools
import json
import os
import re

from .. import lib

_LOC_SEQ = itertools.count()   # unique Coq case-file tags: compare_case may run in several threads

PROP = "C18"
PROP_FILE = "Props/C18.v"
PRELUDE = ("From Coq Require Import List Arith ZArith.\nFrom AV Require Import UF.UfBase.\n"
           "From AV Require Import UF.UfModel.\nFrom AV Require Import UF.TrUfModel.\nImport ListNotations.\n")
P61 = (1 << 63) - 1


def fp(nums):
    h = 7
    for v in nums:
        h = (h * 131105 + v + 1) & P61
    return h


def mask(xs):
    m = 0
    for x in xs:
        m |= 1 << x
    return m


# ------------------------------------------------------------------ histories

def op_str(suite, o):
    if suite == "truf":
        return "%d:%d" % (o[0], o[1])
    return ":".join(str(t) for t in o)


def case_line(c):
    return "%d %s" % (c["dom"], " ".join(op_str(c["suite"], o) for o in c["ops"]))


def coq_hist(c):
    if c["suite"] == "truf":
        return "[" + "; ".join("(%d, %d)" % (o[0], o[1]) for o in c["ops"]) + "]"
    names = {"a": "OAdd", "f": "OFindItem", "u": "OUnionAdd", "F": "OFindId", "U": "OUnionId"}
    return "[" + "; ".join("%s %s" % (names[o[0]], " ".join(str(t) for t in o[1:])) for o in c["ops"]) + "]"


def coq_batch(suite, dom, cases, mode="hist"):
    """mode: hist = one fingerprint per history; steps = one per operation; full = the complete observations"""
    hs = "[" + "; ".join(coq_hist(c) for c in cases) + "]"
    wrap = {"hist": "fp_hist ", "steps": "fp_trace ", "full": ""}[mode]
    if suite == "truf":
        return "map (fun h => %s(tr_trace %d tr_empty h 0 [])) %s" % (wrap, dom, hs)
    return "map (fun h => %s(uf_trace %d uf_empty h 0 [])) %s" % (wrap, dom, hs)


UF_OPS3 = ([("a", x) for x in range(3)] + [("f", x) for x in range(3)] + [("F", x) for x in range(3)]
           + [("u", x, y) for x in range(3) for y in range(3)] + [("U", x, y) for x in range(3) for y in range(3)])
TR_OPS3 = [(x, y) for x in range(3) for y in range(3)]


def rand_truf(rng, dom, maxlen):
    """random adds with repeated pairs, self pairs, back edges closing cycles over merged classes"""
    n = rng.randint(1, maxlen)
    sub = rng.sample(range(dom), rng.randint(2, dom))
    ops, reach = [], {}     # reach[a] = set reachable from a (strict closure, maintained naively)

    def closure_add(x, y):
        srcs = [a for a in reach if x in reach[a]] + [x]
        tg = set(reach.get(y, ())) | {y}
        for a in srcs:
            reach.setdefault(a, set()).update(tg)
        reach.setdefault(y, set())
    while len(ops) < n:
        k = rng.random()
        if k < 0.45 or not ops:
            x, y = rng.choice(sub), rng.choice(sub)
        elif k < 0.55:
            x = rng.choice(sub)
            y = x
        elif k < 0.65:
            x, y = rng.choice(ops)
        elif k < 0.90:
            # back edge: y reaches x already, add x -> y ... i.e. pick (a, b) with b in reach[a], add (b, a)
            cands = [(b, a) for a in reach for b in reach[a] if a != b]
            if not cands:
                continue
            x, y = rng.choice(cands)
        else:
            # a pair inside one class (both directions reachable)
            cands = [(a, b) for a in reach for b in reach[a] if a != b and a in reach.get(b, ())]
            if not cands:
                continue
            x, y = rng.choice(cands)
        ops.append((x, y))
        closure_add(x, y)
    return ops


def rand_uf(rng, dom, maxlen):
    n = rng.randint(1, maxlen)
    sub = rng.sample(range(dom), rng.randint(2, dom))
    ops = []
    while len(ops) < n:
        k = rng.random()
        x, y = rng.choice(sub), rng.choice(sub)
        if k < 0.10:
            ops.append(("a", x))
        elif k < 0.25:
            ops.append(("f", x))
        elif k < 0.35:
            ops.append(("F", x))
        elif k < 0.75:
            ops.append(("u", x, y) if rng.random() > 0.1 else ("u", x, x))
        elif k < 0.90:
            ops.append(("U", x, y))
        elif ops:
            ops.append(rng.choice(ops))
    return ops


def chunk_plan(tier):
    """the work of one check as a list of chunk descriptors (suite, source, first index, count)"""
    quick = tier == "quick"
    plan = []
    n_tr = len(TR_OPS3) ** (3 if quick else 5)
    n_uf = len(UF_OPS3) ** (3 if quick else 4)
    nrand = 2000 if quick else 40000
    for suite, n, size in (("truf", n_tr, 250 if quick else 3000), ("uf", n_uf, 1300 if quick else 8000)):
        for lo in range(0, n, size):
            plan.append((suite, "exhaustive", lo, min(size, n - lo)))
    for suite in ("truf", "uf"):
        for lo in range(0, nrand, 250):
            plan.append((suite, "random", lo, min(250, nrand - lo)))
    return plan


def nth_product(alphabet, length, idx):
    """the idx-th element of itertools.product(alphabet, repeat=length)"""
    out = []
    for _ in range(length):
        idx, r = divmod(idx, len(alphabet))
        out.append(alphabet[r])
    return out[::-1]


def chunk_cases(tier, seed, chunk):
    suite, src, lo, n = chunk
    quick = tier == "quick"
    cases = []
    if src == "exhaustive":
        alphabet, length = (TR_OPS3, 3 if quick else 5) if suite == "truf" else (UF_OPS3, 3 if quick else 4)
        for i in range(lo, lo + n):
            cases.append(dict(suite=suite, dom=3, ops=[list(o) for o in nth_product(alphabet, length, i)], src=src))
    else:
        rng = lib.rng_for(seed, PROP, "%s/%d" % (suite, lo))
        for _ in range(n):
            ops = rand_truf(rng, 8, 60) if suite == "truf" else rand_uf(rng, 8, 60)
            cases.append(dict(suite=suite, dom=8, ops=[list(o) for o in ops], src=src))
    return cases


def gen_cases(tier, seed):
    return [c for ch in chunk_plan(tier) for c in chunk_cases(tier, seed, ch)]


# ------------------------------------------------------------------ parsing the harness output

def parse_debug(s):
    """Debug dump of TrRelUnionFind<u32> -> dict field -> python value (list / set-as-sorted-list / dict)"""
    pos = [0]

    def ws():
        while pos[0] < len(s) and s[pos[0]] in " ,":
            pos[0] += 1

    def val():
        ws()
        c = s[pos[0]]
        if c == "[":
            pos[0] += 1
            items = []
            while True:
                ws()
                if s[pos[0]] == "]":
                    pos[0] += 1
                    return items
                items.append(val())
        if c == "{":
            pos[0] += 1
            items, isdict = [], False
            while True:
                ws()
                if s[pos[0]] == "}":
                    pos[0] += 1
                    return dict(items) if isdict else sorted(items)
                k = val()
                ws()
                if s[pos[0]] == ":":
                    pos[0] += 1
                    isdict = True
                    items.append((k, val()))
                else:
                    items.append(k)
        m = re.compile(r"\d+").match(s, pos[0])
        pos[0] = m.end()
        return int(m.group(0))
    res = {}
    body = s[s.index("{") + 1:s.rindex("}")]
    s = body
    pos[0] = 0
    while True:
        ws()
        if pos[0] >= len(s):
            return res
        m = re.compile(r"([a-z_]+):").match(s, pos[0])
        pos[0] = m.end()
        res[m.group(1)] = val()


def asmap(v):
    return v if isinstance(v, dict) else {}


def parse_truf_step(st):
    if st.startswith("panic@"):
        return dict(panic=int(st[6:]))
    f = dict(p.split("=", 1) for p in st.split("|"))
    d = parse_debug(f["d"])

    def sets(t):
        return [None if e == "-" else ([int(x) for x in e.split(".")] if e else []) for e in t.split(",")]
    return dict(ret=int(f["r"]), contains=f["c"], iter_all=[tuple(int(t) for t in p.split("-")) for p in f["i"].split(",") if p],
                set_of=sets(f["s"]), rev_set_of=sets(f["v"]), count=int(f["n"]), asserts=f["a"], empty=int(f["e"]),
                sets=[list(x) for x in d["sets"]], elem_ids=asmap(d["elem_ids"]), subs=asmap(d["set_subsumptions"]),
                conn={k: list(v) for k, v in asmap(d["set_connections"]).items()},
                rev={k: list(v) for k, v in asmap(d["reverse_set_connections"]).items()})


def enc_truf(dom, o):
    """the flat integer list of TrUfModel.obs_queries ++ obs_tr_state for the implementation's answers"""
    out = [o["ret"]]
    for x in range(dom):
        out.append(mask(y for y in range(dom) if o["contains"][x * dom + y] == "1"))
    out.append(len(o["iter_all"]))
    for x in range(dom):
        out.append(mask(b for a, b in o["iter_all"] if a == x))
    for key in ("set_of", "rev_set_of"):
        for x in range(dom):
            s = o[key][x]
            out += [0, 0] if s is None else [len(s) + 1, mask(s)]
    out += [o["count"], int(o["asserts"][0]), int(o["asserts"][1]), o["empty"]]
    n = len(o["sets"])
    out.append(n)
    for s in o["sets"]:
        out += [len(s), mask(s)]
    out += [o["elem_ids"][x] + 1 if x in o["elem_ids"] else 0 for x in range(dom)] + [len(o["elem_ids"])]
    out += [o["subs"][s] + 1 if s in o["subs"] else 0 for s in range(n)] + [len(o["subs"])]
    for m in (o["conn"], o["rev"]):
        for k in range(n):
            out += [len(m[k]) + 1, mask(m[k])] if k in m else [0, 0]
        out.append(len(m))
    return out


def parse_uf_step(st):
    if st.startswith("panic@"):
        return dict(panic=int(st[6:]))
    r, e, i, k = [p.split()[1:] for p in st.split("|")]
    e = [int(t) for t in e]
    el = [tuple(e[j:j + 4]) for j in range(0, len(e), 4)]      # (next, parent, rank, value)
    it = [int(t) for t in i]
    return dict(ret=[int(t) for t in r], next=[x[0] for x in el], parent=[x[1] for x in el], rank=[x[2] for x in el],
                value=[x[3] for x in el], items=dict(zip(it[0::2], it[1::2])), nitems=len(it) // 2,
                ok=int(k[0]), len=int(k[1]), empty=int(k[2]))


def enc_uf(dom, o):
    return ([len(o["ret"])] + o["ret"] + [len(o["parent"])] + o["parent"] + o["rank"] + o["next"] + o["value"]
            + [o["items"][v] + 1 if v in o["items"] else 0 for v in range(dom)] + [o["nitems"], o["ok"]])


# ------------------------------------------------------------------ specification oracles (python, naive)

def rtc_naive(pairs):
    """reflexive transitive closure of the added pairs on the mentioned elements"""
    ment = sorted({x for p in pairs for x in p})
    rel = {(x, x) for x in ment} | set(pairs)
    changed = True
    while changed:
        changed = False
        for (a, b) in list(rel):
            for (c, d) in list(rel):
                if b == c and (a, d) not in rel:
                    rel.add((a, d))
                    changed = True
    return ment, rel


def spec_truf(c, steps):
    """first disagreement between the implementation's answers and the closure, or None"""
    dom = c["dom"]
    pairs = []
    reach = {}
    for i, (o, (x, y)) in enumerate(zip(steps, c["ops"])):
        if "panic" in o:
            return i, "operation %d add(%d,%d) panicked" % (i, x, y), None
        pairs.append((x, y))
        # incremental closure (checked against the naive one at the end of the history)
        reach.setdefault(x, {x})
        reach.setdefault(y, {y})
        tg = set(reach[y])
        for a in reach:
            if x in reach[a]:
                reach[a] |= tg
        rel = sorted((a, b) for a in reach for b in reach[a])
        want = dict(contains="".join("1" if (a in reach and b in reach[a]) else "0" for a in range(dom) for b in range(dom)),
                    iter_all=rel,
                    set_of=[sorted(reach[a]) if a in reach else None for a in range(dom)],
                    rev_set_of=[sorted(b for b in reach if a in reach[b]) if a in reach else None for a in range(dom)],
                    count=len(rel), asserts="11", empty=0)
        for k, v in want.items():
            if o[k] != v:
                return i, "after operation %d add(%d,%d): %s = %s, reflexive transitive closure gives %s" % (i, x, y, k, o[k], v), want
    if pairs:
        _, rel = rtc_naive(pairs)
        assert sorted(rel) == sorted((a, b) for a in reach for b in reach[a]), "oracle self-check failed"
    return None


def spec_uf(c, steps):
    known = []           # values in order of first insertion = their own ids
    comp = {}            # naive components: value -> frozenset

    def join(x, y):
        s = comp[x] | comp[y]
        for v in s:
            comp[v] = s
    for i, (o, op) in enumerate(zip(steps, c["ops"])):
        if "panic" in o:
            return i, "operation %d %s panicked" % (i, op), None
        k, a = op[0], op[1:]
        was_known = list(known)
        if k in ("a", "u"):
            for x in a:
                if x not in known:
                    known.append(x)
                    comp[x] = frozenset([x])
        if k == "u" or (k == "U" and all(x in was_known for x in a)):
            join(a[0], a[1])
        n = len(known)
        if not (len(o["parent"]) == n and o["len"] == n and o["empty"] == int(n == 0)):
            return i, "after operation %d %s: len = %s, %d items were added" % (i, op, o["len"], n), None
        if o["value"] != known:
            return i, "after operation %d %s: values %s, insertion order %s" % (i, op, o["value"], known), None
        # root of every element by following parent cells (bounded)
        roots = []
        for j in range(n):
            cur, steps_ = j, 0
            while o["parent"][cur] != cur and steps_ <= n:
                cur = o["parent"][cur]
                steps_ += 1
            if steps_ > n:
                return i, "after operation %d %s: parent cells cycle" % (i, op), None
            roots.append(cur)
        for p in range(n):
            for q in range(n):
                same = roots[p] == roots[q]
                conn = known[q] in comp[known[p]]
                if same != conn:
                    return i, ("after operation %d %s: items %d and %d same class = %s, connected by the unions performed = %s"
                               % (i, op, known[p], known[q], same, conn)), None
        if o["ok"] != 1:
            return i, "after operation %d %s: ok() = %s" % (i, op, o["ok"]), None
        # every item's cell points into the item's class
        for v, cell in o["items"].items():
            if v not in known or cell >= n or roots[cell] != roots[known.index(v)]:
                return i, "after operation %d %s: item cell of %s is %s (outside its class)" % (i, op, v, cell), None
        # return values
        ret = o["ret"]
        if k == "a":
            want = [int(a[0] not in was_known), roots[known.index(a[0])]]
        elif k == "f":
            want = [roots[known.index(a[0])]] if a[0] in known else []
        elif k == "u":
            want = [roots[known.index(a[0])]]
        elif k == "F":
            want = [roots[known.index(a[0])]] if a[0] in known else []
        else:
            want = [roots[known.index(a[0])]] if all(x in was_known for x in a) else []
        if ret != want:
            return i, "operation %d %s returned %s, expected %s (root of the class)" % (i, op, ret, want), None
    return None


# ------------------------------------------------------------------ running

SINGLE = [False]     # inside a worker process: no nested sharding


def ds_run1(binary, suite, lines):
    import subprocess
    p = subprocess.run([binary, suite], input="\n".join(lines) + "\n", stdout=subprocess.PIPE, stderr=subprocess.PIPE,
                       text=True, timeout=900)
    outl = p.stdout.splitlines()
    if len(outl) != len(lines):
        raise lib.Infra("ds_uf %s: %d cases, %d results (rc=%s) stderr=%s" % (suite, len(lines), len(outl), p.returncode, p.stderr[-500:]))
    return outl


def run_impl(binary, cases):
    """parsed per-step observations of the implementation for every case"""
    res = [None] * len(cases)
    for suite in ("truf", "uf"):
        idx = [i for i, c in enumerate(cases) if c["suite"] == suite]
        if not idx:
            continue
        runner = ds_run1 if SINGLE[0] else lib.ds_run
        lines = runner(binary, suite, [case_line(cases[i]) for i in idx])
        parse = parse_truf_step if suite == "truf" else parse_uf_step
        for i, l in zip(idx, lines):
            res[i] = [parse(s) for s in l.split(" # ")] if l.strip() else []
    return res


def run_model(cases, mode="hist", tag="C18"):
    """per case: ('ok'|'err', [[history fingerprint]] or [fingerprint or full list per step], err info)"""
    groups = {}
    for i, c in enumerate(cases):
        groups.setdefault((c["suite"], c["dom"]), []).append(i)
    exprs, owners = [], []
    for (suite, dom), idx in sorted(groups.items()):
        bs = 150 if dom <= 3 else 40
        for j in range(0, len(idx), bs):
            chunk = idx[j:j + bs]
            exprs.append(coq_batch(suite, dom, [cases[i] for i in chunk], mode))
            owners.append(chunk)
    per = len(exprs) if SINGLE[0] else max(1, (len(exprs) + lib.NCPU - 1) // lib.NCPU)
    vals = lib.coq_eval(tag, PRELUDE, exprs, per_shard=max(1, per), timeout=1500)
    res = [None] * len(cases)
    for chunk, v in zip(owners, vals):
        assert len(v) == len(chunk), (len(v), len(chunk))
        for i, t in zip(chunk, v):
            steps = [list(s) if isinstance(s, (list, tuple)) else [s] for s in t[1]]
            if t[0] in ("ZOk", "FOk"):
                res[i] = ("ok", steps, None)
            else:
                res[i] = ("err", steps, (t[2], t[3]))
    return res


def model_view(m, full):
    st, steps, e = m
    body = [s if full else s[0] for s in steps]
    return body, (None if st == "ok" else e)


def impl_fps(c, isteps):
    """step fingerprints of the implementation's observations (up to a panic) and the panic index"""
    enc = enc_truf if c["suite"] == "truf" else enc_uf
    fps, panic_at = [], None
    for i, o in enumerate(isteps):
        if "panic" in o:
            panic_at = i
            break
        fps.append(fp(enc(c["dom"], o)))
    return fps, panic_at


def quick_agree(c, isteps, m):
    """history-level comparison: m is the model's 'hist' result"""
    fps, panic_at = impl_fps(c, isteps)
    (h,), merr = model_view(m, False)
    if (panic_at is None) != (merr is None):
        return False
    if panic_at is not None and merr[0] != panic_at:
        return False
    return fp(fps) == h


def locate_diff(c, isteps, msteps):
    """first differing operation; msteps is the model's 'steps' result"""
    fps, panic_at = impl_fps(c, isteps)
    mf, merr = model_view(msteps, False)
    for i in range(len(c["ops"])):
        ip = panic_at == i
        mp = merr is not None and merr[0] == i
        if ip or mp:
            if ip and mp:
                return None
            return (i, "implementation %s at operation %d, model %s" % (
                "panicked" if ip else "ran on", i, "failed with %s" % merr[1] if mp else "ran on"))
        if i >= len(fps) or i >= len(mf):
            return (i, "traces end differently at operation %d" % i)
        if fps[i] != mf[i]:
            return (i, "observation after operation %d differs" % i)
    return None


def compare_case(c, isteps, m, locate=True):
    """(spec mismatch or None, model mismatch or None) for one case; m = the model's 'hist' result"""
    spec = (spec_truf if c["suite"] == "truf" else spec_uf)(c, isteps)
    diff = None
    if not quick_agree(c, isteps, m):
        diff = (len(c["ops"]) - 1, "history fingerprints differ")
        if locate and spec is None:
            diff = locate_diff(c, isteps, run_model([c], mode="steps", tag="C18l%d_%d" % (os.getpid(), next(_LOC_SEQ)))[0]) or diff
    return spec, diff


def known_class(c, what):
    return None


def shrink(binary, c, still_fails):
    """greedy one-at-a-time removal of operations while the failure persists"""
    ops = list(c["ops"])
    changed = True
    while changed and len(ops) > 1:
        changed = False
        for j in range(len(ops)):
            cand = dict(c, ops=ops[:j] + ops[j + 1:])
            if still_fails(cand):
                ops = cand["ops"]
                changed = True
                break
    return dict(c, ops=ops)


def examine(binary, cases, tag):
    """run the cases three ways; returns (stats dict, mismatch list)"""
    impl = run_impl(binary, cases)
    model = run_model(cases, tag=tag)
    mism = []
    st = dict(evaluations=0, nontrivial=set(), dist={}, samples=[])
    for c, isteps, m in zip(cases, impl, model):
        st["evaluations"] += len(isteps)
        key = "%s/%s/dom%d" % (c["suite"], c.get("src", "replay"), c["dom"])
        d = st["dist"].setdefault(key, dict(histories=0, operations=0, max_len=0))
        d["histories"] += 1
        d["operations"] += len(c["ops"])
        d["max_len"] = max(d["max_len"], len(c["ops"]))
        last = isteps[-1] if isteps else {}
        if (c["suite"] == "truf" and last.get("subs")) or \
           (c["suite"] == "uf" and any(p != j for j, p in enumerate(last.get("parent", [])))):
            st["nontrivial"].add(hash((c["suite"], case_line(c))))
        ndiff = len([x for x in mism if x["kind"] == "model_differs"])
        spec, diff = compare_case(c, isteps, m, locate=ndiff < 3)
        if spec is not None:
            i, what, want = spec

            def still(cand):
                s2 = run_impl(binary, [cand])[0]
                return (spec_truf if cand["suite"] == "truf" else spec_uf)(cand, s2) is not None
            small = shrink(binary, dict(c, ops=c["ops"][:i + 1]), still) if len(mism) < 3 else dict(c, ops=c["ops"][:i + 1])
            sst = run_impl(binary, [small])[0]
            sspec = (spec_truf if small["suite"] == "truf" else spec_uf)(small, sst)
            mism.append(dict(case=small, impl=sst[sspec[0]] if sspec else None, model=None, spec=sspec[2] if sspec else want,
                             kind="impl_violates_spec", known=known_class(small, sspec[1] if sspec else what),
                             what="%s history %s: %s" % (small["suite"], case_line(small), sspec[1] if sspec else what)))
        elif diff is not None:
            i, what = diff
            cut = dict(c, ops=c["ops"][:i + 1])
            if len([x for x in mism if x["kind"] == "model_differs"]) < 2:
                def still_m(cand):
                    s2 = run_impl(binary, [cand])[0]
                    mm = run_model([cand], tag=tag + "s")[0]
                    return not quick_agree(cand, s2, mm)
                cut = shrink(binary, cut, still_m)
            if ndiff >= 3:
                mism.append(dict(case=cut, impl=None, model=None, spec=None, kind="model_differs", known=None,
                                 what="correspondence model vs code: %s on history %s" % (what, case_line(cut))))
                continue
            s2 = run_impl(binary, [cut])[0]
            mfull = run_model([cut], mode="full", tag=tag + "f")[0]
            enc = enc_truf if cut["suite"] == "truf" else enc_uf
            mism.append(dict(case=cut, impl=[("panic" if "panic" in o else enc(cut["dom"], o)) for o in s2],
                             model=model_view(mfull, True), spec="implementation meets the specification oracle on this history",
                             kind="model_differs", known=None,
                             what="correspondence %s vs %s: %s on history %s" % (
                                 "UF/TrUfModel.v" if cut["suite"] == "truf" else "UF/UfModel.v",
                                 "trrel_union_find.rs" if cut["suite"] == "truf" else "uf.rs", what, case_line(cut))))
    for c, isteps in list(zip(cases, impl))[:1]:
        last = isteps[-1] if isteps else {}
        st["samples"].append(dict(case=dict(suite=c["suite"], dom=c["dom"], ops=c["ops"]),
                                  impl_last_step={k: last.get(k) for k in ("contains", "count", "asserts", "sets", "subs", "conn", "parent", "rank", "next", "ok") if k in last}))
    return st, mism


def _work(args):
    binary, tier, seed, k, chunk = args
    SINGLE[0] = True
    cases = chunk_cases(tier, seed, chunk)
    st, mism = examine(binary, cases, "C18_%d" % k)
    return st, mism[:5], len(mism)


def tie(tier, seed, replay):
    binary, out = lib.harness_build("ds_uf")
    if binary is None:
        raise lib.Infra("ds_uf does not build against /repo:\n" + out[-3000:])
    tot = dict(evaluations=0, nontrivial=set(), dist={}, samples=[])
    mism, nmism = [], 0

    def merge(st, mm, n):
        nonlocal nmism
        tot["evaluations"] += st["evaluations"]
        tot["nontrivial"] |= st["nontrivial"]
        for k, d in st["dist"].items():
            t = tot["dist"].setdefault(k, dict(histories=0, operations=0, max_len=0))
            t["histories"] += d["histories"]
            t["operations"] += d["operations"]
            t["max_len"] = max(t["max_len"], d["max_len"])
        if len(tot["samples"]) < 8:
            tot["samples"] += st["samples"]
        mism.extend(mm)
        nmism += n
    if replay:
        merge(*(lambda r: (r[0], r[1], len(r[1])))(examine(binary, [json.load(open(replay))["case"]], "C18r")))
    else:
        cp = os.path.join(lib.VERIF, "corpus", "C18.jsonl")
        corpus = [json.loads(l) for l in open(cp) if l.strip()] if os.path.exists(cp) else []
        for c in corpus:
            c["src"] = "corpus"
        if corpus:
            st, mm = examine(binary, corpus, "C18c")
            merge(st, mm, len(mm))
        plan = chunk_plan(tier)
        import concurrent.futures as cf
        with cf.ProcessPoolExecutor(lib.NCPU) as ex:
            for st, mm, n in ex.map(_work, [(binary, tier, seed, k, ch) for k, ch in enumerate(plan)]):
                merge(st, mm, n)
    return dict(
        evaluations=tot["evaluations"], distinct_nontrivial=len(tot["nontrivial"]),
        rule="an evaluation = one operation of one history with all observables compared three ways (implementation, Coq model, python "
             "closure / component oracle); non-trivial history = TrRelUnionFind history whose final state has at least one subsumed "
             "(collapsed) class, or UnionFind history whose final forest has at least one non-root; distinct = distinct operation sequences",
        samples=tot["samples"], distribution=dict(tot["dist"], total_mismatching_histories=nmism), mismatches=mism,
        trusted_base=["harness/ds_uf (Rust): drives the library's UnionFind / TrRelUnionFind; UnionFind::ok() is private, it is reached by compiling uf.rs's source text a second time inside the harness (include!) and running that copy in lockstep (state dumps compared)",
                      "internal state is observed through the derived Debug impls (numbers extracted in order); gen/props/c18.py parsers, encoders and the python closure / component oracles",
                      "per-history comparison model vs implementation through a 63-bit polynomial fingerprint of all per-operation observations (per-operation and full observations are fetched on a mismatch)"],
        assumptions=["element type u32 in the harness, nat in the models (only Eq/Hash of T is used by the code)",
                     "hashbrown / std HashMap, HashSet, Vec meet their set / map / sequence semantics; HashSet iteration order is not modelled (every loop over a set in the modelled code performs commuting updates)",
                     "UfPtr::MAX / usize overflow checks (len < usize::MAX) are not modelled",
                     "the static mut statistics counters of trrel_union_find.rs (DEPTH_COUNT, MERGE_MULTIPLE_TIME, ..) are not modelled: unsynchronised, single-threaded use only",
                     "EqRel (union_find.rs) is in a private module and not reachable from outside the crate; it is exercised through the eqrel providers (C10), not here"])
