"""C10 — a relation tagged #[ds(ascent_byods_rels::eqrel)] behaves as its explicit equivalence closure.

Coq: Byods/Closure.v (closures), Byods/Provider.v (laws P1-P5), Byods/EqRelModel.v (model of EqRel, of the
old/combined pair with its merge, of the parallel wrapper, of the ternary per-key map + reverse map),
Byods/EqRelUF.v, EqRelProofs.v, EqRelPar.v, Ternary.v, EqRelTernary.v, Transport.v, EqRelProgram.v (program level, with
Engine/EvalProv.v + ProvProofs.v), Props/C10.v.

tie, two halves (gen/c10_ds.py, gen/c10_prog.py):
  DS    operation histories `insert(new, t)* ; merge ; read every view of delta and total ; ...` against the real
        provider types (harness/ds_eqrel: binary serial, binary parallel, ternary), compared after every merge with
        the Coq model (impl vs model -> 'model_differs') and with the explicit closure computed in python, the
        provider laws P1-P5 being evaluated on the real answers (impl vs spec -> 'impl_violates_spec', reported
        with the law that breaks);
  PROG  programs with the tagged relation vs the same program with a plain relation + explicit reflexivity /
        symmetry / transitivity rules; expected = Engine/Strat.v strat_fix (specification oracle, evaluated in Coq)
        on the explicit program.
"""
import json
import os

from .. import c10_ds, c10_prog, lib

PROP = "C10"
PROP_FILE = "Props/C10.v"


def load_corpus():
    path = os.path.join(lib.VERIF, "corpus", PROP + ".jsonl")
    ds, pg = [], []
    if os.path.exists(path):
        for l in open(path):
            if l.strip():
                o = json.loads(l)
                if o.get("kind") == "ds":
                    ds.append(dict(suite=o["suite"], dom=o["dom"], nk=o["nk"], ops=o["ops"], src="corpus"))
                else:
                    pg.append(o["witness"])
    return ds, pg


def tie(tier, seed, replay):
    ds_cases, prog_cases = [], []
    if replay:
        rp = json.load(open(replay))
        c = rp["case"]
        if "suite" in c:
            ds_cases = [dict(suite=c["suite"], dom=c["dom"], nk=c["nk"], ops=c["ops"], src="replay")]
        else:
            pc = dict(id="replay", cfg=c["cfg"], inputs=[c["input"]] if "input" in c else c["inputs"])
            if c.get("raw"):
                pc["raw"] = c["raw"]
            prog_cases = [pc]
    else:
        cds, cpg = load_corpus()
        fixed = {c["id"]: c for c in c10_prog.fixed_cases()}
        ds_cases = cds + c10_ds.gen_histories(tier, seed, PROP)
        prog_cases = [fixed[w] for w in cpg if w in fixed] + [c for i, c in fixed.items() if i not in cpg] + c10_prog.gen_cases(tier, seed, PROP)
    mism = []
    stats = {}
    if ds_cases:
        m, stats = c10_ds.tie_ds(ds_cases)
        mism += m
        stats["oracle_crosschecked_against_Closure_eqv"] = c10_ds.oracle_crosscheck(seed)
    checked, results = 0, []
    infra = None
    if prog_cases:
        chunk = 64
        try:
            for i in range(0, len(prog_cases), chunk):
                results += c10_prog.run_cases(prog_cases[i:i + chunk], tag="c10")
        except lib.Infra as e:      # keep what the DS half found
            infra = "PROG half: %s" % str(e)[:1500]
    feats, skipped, nontrivial = {}, 0, set()
    for r in results:
        try:
            mm, n = c10_prog.compare(r)
        except lib.Infra as e:
            infra = infra or "PROG half: %s" % str(e)[:1500]
            continue
        for m in mm:
            if "raw" in r["case"]:
                m["case"]["raw"] = r["case"]["raw"]
        mism += mm
        checked += n
        if r["spec"] is None:
            skipped += 1
            continue
        cfg = r["case"]["cfg"]
        rec, nhead = c10_prog.eq_strata_info(r["tagged"])
        key = "%s/%s/%s" % ("ternary" if cfg["arity"] == 3 else "binary", "par" if cfg.get("par") else "ser", cfg["feed"])
        feats[key] = feats.get(key, 0) + 1
        for pat, order, place, form in cfg["reads"]:
            k2 = "read:%d:%s:%s:%s" % (cfg["arity"], pat, place, form)
            feats[k2] = feats.get(k2, 0) + 1
        for k, inp in enumerate(r["case"]["inputs"]):
            derived = sum(len(v) for n, v in r["spec"][k].items() if n.startswith("out") or n in ("mid", "jn", "cnt", "ne"))
            if derived and (rec or nhead > 1):
                nontrivial.add((r["tagged_text"], json.dumps(inp, sort_keys=True)))
    # mismatches of a listed known class are kept as the 40 smallest witnesses per class (all are counted);
    # every mismatch outside the known classes is kept
    by_known, kept = {}, []
    for m in mism:
        if m.get("known"):
            by_known.setdefault(m["known"], []).append(m)
        else:
            kept.append(m)
    known_counts = {k: len(v) for k, v in by_known.items()}
    for k, v in by_known.items():
        v.sort(key=lambda m: len(json.dumps(m["case"], default=str)))
        kept += v[:40]
    mism = kept
    samples = []
    for c in ds_cases[:2]:
        samples.append(dict(kind="history", suite=c["suite"], line=c10_ds.case_line(c)))
    for r in results[:2]:
        samples.append(dict(kind="program", tagged=r["tagged_text"], input=r["case"]["inputs"][0],
                            impl=r["impl"][0] if r["impl"] else None))
    return dict(
        evaluations=len(ds_cases) + checked,
        distinct_nontrivial=stats.get("distinct_nontrivial", 0) + len(nontrivial),
        rule=("DS: exhaustive-small histories (binary: 3 values, 2-3 rounds of <= 2 inserts; ternary: 2 keys x 3 values, one insert per key and round, "
              "protocol merge and common-only merge) + random histories (binary / parallel: 3-6 values, 1-3 strata of 1-5 rounds, raw inserts and head updates, "
              "concurrent tasks on std threads; ternary: 2-3 keys x 4-5 values, every round works on a random subset of the keys so that keys pause and resume); "
              "non-trivial = at least one insert and at least two dumps of every view of delta and total, distinct = distinct history text. "
              "PROG: programs from 5 feed shapes (plain, recursive along an edge relation, mutual recursion through a plain relation, a clock releasing facts "
              "of different keys at different iterations, heads in two strata) x binary serial / binary parallel / ternary x 2-4 read rules over every subset "
              "of bound columns incl. the third column alone of the ternary form and both columns of the parallel binary form (variables, constants, repeated variable; binder first or tagged relation first; in a later stratum or inside the recursive stratum) "
              "+ join / count / negation readers, 3-4 inputs each; non-trivial = the tagged relation is written in a recursive stratum or in two strata and a reader derives something"),
        samples=samples,
        distribution=dict(ds=stats, prog=dict(programs=len(results), program_inputs_checked=checked, oracle_timeouts=skipped, features=feats)),
        mismatches=mism,
        **({"infra": infra} if infra else {}),
        trusted_base=["harness/ds_eqrel (drives the provider types through the public ascent::internal traits exactly as ascent_codegen.rs does: merge of the common structure, then of every index write view; stratum boundary = field := total, delta := take(field)); its reconstruction of full tuples from (key, value) and the bit-mask encoding",
                      "gen/c10_ds.py (closure oracle, law evaluation, linearizability search for concurrent inserts), gen/c10_prog.py + gen/dl.py + gen/prog.py (program rendering, generated crates, canonicaliser)",
                      "hash-table iteration order is modelled as insertion order; every observation is compared as a set of full tuples plus a duplicate count",
                      "std::sync::Mutex makes lock; add; unlock one atomic step (parallel `new`); rustc, hashbrown meet their documented semantics"],
        assumptions=["column values are small non-negative integers (u32 in the DS harness, i32 in programs); the element type only needs Clone + Hash + Eq",
                     "PROG expected values come from the specification oracle on the EXPLICIT program (Engine/Strat.v strat_fix, proved to compute the least / stratified model); that the real engine agrees with the oracle on the explicit program is asserted on every case (it is C01's subject)"],
        extra=dict(ds_histories=len(ds_cases), prog_programs=len(results), known_class_mismatch_counts=known_counts,
                   partial=[],
                   program_level="proved: c10_program_binary / _binary_par / _ternary (Engine/ProvProofs.v prun_plan_correct instantiated with the transported providers) and c10_bridge_binary / _ternary (closed under the closure operator <-> closed under the explicit rules); scope: one tagged relation, no aggregates, serial engine model; the PROG half ties the models to the real macro + providers and also covers aggregates / negation over the tagged relation and ascent_par!"))
