"""C14 — run_timeout stops only in a sound, resumable state.

Two halves: plain relations (Engine/Timeout.v; below) and lattice relations (LatEngine/LatTimeout.v; gen/c14_lat.py).
Plain half, two kinds of histories: from a FRESH program value (run_timeout(k1); ..; run()) and from a program value that
already went through a COMPLETED run and was then extended by the caller (run(); push; run_timeout(k); run())."""
import json

from .. import c14_lat, dl, engine_tie, gen_dl, lib, prog

PROP = "C14"
PROP_FILE = "Props/C14.v"
PRELUDE = engine_tie.PRELUDE.replace("Engine.Strat.", "Engine.Strat Engine.Timeout Engine.Rerun.")


def gen_cases(tier, seed):
    rng = lib.rng_for(seed, PROP)
    n = 24 if tier == "quick" else 250
    kmax = 5 if tier == "quick" else 8
    cases = []
    for i in range(n):
        agg = (i % 4 == 3)
        p = gen_dl.gen_strat_program(rng) if agg else gen_dl.gen_program(rng)
        p["attrs"] = ["#![generate_run_timeout]"]
        inp = gen_dl.gen_input(rng, p["rels"], style=rng.choice(["sparse_chain", "mixed", "small"]))[0]
        hist = [[k] for k in range(1, kmax + 1)]
        hist += [[rng.randint(1, 3), rng.randint(1, 3)] for _ in range(2 if tier == "quick" else 6)]
        hist += [[1, 1, 1]]
        # histories on a program value that already completed a run: run(); push B into 1-2 relations (input or derived,
        # the others untouched); run_timeout(k), k = 1..3; run()   (positive programs only)
        rehist = []
        if not agg:
            f = gen_dl.gen_input(rng, p["rels"], style="small")[0]
            names = [n for n, _, _ in p["rels"] if f.get(n)]
            if names:
                keep = rng.sample(names, min(len(names), rng.choice([1, 2])))
                push = {n: f[n] for n in keep}
                by_timeout = bool(rng.getrandbits(1))
                rehist = [dict(push=push, k=k, first_by_run_timeout=by_timeout) for k in (1, 2, 3)]
        cases.append(dict(id="c14_%d" % i, prog=p, input=inp, hist=hist, agg=agg, rehist=rehist))
    return cases


def script_for(inp, ks):
    st = [("raw", "ascent::verif_hooks::arm_clock(true);"), ("set", inp)]
    for k in ks:
        st.append(("raw", "let __r = p.run_timeout(std::time::Duration::from_secs(%d)); snaps.push(format!(\"{{\\\"__ret\\\":[[\\\"{}\\\"]]}}\", __r));" % k))
        st.append(("snap",))
    st.append(("raw", "ascent::verif_hooks::arm_clock(false);"))
    st.append(("run",))
    st.append(("snap",))
    return st


RETFMT = "snaps.push(format!(\"{{\\\"__ret\\\":[[\\\"{}\\\"]]}}\", __r));"


def rescript_for(inp, rr):
    """set A; run() [or run_timeout(huge) == true]; push B; snap; run_timeout(k) with the clock armed for this call only; snap; run(); snap.
    The virtual clock counts the readings of ONE Instant (created at the start of each run_timeout call while armed), so the
    completed first run does not consume the budget of the interrupted call."""
    st = [("set", inp)]
    if rr["first_by_run_timeout"]:
        st.append(("raw", "ascent::verif_hooks::arm_clock(true); let __r = p.run_timeout(std::time::Duration::from_secs(1000000)); ascent::verif_hooks::arm_clock(false); " + RETFMT))
    else:
        st += [("run",), ("raw", "let __r = true; " + RETFMT)]
    st += [("push", rr["push"]), ("snap",),
           ("raw", "ascent::verif_hooks::arm_clock(true); let __r = p.run_timeout(std::time::Duration::from_secs(%d)); ascent::verif_hooks::arm_clock(false); %s" % (rr["k"], RETFMT)),
           ("snap",), ("run",), ("snap",)]
    return st


def tie(tier, seed, replay):
    lat = c14_lat.tie_part(tier, seed)
    cases = gen_cases(tier, seed)
    texts = {c["id"]: dl.rust_program_text(c["prog"]) for c in cases}
    dumps = prog.front_run([(c["id"], "ascent", texts[c["id"]]) for c in cases])
    jobs = []
    for c in cases:
        jobs.append(dict(id=c["id"], text=dl.rust_program_text(dict(c["prog"], attrs=[])), attrs=c["prog"]["attrs"], macro="ascent",
                         rels=c["prog"]["rels"], scripts=[script_for(c["input"], ks) for ks in c["hist"]] + [rescript_for(c["input"], rr) for rr in c["rehist"]]))
    impl = prog.build_and_run("c14", jobs, features=("verif_hooks",))
    # the same histories under ascent_par! (pool of 3): the deadline checks sit at the same places of the SCC loop, so every call must
    # return the same flag and leave the same relations (as sets, rows = distinct tuples) as the serial program
    pjobs = [dict(j, id=j["id"] + "_par", macro="ascent_par", threads=3) for k, j in enumerate(jobs) if k % 2 == 0]
    pimpl = prog.build_and_run("c14p", pjobs, features=("verif_hooks",), run_timeout=300) if pjobs else {}
    par_mism, npar = [], 0
    for j in pjobs:
        ser, par = impl.get(j["id"][:-4]), pimpl.get(j["id"])
        for h, sc in enumerate(j["scripts"]):
            a = ser[h] if ser else None
            b = par[h] if par else None
            if a is None or "snaps" not in a:
                continue
            cs = dict(program=j["text"], attrs=j["attrs"], macro="ascent_par", pool_threads=3, script=[list(x) if x[0] != "raw" else ("raw", x[1][:120]) for x in sc])
            if b is None or "snaps" not in b:
                par_mism.append(dict(case=cs, impl=b, model=None, spec="the serial program completes this history", kind="impl_violates_spec", known=None,
                                     what="ascent_par! + generate_run_timeout: history did not complete: %s" % json.dumps(b)[:300]))
                continue
            npar += 1
            for q, (sa, sb) in enumerate(zip(a["snaps"], b["snaps"])):
                if "__ret" in sa:
                    if sa != sb:
                        par_mism.append(dict(case=cs, impl=sb, model=None, spec=sa, kind="impl_violates_spec", known=None,
                                             what="ascent_par!: run_timeout call (snapshot #%d) returned %s, the serial program %s" % (q, sb["__ret"], sa["__ret"])))
                        break
                    continue
                ca, cb = prog.canon_snap(sa), prog.canon_snap(sb)
                bad = [n for n in ca if ca[n][1] != cb[n][1] or cb[n][0] != len(cb[n][1]) and ca[n][0] == len(ca[n][1])]
                if bad:
                    par_mism.append(dict(case=cs, impl={bad[0]: cb[bad[0]]}, model=None, spec={bad[0]: ca[bad[0]]}, kind="impl_violates_spec", known=None,
                                         what="ascent_par! + run_timeout: relation %s at snapshot #%d differs from the serial program's state at the same point (or holds duplicate rows)" % (bad[0], q)))
                    break
    groups, gids, invs = [], [], {}
    for c in cases:
        d = dumps.get(c["id"])
        if d is None or d.get("status") != "ok":
            continue
        R = dl.Names()
        for name, _, _ in c["prog"]["rels"]:
            R(name)
        plan, hir_rules = dl.coq_plan(d, R)
        strata = dl.coq_list(dl.coq_list(dl.coq_rule(c["prog"]["rules"][j], R) for j in comp) for comp in engine_tie.stratify(c["prog"]["rules"]))
        f0 = dl.coq_facts(engine_tie.facts_of_input(c["input"], c["prog"]["rels"]), R)
        ex = ["strat_fix std_interp %d%%nat %s %s" % (engine_tie.FUEL, strata, f0)]
        for ks in c["hist"]:
            ex.append("timeout_script std_interp std_swap %d%%nat %s %s (init_state %s)" % (engine_tie.FUEL, plan, dl.cnats(ks), f0))
        if c["rehist"]:
            push = c["rehist"][0]["push"]
            fb = dl.coq_facts(engine_tie.facts_of_input(push, c["prog"]["rels"]), R)
            fab = dl.coq_facts(engine_tie.facts_of_input(c["input"], c["prog"]["rels"]) + engine_tie.facts_of_input(push, c["prog"]["rels"]), R)
            ex.append("strat_fix std_interp %d%%nat %s %s" % (engine_tie.FUEL, strata, fab))
            for rr in c["rehist"]:
                ex.append("match run_plan std_interp std_swap %d%%nat %s (init_state %s) with Some st => timeout_script std_interp std_swap %d%%nat %s %s (push_facts %s st) | None => None end"
                          % (engine_tie.FUEL, plan, f0, engine_tie.FUEL, plan, dl.cnats([rr["k"]]), fb))
        groups.append(ex)
        gids.append(c["id"])
        invs[c["id"]] = {v: k for k, v in R.d.items()}
    vals = dict(zip(gids, lib.coq_eval_groups("c14", PRELUDE, groups, timeout=60)))
    mism, distinct, fired, nskip = [], set(), 0, 0
    for c in cases:
        d = dumps.get(c["id"], {})
        base = dict(program=texts[c["id"]], input=c["input"])
        if d.get("status") != "ok":
            mism.append(dict(case=base, impl=d.get("status"), model=None, spec=None, kind="impl_violates_spec", known=None, what="front end rejects a well-formed program: %s" % d.get("errors")))
            continue
        v = vals.get(c["id"])
        if v is None:
            nskip += 1
            continue
        inv = invs[c["id"]]
        spec = engine_tie.decode_facts(v[0], inv)
        if spec is None:
            raise lib.Infra("spec oracle out of fuel")
        sg = engine_tie.group_facts(spec, c["prog"]["rels"])
        inp_facts = {name: [tuple(t) for t in c["input"].get(name, [])] for name, _, _ in c["prog"]["rels"]}
        for h, ks in enumerate(c["hist"]):
            cs = dict(base, timeouts_in_virtual_seconds=ks)
            iv = impl.get(c["id"], [None] * len(c["hist"]))[h]
            if iv is None or "snaps" not in iv:
                mism.append(dict(case=cs, impl=iv, model=None, spec=None, kind="impl_violates_spec", known=None, what="history did not complete: %s" % json.dumps(iv)[:300]))
                continue
            snaps = iv["snaps"]
            mv = v[h + 1]
            model = None if mv == "None" else mv[1]
            why, diff = None, None
            for j, k in enumerate(ks):
                ret = snaps[2 * j]["__ret"][0][0] == "true"
                rows = prog.rows_snap(snaps[2 * j + 1])
                fired += (not ret)
                for name, _, _ in c["prog"]["rels"]:
                    got = rows[name]
                    if got[:len(inp_facts[name])] != inp_facts[name]:
                        why = "after run_timeout #%d: input rows of %s are not an unmodified prefix" % (j + 1, name)
                    elif not set(got) <= set(sg[name][1]):
                        why = "after run_timeout #%d (returned %s): %s holds tuples that are not derivable: %s" % (j + 1, ret, name, sorted(set(got) - set(sg[name][1]))[:4])
                    elif ret and set(got) != set(sg[name][1]):
                        why = "run_timeout #%d returned true but %s is not the full fixed point" % (j + 1, name)
                    if why:
                        break
                if why:
                    break
                if model is not None:
                    mb, mrows = model[0][j]
                    mg = engine_tie.group_facts([(inv[a], tuple(t)) for a, t in mrows], c["prog"]["rels"])
                    ig = prog.canon_snap(snaps[2 * j + 1])
                    if mb != ret or any(ig[name] != mg[name] for name, _, _ in c["prog"]["rels"]):
                        diff = "correspondence Engine/Timeout.v run_timeout vs generated code: call #%d with timeout %d virtual seconds (model returned %s, implementation %s)" % (j + 1, k, mb, ret)
                        break
            if not why:
                final = prog.canon_snap(snaps[-1])
                for name, _, _ in c["prog"]["rels"]:
                    if final[name][1] != sg[name][1]:
                        why = "after resuming with run(): %s differs from the fixed point of an uninterrupted run" % name
                        break
                    if final[name][0] != len(final[name][1]) and len(set(inp_facts[name])) == len(inp_facts[name]):
                        why = "after resuming with run(): %s has %d rows for %d distinct tuples (a tuple was appended again on resume)" % (name, final[name][0], len(final[name][1]))
                        break
            distinct.add((c["id"], tuple(ks)))
            if why:
                mism.append(dict(case=cs, impl=[prog.canon_snap(s) if "__ret" not in s else s for s in snaps], model=None, spec=sg, kind="impl_violates_spec", known=None, what=why))
            elif diff or model is None:
                mism.append(dict(case=cs, impl=[prog.canon_snap(s) if "__ret" not in s else s for s in snaps], model=str(model)[:2000], spec="implementation meets C14 on this history",
                                 kind="model_differs", known=None, what=diff or "model out of fuel"))
    # ---- histories on a program value that completed a run and was extended: run(); push B; run_timeout(k); run()
    nre = refired = 0
    for c in cases:
        v = vals.get(c["id"])
        if not c["rehist"] or v is None or dumps.get(c["id"], {}).get("status") != "ok":
            continue
        inv = invs[c["id"]]
        nh = len(c["hist"])
        spec = engine_tie.decode_facts(v[1 + nh], inv)
        if spec is None:
            raise lib.Infra("spec oracle out of fuel")
        sg = engine_tie.group_facts(spec, c["prog"]["rels"])
        for m, rr in enumerate(c["rehist"]):
            cs = dict(program=texts[c["id"]], input=c["input"], history="run() to completion%s; push; run_timeout(k); run()" % (" by run_timeout(1000000 s)" if rr["first_by_run_timeout"] else ""),
                      pushed=rr["push"], timeout_in_virtual_seconds=rr["k"])
            iv = impl.get(c["id"], [None] * (nh + len(c["rehist"])))[nh + m]
            nre += 1
            if iv is None or "snaps" not in iv:
                mism.append(dict(case=cs, impl=iv, model=None, spec=None, kind="impl_violates_spec", known=None, what="history did not complete: %s" % json.dumps(iv)[:300]))
                continue
            sn = iv["snaps"]
            first_ret = sn[0]["__ret"][0][0] == "true"
            base = prog.rows_snap(sn[1])
            ret = sn[2]["__ret"][0][0] == "true"
            rows = prog.rows_snap(sn[3])
            final = prog.canon_snap(sn[4])
            refired += (not ret)
            why = None
            if not first_ret:
                why = "run_timeout with a deadline that never strikes returned false"
            for name, _, _ in c["prog"]["rels"]:
                if why:
                    break
                got = rows[name]
                if got[:len(base[name])] != base[name]:
                    why = "after run(); push; run_timeout(%d): the rows of %s present before the call are not an unmodified prefix" % (rr["k"], name)
                elif not set(got) <= set(sg[name][1]):
                    why = "after run(); push; run_timeout(%d) (returned %s): %s holds tuples that are not derivable from the union of the inputs: %s" % (rr["k"], ret, name, sorted(set(got) - set(sg[name][1]))[:4])
                elif ret and set(got) != set(sg[name][1]):
                    why = "run(); push; run_timeout(%d) returned true but %s is not the full fixed point of the union of the inputs" % (rr["k"], name)
                elif final[name][1] != sg[name][1]:
                    why = "run(); push; run_timeout(%d); run(): %s differs from the least model of the union of the inputs (missing %s, extra %s)" % (
                        rr["k"], name, [t for t in sg[name][1] if t not in final[name][1]][:4], [t for t in final[name][1] if t not in sg[name][1]][:4])
                elif final[name][0] != len(final[name][1]) and len(set(base[name])) == len(base[name]):
                    why = "run(); push; run_timeout(%d); run(): %s has %d rows for %d distinct tuples" % (rr["k"], name, final[name][0], len(final[name][1]))
            distinct.add((c["id"], "rerun", rr["k"]))
            if why:
                mism.append(dict(case=cs, impl=[prog.canon_snap(x) if "__ret" not in x else x for x in sn], model=None, spec=sg, kind="impl_violates_spec", known=None, what=why))
                continue
            mv = v[2 + nh + m]
            if mv == "None":
                mism.append(dict(case=cs, impl="meets C14 on this history", model="out of fuel", spec=None, kind="model_differs", known=None, what="model out of fuel"))
                continue
            (mb, mrows), mfinal = mv[1][0][0], mv[1][1]
            mg = engine_tie.group_facts([(inv[a], tuple(t)) for a, t in mrows], c["prog"]["rels"])
            mf = engine_tie.group_facts([(inv[a], tuple(t)) for a, t in mfinal], c["prog"]["rels"])
            ig = prog.canon_snap(sn[3])
            if mb != ret or any(ig[name] != mg[name] or final[name] != mf[name] for name, _, _ in c["prog"]["rels"]):
                mism.append(dict(case=cs, impl=[prog.canon_snap(x) if "__ret" not in x else x for x in sn], model=str(mv)[:2000], spec="implementation meets C14 on this history", kind="model_differs", known=None,
                                 what="correspondence Engine/Timeout.v + Engine/Rerun.v vs generated code: run(); push; run_timeout(%d) (model returned %s, implementation %s); run()" % (rr["k"], mb, ret)))
    return dict(evaluations=sum(len(c["hist"]) for c in cases) + nre + lat["evaluations"], distinct_nontrivial=len(distinct) + lat["distinct"],
                rule="PLAIN HALF: random programs (3/4 positive, 1/4 stratified) compiled with #![generate_run_timeout] x one input x histories run_timeout(k) for k = 1..5 (8 thorough), random pairs (k1,k2), (1,1,1), each followed by run(); the hook's virtual clock makes run_timeout(k s) fire exactly at its k-th deadline check; after every interrupted call: inputs kept, every tuple derivable, true => full fixed point; after the final run(): the fixed point; "
                     "AND (positive programs) histories on a program value that already COMPLETED a run: set A; run() [half of the time run_timeout(1000000 s) returning true]; push facts B into 1-2 relations (input or derived, the others untouched); run_timeout(k), k = 1..3, with the clock armed for that call only; run(): rows before the call kept as a prefix, every tuple derivable from A u B, final state = least model of A u B (Coq strat_fix on the union), rows = distinct tuples when the caller pushed no duplicate; model = Engine/Rerun.v push_facts + Engine/Timeout.v timeout_script from the state of the first run; distinct = (program, history).  PARALLEL: every second program also as ascent_par! in a pool of 3 through the same histories: same flag at every call and the same relations (sets, rows = distinct tuples) as the serial program at the same point.  " + lat["rule"],
                samples=[dict(program=texts[c["id"]], input=c["input"], histories=c["hist"][:3]) for c in cases[:2]],
                distribution=dict(programs=len(cases), interrupted_calls_that_returned_false=fired, histories_after_a_completed_run=nre, of_which_interrupted=refired, **lat["distribution"]), mismatches=lat["mismatches"] + mism + par_mism,
                trusted_base=["virtual clock hook (ascent/src/verif_hooks.rs, feature verif_hooks) standing in for web_time::Instant; FRONT hook; generated crates"] + lat["trusted_base"],
                assumptions=["the real clock only decides WHICH deadline check fires; every choice is covered by the oracle in the model and enumerated up to k=5/8 in the tie"] + lat["assumptions"],
                extra=dict(cases_skipped_model_too_slow=nskip, parallel_histories=npar, **lat["extra"]))
