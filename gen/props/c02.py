"""C02 — parallel evaluation equals serial evaluation under every schedule."""
import json

from .. import dl, engine_tie, gen_dl, lib, prog

PROP = "C02"
PROP_FILE = "Props/C02.v"

POOLS = [1, 2, 3, 8, 16]


def gen_cases(tier, seed):
    rng = lib.rng_for(seed, PROP)
    n = 20 if tier == "quick" else 200
    cases = []
    for i in range(n):
        agg = (i % 3 == 2)
        p = gen_dl.gen_strat_program(rng) if agg else gen_dl.gen_program(rng)
        inputs = [gen_dl.gen_input(rng, p["rels"], style=rng.choice(["mixed", "dense", "sparse_chain"]))[0] for _ in range(2)]
        cases.append(dict(id="c02_%d" % i, prog=p, inputs=inputs, agg=agg))
    return cases


def tie(tier, seed, replay):
    rng = lib.rng_for(seed, PROP, "sched")
    cases = gen_cases(tier, seed)
    nsched = 2 if tier == "quick" else 8
    # serial reference through the full engine tie (impl = model = spec, plan validated)
    results = engine_tie.run(PROP, cases, tag="c02s", spec="strat")
    nskipped = sum(1 for r in results if r.get("skipped"))
    results = [r for r in results if not r.get("skipped")]
    mism = []
    for r in results:
        mism += engine_tie.compare_case(r)
    # parallel variants: real macro + rustc, pools x perturbation schedules x inter-rule parallelism
    jobs, meta = [], {}
    par_texts = {}
    for r in results:
        c = r["case"]
        for irp in (False, True):
            attrs = ["#![inter_rule_parallelism]"] if irp else []
            for pool in POOLS:
                jid = "%s_%s_t%d" % (c["id"], "irp" if irp else "seq", pool)
                scripts = []
                seeds = [0] + [rng.randrange(1, 2 ** 31) for _ in range(nsched - 1)]
                for sd in seeds:
                    for inp in c["inputs"]:
                        scripts.append([("raw", "ascent::verif_hooks::arm_perturb(%d);" % sd), ("set", inp), ("run",), ("snap",), ("raw", "ascent::verif_hooks::arm_perturb(0);")])
                jobs.append(dict(id=jid, text=dl.rust_program_text(dict(c["prog"], attrs=[])), attrs=attrs, macro="ascent_par", rels=c["prog"]["rels"], scripts=scripts, threads=pool))
                meta[jid] = (r, irp, pool, seeds)
    front = prog.front_run([(r["case"]["id"] + "_par", "ascent_par", dl.rust_program_text(dict(r["case"]["prog"], attrs=["#![inter_rule_parallelism]"]))) for r in results])
    for r in results:
        d = front.get(r["case"]["id"] + "_par", {})
        if d.get("status") != "ok":
            mism.append(dict(case=dict(program=r["text"]), impl=d.get("status"), model=None, spec="accepted by the serial front end", kind="impl_violates_spec", known=None,
                             what="parallel front end rejects a program the serial one accepts: %s" % d.get("errors")))
    impl = prog.build_and_run("c02p", jobs, features=("verif_hooks",), run_timeout=300) if jobs else {}
    # lattice programs (incl. partial-order lattices with incomparable values for one key) through ascent_par!,
    # compared with the Kleene oracle of C03: "the same lattice value per key for every interleaving"
    from .. import c03_par
    lat = c03_par.run_parallel(tier, seed)
    mism += lat["mismatches"]
    # aggregates over lattice relations under ascent_par! (gen/c04_lat.py; the serial runs of the same family are C04's)
    # every parallel run is also compared with the SERIAL MODEL column of LatEngine/LatAggEval.v (c02_par_lat_agg_equals_serial)
    from .. import c02_latagg
    latagg = c02_latagg.check(tier, seed + 1)
    mism += latagg["mismatches"]
    # real write contention: few big ascent_par! runs (10^4-10^5 keys, pools of 4-16 threads) against the python specification
    from .. import par_contention
    cont = par_contention.run(tier, seed, tag="c02")
    mism += cont["mismatches"]
    distinct, dist = set(), {}
    for jid, (r, irp, pool, seeds) in meta.items():
        c = r["case"]
        res = impl.get(jid)
        k = 0
        for sd in seeds:
            for ii, inp in enumerate(c["inputs"]):
                iv = res[k] if res else None
                k += 1
                cs = dict(program=r["text"], input=inp, pool_threads=pool, inter_rule_parallelism=irp, perturbation_seed=sd)
                spec = r["spec"][ii]
                if spec is None:
                    continue
                sg = engine_tie.group_facts(spec, c["prog"]["rels"])
                if iv is None or "snaps" not in iv:
                    mism.append(dict(case=cs, impl=iv, model=None, spec=None, kind="impl_violates_spec", known=None,
                                     what="parallel run did not complete (panic / deadlock-timeout / compile error): %s" % json.dumps(iv)[:300]))
                    continue
                snap = prog.canon_snap(iv["snaps"][-1])
                distinct.add((jid, sd, ii))
                dist[pool] = dist.get(pool, 0) + 1
                for name, _, _ in c["prog"]["rels"]:
                    ilen, iset = snap[name]
                    if iset != sg[name][1] or ilen != len(iset):
                        mism.append(dict(case=cs, impl={name: dict(len=ilen, tuples=iset)}, model=None, spec={name: sg[name][1]}, kind="impl_violates_spec", known=None,
                                         what="parallel run: relation %s has %d rows / %d distinct; missing %s; extra %s" % (name, ilen, len(iset), [t for t in sg[name][1] if t not in iset][:4], [t for t in iset if t not in sg[name][1]][:4])))
                        break
    return dict(evaluations=sum(len(r["case"]["inputs"]) for r in results) + len(distinct) + lat["evaluations"] + latagg["evaluations"], distinct_nontrivial=len(distinct) + lat["distinct"] + latagg["distinct"],
                rule="random programs (2/3 positive, 1/3 stratified with aggregates) x 2 inputs: serial reference (impl = model = spec), then ascent_par! with and without #![inter_rule_parallelism] in rayon pools of 1, 2, 3, 8, 16 threads, each under 2 (quick) / 8 (thorough) seeded perturbation schedules (yields / microsecond sleeps at the instrumented points of the parallel head update); observables: relation contents as sets, row count = distinct count, no panic, finished within the hang budget; distinct = (program, configuration, seed, input)",
                samples=[dict(program=r["text"], input=r["case"]["inputs"][0]) for r in results[:2]],
                distribution=dict(programs=len(results), runs_by_pool_size=dist, schedules_per_configuration=nsched), mismatches=mism,
                trusted_base=["perturbation hook (ascent/src/verif_hooks.rs + call sites emitted by codegen under feature verif_hooks)", "FRONT hook; generated crates",
                              "RESIDUE (explored, not proved): real DashMap / RwLock / Mutex / boxcar implementations, rayon work stealing, memory ordering of the Relaxed __changed flag; the schedule space of the real binary is sampled, not enumerated"],
                assumptions=["the modelled atomic steps (Engine/ParStep.v) are linearizable in the real libraries"],
                extra=dict(contention_family=dict(rounds=cont["evaluations"], distribution=cont["distribution"]), cases_skipped_model_too_slow=nskipped, parallel_lattice_runs=lat["evaluations"], parallel_lattice_distribution=lat["distribution"],
                           parallel_lattice_aggregate_runs=latagg["evaluations"], parallel_lattice_aggregate_distribution=latagg["distribution"]))
