"""C03: programs whose lattice column is a LEXICOGRAPHIC tuple lattice (gen/c03_lex.py LEX: std tuples with Dual / Reverse /
Option components at every position, nested, under Dual / Option / OrdLattice) and in which one key receives SEVERAL
DIFFERENT values - tied in the leading components or not - from input rows, from several rules, and over several iterations.

The engine stores `join_mut` of the shipped type (tuple.rs: through Ord::cmp of the tuple and its components); the oracle
(gen/c03_gen.py Oracle) joins with the mathematical order of the type (PartialOrd), the model with C16's mirror of join_mut."""
from . import c03_gen as g
from . import c03_lex as lx
from . import c03_vocab as voc

V, C, F = g.V, g.C, g.F
FORMS = ["best", "best", "lockstep", "lockstep", "paths", "paths", "merge", "random"]


def lex_program(rng, ty=None, form=None):
    ty = ty or rng.choice(list(lx.LEX))
    form = form or rng.choice(FORMS)
    n = len(lx.dirs(ty))
    cs = ["c%d" % i for i in range(n)]
    ts = ["t%d" % i for i in range(n)]
    L = ("lat", ty)
    if form == "random":
        others = [t for t in lx.LEX if t != ty] + ["max", "dual", "pair"]
        p = g.random_program(rng, [ty, ty, rng.choice(others)])
        p["shape"] = "lex_random"
        return p
    rels, rules = [], []
    if form == "best":
        # per key the best of all offers (not recursive); a second source feeds the same keys
        rels += [("sample", n + 1, "rel"), ("hi", 2, L)]
        rules.append(dict(heads=[("hi", [V("k"), F(ty + "_of", *cs)])], body=[("clause", "sample", [V("k")] + [V(c) for c in cs], [])]))
        if rng.random() < 0.5:
            rels.append(("sample2", n + 1, "rel"))
            rules.append(dict(heads=[("hi", [V("k"), F(ty + "_of", *cs)])], body=[("clause", "sample2", [V("k")] + [V(c) for c in cs], [])]))
        main = "hi"
    elif form == "lockstep":
        rels += [("sample", n + 1, "rel"), ("inc", 3, "rel"), ("level", 2, L)]
        rules.append(dict(heads=[("level", [V("k"), F(ty + "_of", *cs)])], body=[("clause", "sample", [V("k")] + [V(c) for c in cs], [])]))
        for op in rng.sample(["via", "adv", "keep"], rng.choice([1, 1, 2])):
            args = ["l", "w", "x"] if op == "via" else ["l", "w"]
            rules.append(dict(heads=[("level", [V("k"), F(ty + "_" + op, *args)])],
                              body=[("clause", "level", [V("k"), V("l")], []), ("clause", "inc", [V("k"), V("w"), V("x")], [])]))
        main = "level"
    elif form == "paths":
        # cost, then witness: the value of y is derived from the value of its predecessor x, the witness is x itself
        rels += [("sample", n + 1, "rel"), ("edge", 3, "rel"), ("val", 2, L)]
        rules.append(dict(heads=[("val", [V("x"), F(ty + "_of", *cs)])], body=[("clause", "sample", [V("x")] + [V(c) for c in cs], [])]))
        body = [("clause", "val", [V("x"), V("l")], []), ("clause", "edge", [V("x"), V("y"), V("w")], [])]
        if rng.random() < 0.5:
            body.reverse()
        head = F(ty + "_via", "l", "w", "x") if rng.random() < 0.7 else F(ty + "_adv", "l", "w")
        rules.append(dict(heads=[("val", [V("y"), head])], body=body))
        main = "val"
    else:
        rels += [("sample", n + 1, "rel"), ("both", 3, "rel"), ("val", 2, L)]
        rules.append(dict(heads=[("val", [V("x"), F(ty + "_of", *cs)])], body=[("clause", "sample", [V("x")] + [V(c) for c in cs], [])]))
        rules.append(dict(heads=[("val", [V("z"), F(ty + "_merge", "a", "b")])],
                          body=[("clause", "both", [V("x"), V("y"), V("z")], []), ("clause", "val", [V("x"), V("a")], []), ("clause", "val", [V("y"), V("b")], [])]))
        main = "val"
    # observers: facts that depend on the lattice value through upward-closed tests written with the comparison operators of
    # the real type, and one global join of every row (a keyless lattice relation: every value of `main` is joined into one row)
    if rng.random() < 0.8:
        rels += [("thr", n, "rel"), ("reached", n + 1, "rel")]
        rules.append(dict(heads=[("reached", [V("k")] + [V(t) for t in ts])],
                          body=[("clause", main, [V("k"), V("l")], []), ("clause", "thr", [V(t) for t in ts], [("if", ty + rng.choice(["_ge", "_ge", "_gt"]), ["l"] + ts)])]))
    if rng.random() < 0.4:
        rels.append(("tail", 1, "rel"))
        rules.append(dict(heads=[("tail", [V("k")])], body=[("clause", main, [V("k"), V("l")], [("if", ty + "_first_hi", ["l"])])]))
    if rng.random() < 0.6:
        rels.append(("top", 1, L))
        rules.append(dict(heads=[("top", [F((ty + "_id"), "l")])], body=[("clause", main, [V("k"), V("l")], [])]))
    rng.shuffle(rules)
    return dict(rels=rels, rules=rules, shape="lex_" + form)


def lex_input(rng, p):
    """few keys, several samples per key; component values from a SMALL domain, so that values of one key tie in their leading
    components about as often as they differ there; orders random / rising / falling / mixed as in composite_input"""
    inp, style = g.composite_input(rng, p)
    dom = rng.choice([[0, 1], [0, 1, 2], [0, 1, 2, 3], [0, 1, 2, 3, 4, 5, 6, 7]])
    order = style[len("composite_"):]
    for name, arity, kind in p["rels"]:
        if name in ("sample", "sample2"):
            nk = rng.choice([1, 2, 3])
            m = rng.choice([2, 3, 4, 6])
            rows = []
            for k in range(nk):
                vals = [tuple(rng.choice(dom) for _ in range(arity - 1)) for _ in range(m)]
                if order in ("rising", "falling"):
                    vals.sort(reverse=(order == "falling"))
                elif order == "mixed":
                    cols = [sorted(c, reverse=(i > 0)) for i, c in enumerate(zip(*vals))]
                    vals = list(zip(*cols))
                rows += [(k,) + tuple(v) for v in vals]
            if order == "random":
                rng.shuffle(rows)
            inp[name] = list(dict.fromkeys(rows))
        elif name == "thr":
            inp[name] = list(dict.fromkeys(tuple(rng.choice(dom + [3, 9]) for _ in range(arity)) for _ in range(rng.choice([1, 2, 3]))))
        elif name == "inc":
            inp[name] = list(dict.fromkeys((rng.choice([0, 1, 2]), rng.choice([0, 1, 1, 2, 3]), rng.choice([0, 1, 2, 5])) for _ in range(rng.choice([1, 2, 4]))))
    lats = g.lat_of(p)
    for name in lats:
        if lats[name] in lx.LEX and inp.get(name):
            # lattice-typed input rows: small components as well
            inp[name] = [t[:-1] + (lx.mk(lats[name], None if lx.is_opt(lats[name]) and rng.random() < 0.2 else [rng.choice(dom) for _ in lx.dirs(lats[name])]),) for t in inp[name]]
    return inp, "lex_" + order


def differing_values(p, inp, orc_cls=g.Oracle):
    """number of keys of LEX-typed lattice relations for which the naive iteration derives at least two different values
    (measured as: the key's value was raised at least once during the oracle's run)"""
    orc = orc_cls(p)
    st = orc.run(inp)
    lats = g.lat_of(p)
    return sum(1 for (rel, k), c in orc.raised.items() if lats.get(rel) in lx.LEX and c >= 1) if st is not None else 0
