"""C08 — EXPRESSION-LEVEL SCOPES inside macro bodies and expression arguments (coq/Macros/MacroScopes.v, MacroScopesEval.v).

The renaming of macro locals finds their occurrences inside Rust expressions through the free-variable walk of
ascent_macro/src/syn_utils.rs (expr_visit_free_vars_mut / block_visit_free_vars_mut): blocks with `let`, closures, match arms
(with guards), `if let`, `for`.  The other C08 generators only produce flat applications of vocabulary functions.  Here a
program is ONE rule over 1-2 macros of a small language whose expressions have those binders:

  ident = ['id', name, org]       org: 0 = written at the call site, 'm' = written in the body of the macro being defined
                                  (stamped with the number of the invocation when the macro is instantiated)
  par   = ['par', p]              `$p`
  sx    = ['v', ident|par] | ['k', n] | ['o1', f, sx] | ['o2', f, sx, sx]
        | ['let', B, init, body, flat]            { let B = init; body }      (flat: a let directly below goes into the same block)
        | ['clo', B, body, arg]                   (|B: i32| body)(arg)
        | ['match', scrut, B, body]               match (scrut) { B => body }
        | ['matchg', scrut, B, guard, body, els]  match (scrut) { B if (guard) > 0 => body, _ => els }
        | ['iflet', B, scrut, thn, els]           if let Some(B) = half_(scrut) { thn } else { els }
        | ['for', B, bound, body]                 { let mut acc_ = 0i32; for B in 0..=(bound).rem_euclid(3) { acc_ += body; } acc_.rem_euclid(7) }
                                                  B = ident | par (an ident parameter used as a binder)
  item  = ['clause', rel, [['bind', ident|par] | ['exp', sx]..]] | ['let', B, sx] | ['ifletsome', B, sx] | ['ifletpred', B, sx]
        | ['forone', B, sx] | ['forupto', B, sx] | ['ifeq', sx, sx] | ['neg', rel, [sx..]] | ['inv', k, [ident|par|sx ..]]
  macro = {'name': k, 'params': [[p, 'ident'|'expr']..], 'body': [item..]}
  prog  = {'macros': [macro..], 'rule': {'head': [ident..], 'body': [item..]}}        head relation: so/3

instantiate(prog): the instantiated rule (no invocations left; every identifier carries the number of the invocation that wrote
it) = the hygienic reading; the oracle py_run evaluates it with identifiers = (spelling, origin); the hand expansion renders
(name, n >= 1) as name_h<n> — binders and occurrences alike — and goes through the real macro and rustc.
passes(inst): per invocation, innermost first, the rule-level binders of that origin (what the code renames)."""
import copy
import json

from . import dl

RELS = [["sk", 1, "rel"], ["sb", 1, "rel"], ["sa", 2, "rel"], ["so", 3, "rel"]]
REL_ID = {"sk": 0, "sb": 1, "sa": 2, "so": 3}
PRE = ("fn half_(x: i32) -> Option<i32> { if x.rem_euclid(2) == 0 { Some(x / 2) } else { None } }\n"
       "fn pred_(x: i32) -> Option<i32> { if x > 0 { Some(x - 1) } else { None } }\n")
POOL = ["x", "y", "z", "t", "u", "w"]
OP1 = ["incs", "mod3", "decs"]
OP2 = ["addm", "max2"]
BINDER_FORMS = ["let", "clo", "match", "matchg", "iflet", "for"]


def ID(name, org):
    return ["id", name, org]


def P(p):
    return ["par", p]


def V(x):
    return ["v", x]


def K(n):
    return ["k", n]


def tup(x):
    return tuple(tup(i) for i in x) if isinstance(x, list) else x


# ------------------------------------------------------------------ traversal helpers

def sx_kids(e):
    """(binder or None, [(sub-expression, inside the binder's scope)]) in the order of MacroScopes.sx"""
    k = e[0]
    if k in ("v", "k"):
        return None, []
    if k == "o1":
        return None, [(e[2], False)]
    if k == "o2":
        return None, [(e[2], False), (e[3], False)]
    if k == "let":
        return e[1], [(e[2], False), (e[3], True)]
    if k == "clo":
        return e[1], [(e[2], True), (e[3], False)]
    if k == "match":
        return e[2], [(e[1], False), (e[3], True)]
    if k == "matchg":
        return e[2], [(e[1], False), (e[3], True), (e[4], True), (e[5], False)]
    if k == "iflet":
        return e[1], [(e[2], False), (e[3], True), (e[4], False)]
    if k == "for":
        return e[1], [(e[2], False), (e[3], True)]
    raise ValueError(e)


def item_sxs(it):
    k = it[0]
    if k == "clause":
        return [a[1] for a in it[2] if a[0] == "exp"]
    if k in ("let", "ifletsome", "ifletpred", "forone", "forupto"):
        return [it[2]]
    if k == "ifeq":
        return [it[1], it[2]]
    if k == "neg":
        return list(it[2])
    return []


def item_binders(it):
    k = it[0]
    if k == "clause":
        return [a[1] for a in it[2] if a[0] == "bind"]
    if k in ("let", "ifletsome", "ifletpred", "forone", "forupto"):
        return [it[1]]
    return []


# ------------------------------------------------------------------ instantiation (the hygienic reading)

class Inst:
    def __init__(self, prog):
        self.defs = {d["name"]: d for d in prog["macros"]}
        self.n = 0
        self.order = []          # invocation numbers, innermost first (the order of the renaming passes)
        self.macro_of = {}

    def ident(self, i, env, org):
        if i[0] == "par":
            a = env[i[1]]
            assert a[0] == "id", ("an ident parameter got an expression", i, a)
            return a
        return ["id", i[1], org if i[2] == "m" else i[2]]

    def sx(self, e, env, org):
        k = e[0]
        if k == "v":
            if e[1][0] == "par":
                a = env[e[1][1]]
                return ["v", a] if a[0] == "id" else copy.deepcopy(a)
            return ["v", self.ident(e[1], env, org)]
        if k == "k":
            return e
        if k == "o1":
            return ["o1", e[1], self.sx(e[2], env, org)]
        if k == "o2":
            return ["o2", e[1], self.sx(e[2], env, org), self.sx(e[3], env, org)]
        if k == "let":
            return ["let", self.ident(e[1], env, org), self.sx(e[2], env, org), self.sx(e[3], env, org), e[4]]
        if k == "clo":
            return ["clo", self.ident(e[1], env, org), self.sx(e[2], env, org), self.sx(e[3], env, org)]
        if k == "match":
            return ["match", self.sx(e[1], env, org), self.ident(e[2], env, org), self.sx(e[3], env, org)]
        if k == "matchg":
            return ["matchg", self.sx(e[1], env, org), self.ident(e[2], env, org), self.sx(e[3], env, org), self.sx(e[4], env, org), self.sx(e[5], env, org)]
        if k == "iflet":
            return ["iflet", self.ident(e[1], env, org), self.sx(e[2], env, org), self.sx(e[3], env, org), self.sx(e[4], env, org)]
        if k == "for":
            return ["for", self.ident(e[1], env, org), self.sx(e[2], env, org), self.sx(e[3], env, org)]
        raise ValueError(e)

    def items(self, its, env, org, depth=0):
        assert depth < 8
        out = []
        for it in its:
            k = it[0]
            if k == "clause":
                out.append(["clause", it[1], [["bind", self.ident(a[1], env, org)] if a[0] == "bind" else ["exp", self.sx(a[1], env, org)] for a in it[2]]])
            elif k in ("let", "ifletsome", "ifletpred", "forone", "forupto"):
                out.append([k, self.ident(it[1], env, org), self.sx(it[2], env, org)])
            elif k == "ifeq":
                out.append(["ifeq", self.sx(it[1], env, org), self.sx(it[2], env, org)])
            elif k == "neg":
                out.append(["neg", it[1], [self.sx(e, env, org) for e in it[2]]])
            elif k == "inv":
                d = self.defs[it[1]]
                assert len(d["params"]) == len(it[2])
                acts = {}
                for (p, kind), a in zip(d["params"], it[2]):
                    if kind == "ident":
                        acts[p] = self.ident(a, env, org)
                    else:
                        acts[p] = self.sx(a, env, org)
                self.n += 1
                n = self.n
                self.macro_of[n] = it[1]
                out += self.items(d["body"], acts, n, depth + 1)
                self.order.append(n)
            else:
                raise ValueError(it)
        return out


def instantiate(prog):
    ins = Inst(prog)
    body = ins.items(prog["rule"]["body"], {}, 0)
    return dict(head=copy.deepcopy(prog["rule"]["head"]), body=body, order=ins.order, macro_of=ins.macro_of)


def passes(inst):
    """[(invocation, {spelling: generated spelling})] innermost invocation first: the rule-level binders of that origin"""
    count = {}
    out = []
    for n in inst["order"]:
        names = sorted({b[1] for it in inst["body"] for b in item_binders(it) if b[2] == n})
        m = {}
        for nm in names:
            c = count.get(nm, 0)
            count[nm] = c + 1
            m[nm] = "__%s_" % nm if c == 0 else "__%s_%d" % (nm, c)
        out.append((n, m))
    return out


# ------------------------------------------------------------------ python's own classification (cross-checked against hyp_report)

def classify(inst):
    """(no expression-level binder stands above an identifier of its spelling and another origin,
        no guard mentions a renamed identifier under the spelling of its arm's binder)"""
    mapped = {(nm, n) for n, m in passes(inst) for nm in m}
    ok = [True, True]

    def any_occ(e, name):
        if e[0] == "v":
            return e[1][1] == name and (e[1][1], e[1][2]) in mapped
        return any(any_occ(s, name) for s, _ in sx_kids(e)[1])

    def walk(e, stack):
        if e[0] == "v":
            for b in stack:
                if b[1] == e[1][1]:
                    if b != e[1]:
                        ok[0] = False
                    break
            return
        b, kids = sx_kids(e)
        if e[0] == "matchg" and any_occ(e[3], b[1]):
            ok[1] = False
        for s, scoped in kids:
            walk(s, [b] + stack if scoped else stack)
    for it in inst["body"]:
        for e in item_sxs(it):
            walk(e, [])
    return ok[0], ok[1]


# ------------------------------------------------------------------ the oracle: the instantiated rule, identifiers = (spelling, origin)

class Unbound(Exception):
    pass


def _look(env, i):
    key = (i[1], i[2])
    for k, v in env:
        if k == key:
            return v
    raise Unbound(i)


def py_eval(e, env):
    k = e[0]
    if k == "v":
        return _look(env, e[1])
    if k == "k":
        return e[1]
    if k == "o1":
        return dl.py_fun(e[1], [py_eval(e[2], env)])
    if k == "o2":
        return dl.py_fun(e[1], [py_eval(e[2], env), py_eval(e[3], env)])
    if k == "let":
        v = py_eval(e[2], env)
        return py_eval(e[3], [((e[1][1], e[1][2]), v)] + env)
    if k == "clo":
        v = py_eval(e[3], env)
        return py_eval(e[2], [((e[1][1], e[1][2]), v)] + env)
    if k == "match":
        v = py_eval(e[1], env)
        return py_eval(e[3], [((e[2][1], e[2][2]), v)] + env)
    if k == "matchg":
        v = py_eval(e[1], env)
        env2 = [((e[2][1], e[2][2]), v)] + env
        g, x, y = py_eval(e[3], env2), py_eval(e[4], env2), py_eval(e[5], env)
        return x if g > 0 else y
    if k == "iflet":
        v = py_eval(e[2], env)
        x, y = py_eval(e[3], [((e[1][1], e[1][2]), v // 2)] + env), py_eval(e[4], env)
        return x if v % 2 == 0 else y
    if k == "for":
        n = py_eval(e[2], env) % 3
        return sum(py_eval(e[3], [((e[1][1], e[1][2]), j)] + env) for j in range(n + 1)) % 7
    raise ValueError(e)


def py_run(inst, db):
    """('facts', sorted so-tuples) | ('compile_error', why): the hygienic reading of the rule on a database"""
    envs = [[]]
    # rustc's verdict first: every identifier that is read is bound (evaluation on a dummy environment of the binders in scope)
    try:
        scope = []
        for it in inst["body"]:
            for e in item_sxs(it):
                py_eval(e, [(b, 0) for b in scope])
            for b in item_binders(it):
                if (b[1], b[2]) not in scope:
                    scope.insert(0, (b[1], b[2]))
        for h in inst["head"]:
            if (h[1], h[2]) not in scope:
                raise Unbound(h)
    except Unbound as u:
        return ("compile_error", "unbound %s" % (u.args[0],))
    for it in inst["body"]:
        k = it[0]
        nxt = []
        for env in envs:
            if k == "clause":
                keys = {j: py_eval(a[1], env) for j, a in enumerate(it[2]) if a[0] == "exp"}
                for t in db.get(it[1], []):
                    e2, good = env, True
                    for j, a in enumerate(it[2]):
                        if a[0] == "exp":
                            good = keys[j] == t[j]
                        else:
                            key = (a[1][1], a[1][2])
                            cur = [v for kk, v in e2 if kk == key]
                            if cur:
                                good = cur[0] == t[j]
                            else:
                                e2 = [(key, t[j])] + e2
                        if not good:
                            break
                    if good:
                        nxt.append(e2)
            elif k in ("let", "ifletsome", "forone"):
                nxt.append([((it[1][1], it[1][2]), py_eval(it[2], env))] + env)
            elif k == "ifletpred":
                v = py_eval(it[2], env)
                if v > 0:
                    nxt.append([((it[1][1], it[1][2]), v - 1)] + env)
            elif k == "forupto":
                for j in range(max(0, min(py_eval(it[2], env), 3))):
                    nxt.append([((it[1][1], it[1][2]), j)] + env)
            elif k == "ifeq":
                if py_eval(it[1], env) == py_eval(it[2], env):
                    nxt.append(env)
            elif k == "neg":
                t = tuple(py_eval(e, env) for e in it[2])
                if t not in {tuple(x) for x in db.get(it[1], [])}:
                    nxt.append(env)
            else:
                raise ValueError(it)
        envs = nxt
    return ("facts", sorted({tuple(_look(env, h) for h in inst["head"]) for env in envs}))


# ------------------------------------------------------------------ Rust

def _nm(i, hand):
    if i[0] == "par":
        assert not hand
        return "$" + i[1]
    if hand and i[2] not in (0, None):
        return "%s_h%s" % (i[1], i[2])
    return i[1]


def r_sx(e, hand, kinds=None):
    """Rust text of an expression; every compound operand is parenthesised by the templates of the vocabulary"""
    k = e[0]
    if k == "v":
        if e[1][0] == "par" and (kinds or {}).get(e[1][1]) == "expr":
            return "$" + e[1][1]
        return _nm(e[1], hand) + ".clone()"
    if k == "k":
        return "%di32" % e[1]
    R = lambda x: r_sx(x, hand, kinds)
    if k == "o1":
        return dl._subst(dl.FUNS[e[1]][2], [R(e[2])])
    if k == "o2":
        return dl._subst(dl.FUNS[e[1]][2], [R(e[2]), R(e[3])])
    if k == "let":
        stmts, cur = [], e
        while True:
            stmts.append("let %s = %s;" % (_nm(cur[1], hand), R(cur[2])))
            if cur[4] and cur[3][0] == "let":
                cur = cur[3]
            else:
                break
        return "{ %s %s }" % (" ".join(stmts), R(cur[3]))
    if k == "clo":
        return "(|%s: i32| %s)(%s)" % (_nm(e[1], hand), R(e[2]), R(e[3]))
    if k == "match":
        return "(match (%s) { %s => %s })" % (R(e[1]), _nm(e[2], hand), R(e[3]))
    if k == "matchg":
        return "(match (%s) { %s if (%s) > 0 => %s, _ => %s })" % (R(e[1]), _nm(e[2], hand), R(e[3]), R(e[4]), R(e[5]))
    if k == "iflet":
        return "(if let Some(%s) = half_(%s) { %s } else { %s })" % (_nm(e[1], hand), R(e[2]), R(e[3]), R(e[4]))
    if k == "for":
        return "{ let mut acc_ = 0i32; for %s in 0..=(%s).rem_euclid(3) { acc_ += %s; } acc_.rem_euclid(7) }" % (_nm(e[1], hand), R(e[2]), R(e[3]))
    raise ValueError(e)


def r_item(it, hand, kinds=None, defs=None):
    k = it[0]
    R = lambda x: r_sx(x, hand, kinds)
    if k == "clause":
        return "%s(%s)" % (it[1], ", ".join(_nm(a[1], hand) if a[0] == "bind" else "(%s)" % R(a[1]) for a in it[2]))
    if k == "let":
        return "let %s = %s" % (_nm(it[1], hand), R(it[2]))
    if k == "ifletsome":
        return "if let Some(%s) = Some(%s)" % (_nm(it[1], hand), R(it[2]))
    if k == "ifletpred":
        return "if let Some(%s) = pred_(%s)" % (_nm(it[1], hand), R(it[2]))
    if k == "forone":
        return "for %s in [%s]" % (_nm(it[1], hand), R(it[2]))
    if k == "forupto":
        return "for %s in 0..(%s).min(3)" % (_nm(it[1], hand), R(it[2]))
    if k == "ifeq":
        return "if (%s) == (%s)" % (R(it[1]), R(it[2]))
    if k == "neg":
        return "!%s(%s)" % (it[1], ", ".join("(%s)" % R(e) for e in it[2]))
    if k == "inv":
        d = defs[it[1]]
        acts = []
        for (p, kind), a in zip(d["params"], it[2]):
            acts.append(_nm(a, hand) if kind == "ident" else R(a))
        return "sm%d!(%s)" % (it[1], ", ".join(acts))
    raise ValueError(it)


def decls():
    return "\n".join("relation %s(%s);" % (n, ", ".join(["i32"] * a)) for n, a, _ in RELS)


def rust_text(prog):
    defs = {d["name"]: d for d in prog["macros"]}
    lines = [decls()]
    for d in prog["macros"]:
        kinds = {p: k for p, k in d["params"]}
        lines.append("macro sm%d(%s) { %s }" % (d["name"], ", ".join("$%s: %s" % (p, k) for p, k in d["params"]),
                                               ", ".join(r_item(it, False, kinds, defs) for it in d["body"])))
    r = prog["rule"]
    lines.append("so(%s) <-- %s;" % (", ".join(i[1] for i in r["head"]), ", ".join(r_item(it, False, None, defs) for it in r["body"])))
    return "\n".join(lines)


def hand_text(inst):
    return decls() + "\nso(%s) <-- %s;" % (", ".join(_nm(i, True) for i in inst["head"]), ", ".join(r_item(it, True) for it in inst["body"]))


# ------------------------------------------------------------------ Gallina (coq/Macros/MacroScopes.v, MacroScopesEval.v)

def q_id(i):
    assert i[0] == "id" and isinstance(i[2], int), i
    return '("%s", %d%%nat)' % (i[1], i[2])


def q_sx(e):
    k = e[0]
    if k == "v":
        return "SVar %s" % q_id(e[1])
    if k == "k":
        return "SConst (%d)%%Z" % e[1]
    Q = lambda x: "(%s)" % q_sx(x)
    if k == "o1":
        return "SOp1 %d %s" % (dl.FUNS[e[1]][0], Q(e[2]))
    if k == "o2":
        return "SOp2 %d %s %s" % (dl.FUNS[e[1]][0], Q(e[2]), Q(e[3]))
    if k == "let":
        return "SLet %s %s %s" % (q_id(e[1]), Q(e[2]), Q(e[3]))
    if k == "clo":
        return "SClo %s %s %s" % (q_id(e[1]), Q(e[2]), Q(e[3]))
    if k == "match":
        return "SMatch %s %s %s" % (Q(e[1]), q_id(e[2]), Q(e[3]))
    if k == "matchg":
        return "SMatchG %s %s %s %s %s" % (Q(e[1]), q_id(e[2]), Q(e[3]), Q(e[4]), Q(e[5]))
    if k == "iflet":
        return "SIfLet %s %s %s %s" % (q_id(e[1]), Q(e[2]), Q(e[3]), Q(e[4]))
    if k == "for":
        return "SFor %s %s %s" % (q_id(e[1]), Q(e[2]), Q(e[3]))
    raise ValueError(e)


def q_list(xs):
    return "[" + "; ".join(xs) + "]"


def q_item(it):
    k = it[0]
    if k == "clause":
        return "IClause %d %s" % (REL_ID[it[1]], q_list(("CBind %s" % q_id(a[1])) if a[0] == "bind" else ("CExp (%s)" % q_sx(a[1])) for a in it[2]))
    tag = {"let": "ILet", "ifletsome": "IIfLetSome", "ifletpred": "IIfLetPred", "forone": "IForOne", "forupto": "IForUpto"}
    if k in tag:
        return "%s %s (%s)" % (tag[k], q_id(it[1]), q_sx(it[2]))
    if k == "ifeq":
        return "IIfEq (%s) (%s)" % (q_sx(it[1]), q_sx(it[2]))
    if k == "neg":
        return "INeg %d %s" % (REL_ID[it[1]], q_list(q_sx(e) for e in it[2]))
    raise ValueError(it)


def q_case(inst, dbs):
    ps = q_list(q_list('(("%s", %d%%nat), "%s")' % (nm, n, s) for nm, s in sorted(m.items())) for n, m in passes(inst))
    rule = "mkRule %s %s" % (q_list(q_item(it) for it in inst["body"]), q_list(q_id(i) for i in inst["head"]))
    ds = q_list(q_list("(%d%%nat, [%s])" % (REL_ID[r], "; ".join("(%d)%%Z" % v for v in t)) for r in sorted(db) for t in db[r]) for db in dbs)
    return "run_case %s (%s) %s" % (ps, rule, ds)


def decode(v):
    """parsed MacroScopesEval.outcome -> ('facts', sorted distinct tuples) | ('compile_error', None)"""
    if isinstance(v, list) and v and v[0] == "Facts":
        return ("facts", sorted({tuple(t) for t in v[1]}))
    if v == "CompileError" or v == ["CompileError"]:
        return ("compile_error", None)
    raise ValueError(v)


# ------------------------------------------------------------------ structural features of an instantiated rule

def feats_of(inst):
    rule_level = {(b[1], b[2]) for it in inst["body"] for b in item_binders(it)}
    local_names = {nm for nm, o in rule_level if o != 0}
    call_names = {nm for nm, o in rule_level if o == 0}
    out = set()

    def reads(e, name):
        """occurrences spelled `name` that no binder inside e binds"""
        if e[0] == "v":
            return [e[1]] if e[1][1] == name else []
        b, kids = sx_kids(e)
        r = []
        for s, scoped in kids:
            if scoped and b[1] == name:
                continue
            r += reads(s, name)
        return r

    def walk(e, depth, where):
        b, kids = sx_kids(e)
        if b is not None:
            form = e[0]
            out.add("scope_form:" + form)
            who = "macro" if b[2] != 0 else "call_site"
            if b[1] in local_names:
                out.add("binder_spelled_like_a_macro_local:written_in_%s" % who)
            if b[1] in call_names:
                out.add("binder_spelled_like_a_call_site_variable:written_in_%s" % who)
            if b[1] not in local_names and b[1] not in call_names:
                out.add("binder_of_another_spelling")
            outer = [s for s, scoped in kids if not scoped]
            rd = [i for s in outer for i in reads(s, b[1])]
            if rd:
                kind = "initialiser" if form == "let" else {"clo": "argument", "for": "bound"}.get(form, "scrutinee")
                out.add("shadowing_%s:%s_reads_the_shadowed_spelling" % (form, kind))
                if any((i[1], i[2]) in rule_level and i[2] != 0 for i in rd):
                    out.add("shadowing_%s:%s_reads_the_macro_local_it_shadows" % (form, kind))
            if depth >= 1:
                out.add("nested_scopes")
            out.add("scoped_expression_in:" + where)
        for s, scoped in kids:
            walk(s, depth + (1 if (b is not None and scoped) else 0), where)
    for it in inst["body"]:
        for e in item_sxs(it):
            walk(e, 0, it[0])
    if len(inst["order"]) > 1:
        out.add("several_invocations")
    return out


# ------------------------------------------------------------------ generators

class Ctx:
    """where an expression is written: `org` ('m' in a macro body, 0 at the call site), the atoms it may read (identifiers /
    parameters that the rule binds before it), the spellings a binder may take on purpose"""

    def __init__(self, org, atoms, like, binder_pars=(), kinds=None):
        self.org = org
        self.atoms = list(atoms)            # [(ident|par, weight)]
        self.like = list(like)              # spellings a binder may imitate: macro locals, call-site variables, actuals
        self.binder_pars = list(binder_pars)   # ident parameters that may be written in binder position (`let $r = ..`)
        self.kinds = kinds or {}

    def plus(self, b):
        c = Ctx(self.org, self.atoms + [(b, 4)], self.like, self.binder_pars, self.kinds)
        return c


def pick_atom(rng, ctx):
    tot = sum(w for _, w in ctx.atoms)
    x = rng.random() * tot
    for a, w in ctx.atoms:
        x -= w
        if x <= 0:
            return a
    return ctx.atoms[-1][0]


def _spelling(a):
    return a[1] if a[0] == "id" else None


def gen_sx(rng, ctx, depth, must=None):
    """a random expression; `must`: an atom that has to be read somewhere outside further binders"""
    if must is not None:
        r = rng.random()
        if r < 0.35 or depth <= 0:
            return ["o1", rng.choice(OP1), V(must)] if rng.random() < 0.6 else V(must)
        other = gen_sx(rng, ctx, depth - 1)
        pair = [V(must), other]
        rng.shuffle(pair)
        return ["o2", rng.choice(OP2)] + pair
    r = rng.random()
    if depth <= 0 or r < 0.18:
        return V(pick_atom(rng, ctx)) if rng.random() < 0.85 else K(rng.randrange(4))
    if r < 0.30:
        return ["o1", rng.choice(OP1), gen_sx(rng, ctx, depth - 1)]
    if r < 0.42:
        return ["o2", rng.choice(OP2), gen_sx(rng, ctx, depth - 1), gen_sx(rng, ctx, depth - 1)]
    return gen_binder(rng, ctx, depth, rng.choice(BINDER_FORMS))


def choose_binder(rng, ctx, avoid_guard_local=False):
    """(binder, the atom it is spelled like or None)"""
    r = rng.random()
    ids = [a for a, _ in ctx.atoms if a[0] == "id"]
    if r < 0.5 and ids:
        a = rng.choice(ids)                                  # spelled like something it can read: a shadow if the origins agree
        return ID(a[1], ctx.org), a
    if r < 0.72 and ctx.like:
        nm = rng.choice(ctx.like)
        same = [a for a in ids if a[1] == nm]
        return ID(nm, ctx.org), (same[0] if same else None)
    if r < 0.8 and ctx.binder_pars:
        return P(rng.choice(ctx.binder_pars)), None
    return ID(rng.choice(["q", "k", "n"]), ctx.org), None


def gen_binder(rng, ctx, depth, form):
    b, like = choose_binder(rng, ctx)
    must = like if (like is not None and rng.random() < 0.8) else None
    outer = gen_sx(rng, ctx, depth - 1, must=must)
    inner_ctx = ctx.plus(b)
    d2 = depth - 1

    def body():
        return gen_sx(rng, inner_ctx, d2, must=b if rng.random() < 0.7 else None)
    if form == "let":
        bd = body()
        if rng.random() < 0.35:
            # a second let of the same spelling right below: { let v = f(v); let v = g(v); .. }
            bd = ["let", copy.deepcopy(b), gen_sx(rng, inner_ctx, max(0, d2 - 1), must=b), gen_sx(rng, inner_ctx, max(0, d2 - 1), must=b), False]
        return ["let", b, outer, bd, rng.random() < 0.5]
    if form == "clo":
        return ["clo", b, body(), outer]
    if form == "match":
        return ["match", outer, b, body()]
    if form == "matchg":
        # the guard reads the arm's binder (a renamed identifier of that spelling there was the finding
        # match_guard_walked_outside_arm_scope, repaired by e64116b: the caller keeps a quota of those as regression cases)
        guard = gen_sx(rng, inner_ctx, max(0, d2 - 1), must=b if rng.random() < 0.6 else None)
        return ["matchg", outer, b, guard, body(), gen_sx(rng, ctx, max(0, d2 - 1))]
    if form == "iflet":
        return ["iflet", b, outer, body(), gen_sx(rng, ctx, max(0, d2 - 1))]
    if form == "for":
        return ["for", b, outer, body()]
    raise ValueError(form)


LOCAL_BINDERS = ["clause", "let", "for", "iflet", "scoped_let"]
USES = ["let", "iflet", "gen", "if", "clause_arg", "neg", "nested"]
RULES = ["one", "with_other_call_site_variable", "twice"]


def gen_prog(rng, lb=None, use=None, rshape=None, with_expr=None, designed=None):
    """one program of the family.  designed = (form, spelling, place): the scoped expression of the use item is built by
    designed_sx instead of gen_sx"""
    lb = lb or rng.choice(LOCAL_BINDERS)
    use = use or rng.choice(USES)
    rshape = rshape or rng.choice(RULES)
    with_expr = (rng.random() < 0.6) if with_expr is None else with_expr
    v = rng.choice(POOL)                                       # the macro local
    w2 = rng.choice([n for n in POOL if n != v])               # the second local
    rest = [n for n in POOL if n not in (v, w2)]
    rng.shuffle(rest)
    # call-site variables: c from sk, s from sb; one of them spelled like the local most of the time
    u = rng.random()
    cn, sn = (v, rest[0]) if u < 0.5 else (rest[0], v) if u < 0.8 else (rest[0], rest[1])
    rn, qn = rest[2], rest[3]
    L, W = ID(v, "m"), ID(w2, "m")
    c, s, r, q = ID(cn, 0), ID(sn, 0), ID(rn, 0), ID(qn, 0)
    has_s = rshape != "one"
    a_act = c if (not has_s or rng.random() < 0.6) else s
    params = [["a", "ident"]] + ([["e", "expr"]] if with_expr else []) + [["r", "ident"]]
    kinds = {p: k for p, k in params}
    body = []
    depth = rng.choice([1, 2, 2, 3])
    a_ctx = Ctx("m", [(P("a"), 3)], like=[cn, sn if has_s else cn, a_act[1]], binder_pars=["r"], kinds=kinds)
    if lb == "clause":
        body.append(["clause", "sa", [["bind", P("a")], ["bind", L]]])
    elif lb == "let":
        body.append(["let", L, ["o1", "incs", V(P("a"))]])
    elif lb == "for":
        body.append(["forupto", L, ["o1", "incs", V(P("a"))]])
    elif lb == "iflet":
        body.append(["ifletpred", L, ["o2", "addm", V(P("a")), K(2)]])
    else:
        body.append(["let", L, gen_binder(rng, a_ctx, 2, rng.choice(BINDER_FORMS))])
    atoms = [(L, 4), (P("a"), 2)]
    if rng.random() < 0.4:
        body.append(["let", W, ["o1", "decs", V(L)]])
        atoms.append((W, 2))
    if with_expr:
        atoms.append((P("e"), 3))
    like = [cn, a_act[1]] + ([sn] if has_s else [])
    m_ctx = Ctx("m", atoms, like=like, binder_pars=["r", "a"], kinds=kinds)
    macros = []
    if designed is not None:
        SX = designed_sx(rng, designed[0], designed[1] if designed[2] != "call_site_argument" else rng.choice(["other", "local"]), m_ctx, L, [v, cn, a_act[1]])
    else:
        SX = gen_binder(rng, m_ctx, depth, rng.choice(BINDER_FORMS))
        if rng.random() < 0.3:
            SX = ["o2", rng.choice(OP2), SX, V(L)] if rng.random() < 0.5 else ["o2", rng.choice(OP2), V(L), SX]
    if use == "let":
        body.append(["let", P("r"), SX])
    elif use == "iflet":
        body.append(["ifletsome", P("r"), SX])
    elif use == "gen":
        body.append(["forone", P("r"), SX])
    elif use == "if":
        body += [["clause", "sb", [["bind", P("r")]]], ["ifeq", SX, V(P("r"))]]
    elif use == "clause_arg":
        body.append(["clause", "sa", [["exp", SX], ["bind", P("r")]]])
    elif use == "neg":
        body += [["clause", "sb", [["bind", P("r")]]], ["neg", "sa", [SX, V(P("r"))]]]
    elif use == "nested":
        # the scoped expression is an ARGUMENT of a nested invocation written in the macro body; the inner macro has a local of
        # its own, spelled like the outer one half of the time, and a scoped expression over its parameter
        tn = v if rng.random() < 0.5 else rest[4 % len(rest)]
        T = ID(tn, "m")
        i_ctx = Ctx("m", [(T, 3), (P("x"), 4)], like=[v, cn], binder_pars=["r"], kinds={"x": "expr", "r": "ident"})
        inner_sx = gen_binder(rng, i_ctx, 2, rng.choice(BINDER_FORMS)) if rng.random() < 0.7 else ["o2", "addm", V(P("x")), V(T)]
        macros.append(dict(name=2, params=[["x", "expr"], ["r", "ident"]],
                           body=[["let", T, ["o1", "mod3", V(P("x"))]], ["let", P("r"), inner_sx]]))
        body.append(["inv", 2, [SX, P("r")]])
    else:
        raise ValueError(use)
    macros.insert(0, dict(name=1, params=params, body=body))
    # ---- the rule
    rb = [["clause", "sk", [["bind", c]]]]
    if has_s:
        rb.append(["clause", "sb", [["bind", s]]])
    c_atoms = [(c, 3)] + ([(s, 3)] if has_s else [])

    def actual_expr():
        ctx = Ctx(0, c_atoms, like=[v, v, w2])
        if designed is not None and designed[2] == "call_site_argument":
            return designed_sx(rng, designed[0], "local", ctx, rng.choice([a for a, _ in c_atoms]), [v])
        rr = rng.random()
        if rr < 0.25:
            return V(pick_atom(rng, ctx))
        if rr < 0.45:
            return ["o1", rng.choice(OP1), V(pick_atom(rng, ctx))]
        return gen_binder(rng, ctx, rng.choice([1, 2]), rng.choice(BINDER_FORMS))

    def inv(a, res):
        return ["inv", 1, [a] + ([actual_expr()] if with_expr else []) + [res]]
    if rshape == "twice":
        rb += [inv(a_act, r), inv(s if a_act is c else c, q)]
        head = [c, r, q]
    else:
        rb.append(inv(a_act, r))
        head = [c, s if has_s else c, r]
    prog = dict(macros=macros, rule=dict(head=head, body=rb))
    return prog, dict(local=v, lb=lb, use=use, rule=rshape, with_expr=with_expr)


# ---- the designed expressions: one per binder form x spelling of the binder

FORMS = ["let", "let_twice_in_one_block", "let_in_nested_block", "clo", "clo_with_block_body", "match", "matchg", "iflet", "for", "let_in_for_body"]
SPELLINGS = ["local", "call_site", "actual", "parameter", "other"]
PLACES = ["macro_body", "nested_invocation_argument", "call_site_argument"]


def designed_sx(rng, form, spelling, ctx, L, like):
    """the form with a binder of the asked spelling; what stands OUTSIDE the binder's scope (initialiser, argument, scrutinee,
    bound, else branch) reads the variable L (the macro local; at the call site: the call-site variable), what stands inside
    reads the binder only.  spelling: 'local' = like[0], 'call_site' = like[1], 'actual' = like[2], 'parameter' = `$r`, 'other'"""
    if spelling == "local":
        b = ID(like[0], ctx.org)
    elif spelling == "call_site":
        b = ID(like[1 % len(like)], ctx.org)
    elif spelling == "actual":
        b = ID(like[2 % len(like)], ctx.org)
    elif spelling == "parameter" and ctx.binder_pars:
        b = P(ctx.binder_pars[0])
    else:
        b = ID("q", ctx.org)
    src = L
    f1, f2 = rng.choice(OP1), rng.choice(OP1)
    g2 = rng.choice(OP2)
    out = ["o1", "incs", V(src)] if rng.random() < 0.7 else ["o2", "addm", V(src), K(rng.choice([1, 2, 3]))]
    use_b = ["o2", g2, V(b), K(rng.choice([1, 2]))] if rng.random() < 0.5 else ["o1", f1, V(b)]
    if form == "let":
        return ["let", b, out, use_b, False]
    if form == "let_twice_in_one_block":
        return ["let", b, out, ["let", copy.deepcopy(b), ["o1", f2, V(b)], use_b, False], True]
    if form == "let_in_nested_block":
        return ["let", b, out, ["o2", g2, ["let", copy.deepcopy(b), ["o2", "addm", V(b), K(2)], use_b, False], V(b)], False]
    if form == "clo":
        return ["clo", b, use_b, out]
    if form == "clo_with_block_body":
        return ["clo", b, ["let", copy.deepcopy(b), ["o1", f2, V(b)], use_b, False], out]
    if form == "match":
        return ["match", out, b, use_b]
    if form == "matchg":
        # the guard reads the arm's binder (under the spelling of a renamed local: the case repaired by e64116b), L, or a constant
        guard = ["o1", "mod3", V(b)] if rng.random() < 0.6 else ["o1", "mod3", V(src)] if (b[0] == "id" and b[1] != src[1]) else K(rng.choice([0, 1, 1]))
        return ["matchg", out, b, guard, use_b, ["o1", f2, V(src)]]
    if form == "iflet":
        return ["iflet", b, ["o2", "addm", V(src), V(src)] if rng.random() < 0.5 else out, use_b, ["o1", f2, V(src)]]
    if form == "for":
        return ["for", b, out, use_b]
    if form == "let_in_for_body":
        return ["for", b, out, ["let", copy.deepcopy(b), ["o1", "incs", V(b)], use_b, False]]
    raise ValueError(form)


def gen_designed(rng, form, spelling, place, k=0):
    use = "nested" if place == "nested_invocation_argument" else USES[k % (len(USES) - 1)]
    lb = LOCAL_BINDERS[k % 4]
    rshape = RULES[k % len(RULES)] if spelling != "call_site" else "with_other_call_site_variable"
    with_expr = place == "call_site_argument" or k % 3 == 0
    return gen_prog(rng, lb=lb, use=use, rshape=rshape, with_expr=with_expr, designed=(form, spelling, place))


def plan(tier, rng):
    """(form, spelling, place) of the designed programs of a run: quick = every form with the binder spelled like the macro local
    (the shadowing case) in a macro body, every form once more with a rotating spelling / place; thorough = the full grid"""
    out = []
    if tier != "quick":
        for f in FORMS:
            for s in SPELLINGS:
                for p in PLACES:
                    if p == "call_site_argument" and s != "local":
                        continue
                    out.append((f, s, p))
        return out
    off = rng.randrange(20)
    for i, f in enumerate(FORMS):
        out.append((f, "local", "macro_body"))
        s = SPELLINGS[(off + i) % len(SPELLINGS)]
        p = PLACES[(off + i) % len(PLACES)]
        if p == "call_site_argument":
            s = "local"
        if (s, p) == ("local", "macro_body"):
            p = "nested_invocation_argument"
        out.append((f, s, p))
    return out


def gen_db(rng, designed=False):
    if designed:
        return dict(sk=[(k,) for k in range(6)], sb=[(1,), (2,), (5,)], sa=[(k, (3 * k + 2) % 7) for k in range(8)] + [(2, 2), (4, 0)])
    sk = sorted(rng.sample(range(7), rng.choice([2, 3, 4])))
    sb = sorted(rng.sample(range(7), rng.choice([1, 2, 3])))
    sa = sorted({(rng.randrange(7), rng.randrange(7)) for _ in range(rng.choice([6, 10, 14]))})
    return dict(sk=[(k,) for k in sk], sb=[(k,) for k in sb], sa=sa)


def gen_cases(tier, rng):
    """[(prog, info, inst, (capture_free, guards_ok))]: the designed grid, then random programs with quotas: programs outside the
    hypothesis (a finding on the unchanged code, kept few) and programs whose guard reads the arm's binder under the spelling of a
    renamed local (inside the hypothesis since fix e64116b: regression cases)"""
    out = []
    for k, (f, s, p) in enumerate(plan(tier, rng)):
        for _try in range(20):
            prog, info = gen_designed(rng, f, s, p, k + _try)
            inst = instantiate(prog)
            cl = classify(inst)
            if cl[0]:
                break
        info = dict(info, designed="%s/%s/%s" % (f, s, p))
        out.append((prog, info, inst, cl))
    n_in, n_cap, n_guard = (14, 2, 2) if tier == "quick" else (120, 12, 12)
    tries = 0
    while (n_in or n_cap or n_guard) and tries < 5000:
        tries += 1
        prog, info = gen_prog(rng)
        inst = instantiate(prog)
        if len(json.dumps(inst["body"])) > 2600:
            continue
        cl = classify(inst)
        if cl == (True, True) and n_in:
            n_in -= 1
        elif cl == (False, True) and n_cap:
            n_cap -= 1
        elif cl == (True, False) and n_guard:
            n_guard -= 1
        else:
            continue
        out.append((prog, info, inst, cl))
    return out
