"""C07 — structural comparison of the macro's desugared rules (FRONT dump `hir_rules`) with the output of
coq/Syntax/Desugar.v `desugar_prog` printed by coq/Syntax/Show.v.

Both sides are brought into one normal form: nested tuples whose identifier leaves are ('id', name).
  rule   = ('rule', (head..), (item..))         head = ('head', rel, (term..))
  term   = ('v', id) | ('c', n) | ('f', fid, (id..))
  arg    = term | ('w',) | ('pat', pat)          pat = ('ptest', q) | ('pbind', f, id)
  cond   = ('if', p, (id..)) | ('bind', f, id, (id..)) | ('iflet', pat, id) | ('ifeq', id, term)
  item   = ('clause', rel, (arg..), (cond..)) | ('cond', cond) | ('gen', g, id, (id..))
         | ('agg', a, (id..) out, (id..) bound, rel, (aarg..))      aarg = ('w',) | ('b', id) | ('k', term)
         | ('neg', rel, (narg..)) | ('disj', ((item..)..))
"""
import re

from . import dl
from .c07_gen import PAT_BIND, PAT_TEST


class Shape(Exception):
    """the dumped rule has a form outside the model's language (reported as a structural difference)"""


# ------------------------------------------------------------------ Coq side (Show.v trees parsed by lib.coq_parse)

def _sx(t):
    if not (isinstance(t, list) and len(t) == 4 and t[0] == "SX"):
        raise ValueError("not an SX tree: %r" % (t,))
    lab = t[1][1] if isinstance(t[1], tuple) else t[1]
    return lab, t[2], [_sx(k) for k in t[3]]


def _id(t):
    return ("id", t[0])


def _term(t):
    lab, num, kids = t
    if lab == "v":
        return ("v", _id(kids[0]))
    if lab == "c":
        return ("c", num)
    if lab == "f":
        return ("f", num, tuple(_id(k) for k in kids))
    raise ValueError(t)


def _pat(t):
    lab, num, kids = t
    if lab == "ptest":
        return ("ptest", num)
    return ("pbind", num, _id(kids[0]))


def _arg(t):
    lab, _num, kids = t
    if lab == "w":
        return ("w",)
    if lab == "pat":
        return ("pat", _pat(kids[0]))
    return _term(t)


def _cond(t):
    lab, num, kids = t
    if lab == "if":
        return ("if", num, tuple(_id(k) for k in kids))
    if lab == "bind":
        return ("bind", num, _id(kids[0]), tuple(_id(k) for k in kids[1:]))
    if lab == "iflet":
        return ("iflet", _pat(kids[0]), _id(kids[1]))
    if lab == "ifeq":
        return ("ifeq", _id(kids[0]), _term(kids[1]))
    raise ValueError(t)


def _item(t):
    lab, num, kids = t
    if lab == "clause":
        return ("clause", num, tuple(_arg(a) for a in kids[0][2]), tuple(_cond(c) for c in kids[1][2]))
    if lab == "cond":
        return ("cond", _cond(kids[0]))
    if lab == "gen":
        return ("gen", num, _id(kids[0]), tuple(_id(k) for k in kids[1:]))
    if lab == "agg":
        out, bound, rel, args = kids
        aa = []
        for a in args[2]:
            if a[0] == "w":
                aa.append(("w",))
            elif a[0] == "b":
                aa.append(("b", _id(a[2][0])))
            else:
                aa.append(("k", _term(a[2][0])))
        return ("agg", num, tuple(_id(k) for k in out[2]), tuple(_id(k) for k in bound[2]), rel[1], tuple(aa))
    if lab == "neg":
        return ("neg", num, tuple(("w",) if a[0] == "w" else ("k", _term(a[2][0])) for a in kids))
    if lab == "disj":
        return ("disj", tuple(tuple(_item(i) for i in alt[2]) for alt in kids))
    raise ValueError(t)


def coq_rules(parsed):
    """value of `show_prog ...` as parsed by lib.coq_parse -> list of normal-form rules"""
    out = []
    for t in parsed:
        lab, _num, kids = _sx(t)
        assert lab == "rule", lab
        heads = tuple(("head", h[1], tuple(_term(a) for a in h[2])) for h in kids[0][2])
        out.append(("rule", heads, tuple(_item(i) for i in kids[1][2])))
    return out


# ------------------------------------------------------------------ macro side (FRONT dump)

_IDENT = r"[A-Za-z_]\w*"
_PT_INV = {dl._strip(v): k for k, v in PAT_TEST.items()}
_PB_INV = {dl._strip(v): k for k, v in PAT_BIND.items()}


def h_term(a):
    if "v" in a:
        return ("v", ("id", a["v"]))
    if "w" in a:
        raise Shape("wildcard left in a desugared clause")
    try:
        t = dl.parse_expr(a["e"])
    except dl.ParseError as e:
        raise Shape(str(e))
    return n_term(t)


def n_term(t):
    if t[0] == "v":
        return ("v", ("id", t[1]))
    if t[0] == "c":
        return ("c", t[1])
    return ("f", dl.FUNS[t[1]][0], tuple(("id", x) for x in t[2]))


def h_pat(text):
    s = dl._strip(text)
    if s in _PT_INV:
        return ("ptest", _PT_INV[s])
    m = re.fullmatch(r"(%s)@(.*)" % _IDENT, s)
    if m and m.group(2) in _PB_INV:
        return ("pbind", _PB_INV[m.group(2)], ("id", m.group(1)))
    raise Shape("pattern outside the vocabulary: %r" % text)


def h_cond(c):
    kind = c["kind"]
    if kind == "if":
        s = dl._strip(c["expr"])
        m = re.fullmatch(r"(%s)\.eq\(&\((.*)\)\)" % _IDENT, s)
        if m:
            try:
                return ("ifeq", ("id", m.group(1)), n_term(dl.parse_expr(m.group(2))))
            except dl.ParseError as e:
                raise Shape(str(e))
        m = re.fullmatch(r"(%s)==(%s)" % (_IDENT, _IDENT), s)
        if m:
            return ("ifeq", ("id", m.group(1)), ("v", ("id", m.group(2))))
        mm = dl._match(dl._PRED_RX, c["expr"])
        if mm:
            return ("if", dl.PREDS[mm[0]][0], tuple(("id", x) for x in mm[1]))
        raise Shape("if condition outside the vocabulary: %r" % c["expr"])
    if kind == "let":
        try:
            t = dl.parse_expr(c["expr"])
        except dl.ParseError as e:
            raise Shape(str(e))
        if t[0] != "f":
            raise Shape("let outside the vocabulary: %r" % c["expr"])
        return ("bind", dl.FUNS[t[1]][0], ("id", dl._strip(c["pat"])), tuple(("id", x) for x in t[2]))
    if kind == "iflet":
        m = re.fullmatch(r"Some\((%s)\)" % _IDENT, dl._strip(c["pat"]))
        if m:
            mm = dl._match(dl._PART_RX, c["expr"])
            if not mm:
                raise Shape("if-let expression outside the vocabulary: %r" % c["expr"])
            return ("bind", dl.PARTIALS[mm[0]][0], ("id", m.group(1)), tuple(("id", x) for x in mm[1]))
        v = dl._strip(c["expr"])
        if not re.fullmatch(_IDENT, v):
            raise Shape("if-let on a non-variable: %r" % c["expr"])
        return ("iflet", h_pat(c["pat"]), ("id", v))
    raise Shape(kind)


def hir_rule(hr, R):
    body = []
    for it in hr["body"]:
        if it["t"] == "clause":
            body.append(("clause", R(it["rel"]), tuple(h_term(a) for a in it["args"]), tuple(h_cond(c) for c in it["conds"])))
        elif it["t"] == "cond":
            body.append(("cond", h_cond(it["cond"])))
        elif it["t"] == "gen":
            mm = dl._match(dl._GEN_RX, it["expr"])
            if not mm:
                raise Shape("generator outside the vocabulary: %r" % it["expr"])
            body.append(("gen", dl.GENS[mm[0]][0], ("id", dl._strip(it["pat"])), tuple(("id", x) for x in mm[1])))
        elif it["t"] == "agg":
            an = dl._strip(it["aggregator"]).split("::")[-1]
            if an not in dl.AGGS:
                raise Shape("aggregator outside the vocabulary: %r" % it["aggregator"])
            pat = dl._strip(it["pat"])
            out = () if pat == "()" else (("id", pat),)
            args = []
            for a in it["args"]:
                if "w" in a:
                    args.append(("w",))
                elif "v" in a and a["v"] in it["bound"]:
                    args.append(("b", ("id", a["v"])))
                else:
                    args.append(("k", h_term(a)))
            body.append(("agg", dl.AGGS[an], out, tuple(("id", x) for x in it["bound"]), R(it["rel"]), tuple(args)))
        else:
            raise Shape(it["t"])
    heads = tuple(("head", R(h["rel"]), tuple(h_term(a) for a in h["args"])) for h in hr["heads"])
    return ("rule", heads, tuple(body))


def hir_rules(dump, R):
    return [hir_rule(hr, R) for hr in dump["hir_rules"]]


# ------------------------------------------------------------------ generated names

def split_gen(name):
    """'stem_123' -> (stem, 123); 'stem_' -> (stem, 0)   (fresh_ident prints the first name without a number)"""
    m = re.fullmatch(r"(.*)_(\d*)", name)
    if not m:
        return None
    return m.group(1), (int(m.group(2)) if m.group(2) else 0), m.group(2)


def infer_counters(dump):
    """state of the process-wide IDENT_COUNTERS when the dumped desugaring started: the first variable per stem
    that rule_desugar_repeated_vars introduced (recognised by its equality condition, which the pass puts into
    the clause) tells the counter.  -> {stem: n}   (n = 0: the stem had no entry)"""
    cs = {}
    for hr in dump.get("hir_rules", []):
        for it in hr["body"]:
            if it["t"] != "clause":
                continue
            argv = [a.get("v") for a in it["args"]]
            for c in it["conds"]:
                if c["kind"] != "if":
                    continue
                s = dl._strip(c["expr"])
                m = re.fullmatch(r"(%s)\.eq\(&\((.*)\)\)" % _IDENT, s)
                stem = None
                if m:
                    stem = "expr_replaced"
                else:
                    m = re.fullmatch(r"(%s)==(%s)" % (_IDENT, _IDENT), s)
                    if m:
                        stem = m.group(2)
                if stem is None or m.group(1) not in argv or stem in cs:
                    continue
                g = split_gen(m.group(1))
                if g is None or g[0] != stem or (g[2] != "" and (g[2] != str(g[1]) or g[1] == 0)):
                    continue            # not a name fresh_ident can print: the exact comparison will report it
                cs[stem] = g[1]
    return cs


def coq_counters(cs):
    return "[" + "; ".join('(i "%s", %d%%nat)' % (k, v) for k, v in sorted(cs.items()) if v > 0) + "]"


# ------------------------------------------------------------------ comparison

def ids_of(t, acc):
    if isinstance(t, tuple):
        if len(t) == 2 and t[0] == "id":
            acc.append(t[1])
        else:
            for k in t:
                ids_of(k, acc)
    return acc


def alpha_diff(a_rules, b_rules, user_names):
    """a = macro dump, b = model with counters [].  Equal up to a renumbering of generated names: names that
    differ must both read stem_<number> with the same stem and the map must be a bijection that shifts every
    stem by one constant (the counters count up one by one).  Returns None or a description of the difference."""
    if len(a_rules) != len(b_rules):
        return "number of desugared rules: macro %d, model %d" % (len(a_rules), len(b_rules))
    ab, ba, shift = {}, {}, {}

    def go(a, b, path):
        if isinstance(a, tuple) and isinstance(b, tuple):
            if len(a) == 2 and a[0] == "id" and len(b) == 2 and b[0] == "id":
                x, y = a[1], b[1]
                if ab.get(x, y) != y or ba.get(y, x) != x:
                    return "%s: name %s / %s clashes with the renumbering %s" % (path, x, y, {k: v for k, v in ab.items() if k != v})
                ab[x], ba[y] = y, x
                if x != y:
                    gx, gy = split_gen(x), split_gen(y)
                    if not gx or not gy or gx[0] != gy[0]:
                        return "%s: names differ: macro %s, model %s" % (path, x, y)
                    d = gx[1] - gy[1]
                    if shift.setdefault(gx[0], d) != d:
                        return "%s: stem %s is not renumbered by a constant shift (%s vs %s)" % (path, gx[0], shift[gx[0]], d)
                return None
            if len(a) != len(b):
                return "%s: shapes differ: macro %r, model %r" % (path, a, b)
            for k, (u, v) in enumerate(zip(a, b)):
                r = go(u, v, path + (k,))
                if r:
                    return r
            return None
        if a != b:
            return "%s: macro %r, model %r" % (path, a, b)
        return None
    for k, (a, b) in enumerate(zip(a_rules, b_rules)):
        r = go(a, b, (k,))
        if r:
            return r
    # names kept equal although the stem is shifted elsewhere are fine only when they are not generated ones;
    # a user name must never have been renumbered
    for x, y in ab.items():
        if x != y and (x in user_names or y in user_names):
            return "generated name %s / %s coincides with a name written in the program" % (x, y)
    return None


def exact_diff(a_rules, b_rules):
    if len(a_rules) != len(b_rules):
        return "number of desugared rules: macro %d, model %d" % (len(a_rules), len(b_rules))
    for k, (a, b) in enumerate(zip(a_rules, b_rules)):
        if a != b:
            return "desugared rule #%d: macro %r, model %r" % (k, a, b)
    return None
